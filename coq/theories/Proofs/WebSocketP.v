(* Proofs about the WebSocket codec model (Model/WebSocket.v). *)
From Coq Require Import List NArith Arith Bool Lia ZifyBool.
From Circ Require Import Model.WebSocket.
Import ListNotations.
Open Scope N_scope.

(* ================================================================== A. finite sweeps over header bytes *)

Lemma sweep (P : N -> bool) (n : nat) :
  forallb P (map N.of_nat (seq 0 n)) = true -> forall x, x < N.of_nat n -> P x = true.
Proof.
  intros H x Hx. rewrite forallb_forall in H. apply H.
  rewrite <- (N2Nat.id x). apply in_map. apply in_seq. lia.
Qed.

Lemma hdr0 (fin : bool) op : op < 16 ->
  b_final ((if fin then 128 else 0) + op) = fin /\ b_opcode ((if fin then 128 else 0) + op) = op.
Proof.
  intros H. unfold b_final, b_opcode.
  pose proof (sweep (fun op => (negb (N.land (128 + op) 128 =? 0)) && (N.land (128 + op) 15 =? op)
                             && (N.land (0 + op) 128 =? 0) && (N.land (0 + op) 15 =? op)) 16
                    eq_refl op H) as S.
  cbv beta in S. destruct fin; lia.
Qed.

Lemma hdr1 (masked : bool) n7 : n7 < 128 ->
  b_mask ((if masked then 128 else 0) + n7) = masked /\ b_len7 ((if masked then 128 else 0) + n7) = n7.
Proof.
  intros H. unfold b_mask, b_len7.
  pose proof (sweep (fun n => (negb (N.land (128 + n) 128 =? 0)) && (N.land (128 + n) 127 =? n)
                             && (N.land (0 + n) 128 =? 0) && (N.land (0 + n) 127 =? n)) 128
                    eq_refl n7 H) as S.
  cbv beta in S. destruct masked; lia.
Qed.

Lemma lor128 n : n < 128 -> N.lor n 128 = 128 + n.
Proof.
  intros H. pose proof (sweep (fun n => N.lor n 128 =? 128 + n) 128 eq_refl n H) as S.
  cbv beta in S. lia.
Qed.

(* ================================================================== B. big-endian lengths *)

Lemma be_length k : forall n, length (be k n) = k.
Proof. induction k as [|k IH]; intros n; cbn [be]; [reflexivity|]. rewrite app_length, IH. cbn. lia. Qed.

Lemma be_decode_snoc l b : be_decode (l ++ [b]) = be_decode l * 256 + b.
Proof. unfold be_decode. rewrite fold_left_app. reflexivity. Qed.

Lemma be_decode_be k : forall n, be_decode (be k n) = n mod 256 ^ N.of_nat k.
Proof.
  induction k as [|k IH]; intros n.
  - cbn. now rewrite N.mod_1_r.
  - cbn [be]. rewrite be_decode_snoc, IH.
    rewrite Nat2N.inj_succ, N.pow_succ_r'.
    rewrite (N.mod_mul_r n 256 (256 ^ N.of_nat k)) by (try apply N.pow_nonzero; lia). lia.
Qed.

Lemma be_decode_small k n : n < 256 ^ N.of_nat k -> be_decode (be k n) = n.
Proof. intros H. rewrite be_decode_be. now apply N.mod_small. Qed.

Lemma byte_at n i : N.land (N.shiftr n (N.of_nat i * 8)) 255 = (n / 256 ^ N.of_nat i) mod 256.
Proof.
  change 255 with (N.ones 8). rewrite N.land_ones, N.shiftr_div_pow2.
  replace (2 ^ (N.of_nat i * 8)) with (256 ^ N.of_nat i); [reflexivity|].
  change 256 with (2 ^ 8). rewrite <- N.pow_mul_r. f_equal. lia.
Qed.

Lemma len_bytes_be k : forall n, len_bytes k n = be k n.
Proof.
  unfold len_bytes. induction k as [|k IH]; intros n; [reflexivity|].
  cbn [be]. rewrite <- IH.
  rewrite <- cons_seq, <- seq_shift. cbn [rev]. rewrite map_app. cbn [map].
  f_equal.
  - rewrite <- map_rev, map_map. apply map_ext. intros i.
    rewrite !byte_at. rewrite Nat2N.inj_succ, N.pow_succ_r', N.div_div by (try apply N.pow_nonzero; lia).
    reflexivity.
  - rewrite byte_at. cbn. now rewrite N.div_1_r.
Qed.

(* ================================================================== C. masking *)

Lemma xor_cycle_invol d : forall k0 k1 k2 k3,
  xor_cycle k0 k1 k2 k3 (xor_cycle k0 k1 k2 k3 d) = d.
Proof.
  induction d as [|c t IH]; intros; cbn [xor_cycle]; [reflexivity|].
  rewrite IH, N.lxor_assoc, N.lxor_nilpotent, N.lxor_0_r. reflexivity.
Qed.

Lemma xor_cycle_length d : forall k0 k1 k2 k3, length (xor_cycle k0 k1 k2 k3 d) = length d.
Proof. induction d as [|c t IH]; intros; cbn [xor_cycle length]; [reflexivity|]. now rewrite IH. Qed.

Definition rot (j : N) (k0 k1 k2 k3 : N) (d : list N) : list N :=
  if j =? 0 then xor_cycle k0 k1 k2 k3 d
  else if j =? 1 then xor_cycle k1 k2 k3 k0 d
  else if j =? 2 then xor_cycle k2 k3 k0 k1 d
  else xor_cycle k3 k0 k1 k2 d.

Lemma mask_from_cycle k0 k1 k2 k3 d : forall i,
  mask_from [k0; k1; k2; k3] i d = Some (rot (i mod 4) k0 k1 k2 k3 d).
Proof.
  induction d as [|c t IH]; intros i.
  - cbn [mask_from]. unfold rot. now repeat destruct (_ =? _).
  - cbn [mask_from]. rewrite IH.
    assert (B : i mod 4 < 4) by (apply N.mod_upper_bound; lia).
    assert (S : (i + 1) mod 4 = (i mod 4 + 1) mod 4).
    { rewrite N.add_mod by lia. reflexivity. }
    rewrite S. clear S. revert B. generalize (i mod 4). intros j B.
    assert (C : j = 0 \/ j = 1 \/ j = 2 \/ j = 3) by lia.
    destruct C as [C|[C|[C|C]]]; rewrite C; reflexivity.
Qed.

Lemma mask_key4 k d : mask_from (key_list k) 0 d =
  Some (let '(k0, k1, k2, k3) := k in xor_cycle k0 k1 k2 k3 d).
Proof. destruct k as [[[k0 k1] k2] k3]. cbn [key_list]. now rewrite mask_from_cycle. Qed.

Lemma mask_from_some key i d : length key = 4%nat -> exists m, mask_from key i d = Some m.
Proof.
  intros H. destruct key as [|k0 [|k1 [|k2 [|k3 [|]]]]]; try discriminate.
  eexists. apply mask_from_cycle.
Qed.

(* ================================================================== D. the encoder writes RFC frames *)

Section Enc.

Lemma encode_tail_rfc (mk : option key4) p :
  encode_tail p (option_map key_list mk) = Some (rfc_tail mk p).
Proof.
  unfold encode_tail, rfc_tail.
  set (n := N.of_nat (length p)).
  destruct (n <=? 125) eqn:E1; [|destruct (n <=? 65535) eqn:E2].
  - destruct mk as [k|]; cbn [option_map].
    + rewrite mask_key4. destruct k as [[[k0 k1] k2] k3]. cbn [key_list len_bytes seq rev map app].
      rewrite lor128 by lia. reflexivity.
    + reflexivity.
  - destruct mk as [k|]; cbn [option_map].
    + rewrite mask_key4, len_bytes_be. destruct k as [[[k0 k1] k2] k3]. reflexivity.
    + rewrite len_bytes_be. reflexivity.
  - destruct mk as [k|]; cbn [option_map].
    + rewrite mask_key4, len_bytes_be. destruct k as [[[k0 k1] k2] k3]. reflexivity.
    + rewrite len_bytes_be. reflexivity.
Qed.

End Enc.

(* ================================================================== E. the decoder on an RFC frame *)

Lemma firstn_app_exact {A} (a b : list A) n : n = length a -> firstn n (a ++ b) = a.
Proof. intros ->. rewrite firstn_app, Nat.sub_diag, firstn_all. cbn. apply app_nil_r. Qed.
Lemma skipn_app_exact {A} (a b : list A) n : n = length a -> skipn n (a ++ b) = b.
Proof. intros ->. rewrite skipn_app, Nat.sub_diag, skipn_all. reflexivity. Qed.

Definition wf_len (p : list N) := N.of_nat (length p) < 2 ^ 64.

(* a frame laid out as header, extended length, key, masked payload *)
Lemma parse_frame_layout (fin masked : bool) op n7 ext key p' rest :
  op < 16 -> n7 < 128 ->
  length ext = ext_len n7 ->
  N.of_nat (length p') = (if n7 <? 126 then n7 else be_decode ext) ->
  length key = (if masked then 4%nat else 0%nat) ->
  parse_frame (((if fin then 128 else 0) + op) :: ((if masked then 128 else 0) + n7)
               :: ext ++ key ++ p' ++ rest)
  = if masked then match mask_from key 0 p' with
                   | Some p => FFrame fin op p rest
                   | None => FCrash
                   end
    else FFrame fin op p' rest.
Proof.
  intros Hop Hn7 Hext Hlen Hkey. unfold parse_frame.
  destruct (hdr0 fin op Hop) as [-> ->]. destruct (hdr1 masked n7 Hn7) as [-> ->].
  rewrite <- Hext.
  replace (Nat.ltb (length (ext ++ key ++ p' ++ rest)) (length ext)) with false
    by (rewrite !app_length; symmetry; apply Nat.ltb_ge; lia).
  rewrite (firstn_app_exact ext) by reflexivity. rewrite (skipn_app_exact ext) by reflexivity.
  rewrite <- Hlen. rewrite <- Hkey.
  replace (N.of_nat (length (key ++ p' ++ rest)) <? N.of_nat (length key) + N.of_nat (length p')) with false
    by (rewrite !app_length; symmetry; apply N.ltb_ge; lia).
  rewrite (firstn_app_exact key) by reflexivity. rewrite (skipn_app_exact key) by reflexivity.
  rewrite Nat2N.id.
  rewrite (firstn_app_exact p') by reflexivity. rewrite (skipn_app_exact p') by reflexivity.
  reflexivity.
Qed.

Theorem parse_rfc_frame fin op mk p rest : op < 16 -> wf_len p ->
  parse_frame (rfc_frame fin op mk p ++ rest) = FFrame fin op p rest.
Proof.
  intros Hop Hp. unfold wf_len in Hp. unfold rfc_frame, rfc_tail.
  set (n := N.of_nat (length p)) in *.
  set (m := match mk with Some _ => 128 | None => 0 end).
  set (key := match mk with Some k => key_list k | None => [] end).
  set (p' := match mk with Some (k0, k1, k2, k3) => xor_cycle k0 k1 k2 k3 p | None => p end).
  assert (Hm : m = if (match mk with Some _ => true | None => false end) then 128 else 0)
    by (destruct mk; reflexivity).
  assert (Hpay : match mk with
                 | None => p
                 | Some (k0, k1, k2, k3) => [k0; k1; k2; k3] ++ xor_cycle k0 k1 k2 k3 p
                 end = key ++ p').
  { destruct mk as [[[[k0 k1] k2] k3]|]; reflexivity. }
  assert (Hlp : N.of_nat (length p') = n).
  { subst p'. destruct mk as [[[[k0 k1] k2] k3]|]; [rewrite xor_cycle_length|]; reflexivity. }
  assert (Hkey : length key = if (match mk with Some _ => true | None => false end) then 4%nat else 0%nat)
    by (destruct mk as [[[[k0 k1] k2] k3]|]; reflexivity).
  assert (Hres : (if (match mk with Some _ => true | None => false end)
                  then match mask_from key 0 p' with Some q => FFrame fin op q rest | None => FCrash end
                  else FFrame fin op p' rest) = FFrame fin op p rest).
  { subst key p'. destruct mk as [k|]; [|reflexivity].
    rewrite mask_key4. destruct k as [[[k0 k1] k2] k3]. now rewrite xor_cycle_invol. }
  rewrite Hpay, Hm. clear Hpay Hm.
  destruct (n <=? 125) eqn:E1; [|destruct (n <=? 65535) eqn:E2].
  - cbn [app]. rewrite <- Hres. rewrite <- !app_assoc.
    apply (parse_frame_layout fin _ op n [] key p' rest); try assumption; try lia.
    + unfold ext_len. replace (n <? 126) with true by lia. reflexivity.
    + replace (n <? 126) with true by lia. exact Hlp.
  - cbn [app]. rewrite <- Hres. rewrite <- !app_assoc.
    apply (parse_frame_layout fin _ op 126 (be 2 n) key p' rest); try assumption; try lia.
    + now rewrite be_length.
    + change (126 <? 126) with false. cbv iota. rewrite be_decode_small; [exact Hlp|].
      change (256 ^ N.of_nat 2) with 65536. lia.
  - cbn [app]. rewrite <- Hres. rewrite <- !app_assoc.
    apply (parse_frame_layout fin _ op 127 (be 8 n) key p' rest); try assumption; try lia.
    + now rewrite be_length.
    + change (127 <? 126) with false. cbv iota. rewrite be_decode_small; [exact Hlp|].
      change (256 ^ N.of_nat 8) with (2 ^ 64). exact Hp.
Qed.

(* ================================================================== F. one frame: monotone, consuming, total *)

Lemma firstn_app_le {A} (l x : list A) n : (n <= length l)%nat -> firstn n (l ++ x) = firstn n l.
Proof. intros H. rewrite firstn_app. replace (n - length l)%nat with 0%nat by lia. cbn. apply app_nil_r. Qed.
Lemma skipn_app_le {A} (l x : list A) n : (n <= length l)%nat -> skipn n (l ++ x) = skipn n l ++ x.
Proof. intros H. rewrite skipn_app. replace (n - length l)%nat with 0%nat by lia. reflexivity. Qed.

(* more bytes behind a complete frame do not change it *)
Lemma parse_frame_app d x f o p r :
  parse_frame d = FFrame f o p r -> parse_frame (d ++ x) = FFrame f o p (r ++ x).
Proof.
  destruct d as [|b0 [|b1 r0]]; try discriminate. cbn [app]. unfold parse_frame.
  set (nb := ext_len (b_len7 b1)).
  destruct (Nat.ltb (length r0) nb) eqn:E1; [discriminate|].
  apply Nat.ltb_ge in E1.
  replace (Nat.ltb (length (r0 ++ x)) nb) with false
    by (rewrite app_length; symmetry; apply Nat.ltb_ge; lia).
  rewrite (firstn_app_le r0 x nb E1), (skipn_app_le r0 x nb E1).
  set (plen := if b_len7 b1 <? 126 then b_len7 b1 else be_decode (firstn nb r0)).
  set (r1 := skipn nb r0). set (klen := if b_mask b1 then 4%nat else 0%nat).
  destruct (N.of_nat (length r1) <? N.of_nat klen + plen) eqn:E2; [discriminate|].
  apply N.ltb_ge in E2.
  replace (N.of_nat (length (r1 ++ x)) <? N.of_nat klen + plen) with false
    by (rewrite app_length; symmetry; apply N.ltb_ge; lia).
  assert (K : (klen <= length r1)%nat) by lia.
  rewrite (firstn_app_le r1 x klen K), (skipn_app_le r1 x klen K).
  assert (P : (N.to_nat plen <= length (skipn klen r1))%nat) by (rewrite skipn_length; lia).
  rewrite (firstn_app_le _ x _ P), (skipn_app_le _ x _ P).
  destruct (b_mask b1).
  - destruct (mask_from _ 0 _); [|discriminate]. intros H; inversion H; reflexivity.
  - intros H; inversion H; reflexivity.
Qed.

(* a complete frame consumes at least its two header bytes *)
Lemma parse_frame_shorter d f o p r : parse_frame d = FFrame f o p r -> (length r + 2 <= length d)%nat.
Proof.
  destruct d as [|b0 [|b1 r0]]; try discriminate. unfold parse_frame.
  destruct (Nat.ltb _ _); [discriminate|].
  destruct (N.ltb _ _); [discriminate|].
  assert (L : forall r, r = skipn (N.to_nat (if b_len7 b1 <? 126 then b_len7 b1
                                  else be_decode (firstn (ext_len (b_len7 b1)) r0)))
                         (skipn (if b_mask b1 then 4%nat else 0%nat) (skipn (ext_len (b_len7 b1)) r0)) ->
              (length r + 2 <= length (b0 :: b1 :: r0))%nat).
  { intros r' ->. rewrite !skipn_length. cbn [length]. lia. }
  destruct (b_mask b1).
  - destruct (mask_from _ 0 _); [|discriminate]. intros H; inversion H; subst. now apply L.
  - intros H; inversion H; subst. now apply L.
Qed.

(* the decoder never raises: the key slice has four bytes whenever it is used *)
Lemma parse_frame_total d : parse_frame d <> FCrash.
Proof.
  destruct d as [|b0 [|b1 r0]]; try discriminate. unfold parse_frame.
  destruct (Nat.ltb _ _); [discriminate|].
  destruct (N.ltb _ _) eqn:E2; [discriminate|]. apply N.ltb_ge in E2.
  destruct (b_mask b1); [|discriminate].
  match goal with |- context [mask_from ?k 0 ?q] => destruct (mask_from_some k 0 q) as [m ->] end;
    [|discriminate].
  rewrite firstn_length. lia.
Qed.

(* ================================================================== G. the frame loop: fuel *)

Section Loop.
Variable keyfn : nat -> list N.
Variable client : bool.
Notation loop := (loop keyfn client).
Notation frame_act := (frame_act keyfn client).

Lemma loop_fuel f : forall f' cs p d, (length d < f)%nat -> (length d < f')%nat ->
  loop f cs p d = loop f' cs p d.
Proof.
  induction f as [|f IH]; intros f' cs p d H1 H2; [lia|].
  destruct f' as [|f']; [lia|]. cbn [WebSocket.loop].
  destruct d as [|b d']; [reflexivity|].
  destruct (parse_frame (b :: d')) as [|fin o pl r|] eqn:E; try reflexivity.
  apply parse_frame_shorter in E.
  destruct (frame_act cs p fin o pl); try reflexivity;
    rewrite (IH f') by lia; reflexivity.
Qed.

Lemma loop_no_fuel f : forall cs p d, (length d < f)%nat -> loop f cs p d <> RFuel.
Proof.
  induction f as [|f IH]; intros cs p d H; [lia|]. cbn [WebSocket.loop].
  destruct d as [|b d']; [discriminate|].
  destruct (parse_frame (b :: d')) as [|fin o pl r|] eqn:E; try discriminate.
  apply parse_frame_shorter in E.
  destruct (frame_act cs p fin o pl) as [m p'|w p'|p'| |]; try discriminate.
  - specialize (IH cs p' r ltac:(lia)). destruct (loop f cs p' r); cbn; congruence.
  - specialize (IH cs p' r ltac:(lia)). destruct (loop f cs p' r); cbn; congruence.
  - apply IH. lia.
Qed.

(* unfolding one complete frame, same fuel on both sides *)
Lemma loop_step f cs p d fin o pl r : (length d < f)%nat ->
  parse_frame d = FFrame fin o pl r ->
  loop f cs p d =
  match frame_act cs p fin o pl with
  | AMsg m p' => add_msg m (loop f cs p' r)
  | AWrite w p' => add_write w (loop f cs p' r)
  | ASkip p' => loop f cs p' r
  | AClose => ROk (mkR [] [] true [] p)
  | ACrash => RCrash
  end.
Proof.
  intros H E. destruct f as [|f]; [lia|]. cbn [WebSocket.loop].
  pose proof (parse_frame_shorter _ _ _ _ _ E) as L.
  destruct d as [|b d']; [discriminate|]. rewrite E.
  destruct (frame_act cs p fin o pl); try reflexivity;
    rewrite (loop_fuel f (S f)) by lia; reflexivity.
Qed.

Lemma loop_incomplete f cs p d : (length d < f)%nat -> parse_frame d = FIncomplete ->
  loop f cs p d = ROk (mkR [] [] false d p).
Proof.
  intros H E. destruct f as [|f]; [lia|]. cbn [WebSocket.loop].
  destruct d as [|b d']; [reflexivity|]. now rewrite E.
Qed.

(* ================================================================== H. segmentation *)

(* outputs of a first run, followed by a second run *)
Definition seq_res (r : pres) (r2 : R pres) : R pres :=
  match r2 with
  | ROk y => ROk (mkR (r_msgs r ++ r_msgs y) (r_writes r ++ r_writes y) (r_closed y) (r_buf y) (r_ps y))
  | RCrash => RCrash
  | RFuel => RFuel
  end.

Lemma seq_res_nil b p r2 : seq_res (mkR [] [] false b p) r2 = r2.
Proof. destruct r2 as [[ms ws c bf q]| |]; reflexivity. Qed.

(* the streaming law of the frame loop: running over d ++ x is running over d and then over
   what d left in the buffer followed by x; after a close frame the rest is dropped *)
Lemma loop_app_n n : forall d, (length d <= n)%nat -> forall f cs p x, (length (d ++ x) < f)%nat ->
  match loop f cs p d with
  | ROk r => loop f cs p (d ++ x) =
             if r_closed r then ROk r else seq_res r (loop f cs (r_ps r) (r_buf r ++ x))
  | RCrash => loop f cs p (d ++ x) = RCrash
  | RFuel => False
  end.
Proof.
  induction n as [|n IH]; intros d Hn f cs p x H.
  - destruct d; [|cbn in Hn; lia]. destruct f as [|f]; [lia|].
    cbn [WebSocket.loop app r_closed r_ps r_buf]. now rewrite seq_res_nil.
  - pose proof H as H'. rewrite app_length in H'.
    destruct d as [|b d'].
    + destruct f as [|f]; [lia|].
      cbn [WebSocket.loop app r_closed r_ps r_buf]. now rewrite seq_res_nil.
    + destruct (parse_frame (b :: d')) as [|fin o pl r|] eqn:E.
      * rewrite (loop_incomplete f) by (try assumption; lia).
        cbn [r_closed r_ps r_buf]. now rewrite seq_res_nil.
      * pose proof (parse_frame_shorter _ _ _ _ _ E) as L.
        rewrite (loop_step f cs p (b :: d') fin o pl r ltac:(lia) E).
        rewrite (loop_step f cs p _ _ _ _ _ H (parse_frame_app _ x _ _ _ _ E)).
        assert (HI : forall p', match loop f cs p' r with
                 | ROk r0 => loop f cs p' (r ++ x) =
                     if r_closed r0 then ROk r0 else seq_res r0 (loop f cs (r_ps r0) (r_buf r0 ++ x))
                 | RCrash => loop f cs p' (r ++ x) = RCrash
                 | RFuel => False end).
        { intros p'. apply IH; [lia|]. rewrite app_length. lia. }
        destruct (frame_act cs p fin o pl) as [m p'|w p'|p'| |]; try reflexivity.
        -- specialize (HI p'). destruct (loop f cs p' r) as [r0| |]; cbn [add_msg]; try easy.
           ++ rewrite HI. cbn [r_closed r_ps r_buf].
              destruct (r_closed r0) eqn:Ec; [cbn; now rewrite Ec|].
              destruct (loop f cs (r_ps r0) (r_buf r0 ++ x)) as [y| |]; reflexivity.
           ++ now rewrite HI.
        -- specialize (HI p'). destruct (loop f cs p' r) as [r0| |]; cbn [add_write]; try easy.
           ++ rewrite HI. cbn [r_closed r_ps r_buf].
              destruct (r_closed r0) eqn:Ec; [cbn; now rewrite Ec|].
              destruct (loop f cs (r_ps r0) (r_buf r0 ++ x)) as [y| |]; reflexivity.
           ++ now rewrite HI.
        -- exact (HI p').
      * now apply parse_frame_total in E.
Qed.

Lemma loop_app f cs p d x : (length (d ++ x) < f)%nat ->
  match loop f cs p d with
  | ROk r => loop f cs p (d ++ x) =
             if r_closed r then ROk r else seq_res r (loop f cs (r_ps r) (r_buf r ++ x))
  | RCrash => loop f cs p (d ++ x) = RCrash
  | RFuel => False
  end.
Proof. apply (loop_app_n (length d)). lia. Qed.

(* what a run leaves in the buffer is a suffix of its input, so never longer *)
Lemma loop_buf_len f : forall cs p d r, loop f cs p d = ROk r -> (length (r_buf r) <= length d)%nat.
Proof.
  induction f as [|f IH]; intros cs p d r; [discriminate|]. cbn [WebSocket.loop].
  destruct d as [|b d']; [intros H; inversion H; cbn; lia|].
  destruct (parse_frame (b :: d')) as [|fin o pl r'|] eqn:E.
  - intros H; inversion H; cbn; lia.
  - apply parse_frame_shorter in E.
    destruct (frame_act cs p fin o pl) as [m p'|w p'|p'| |]; try discriminate.
    + destruct (loop f cs p' r') as [r0| |] eqn:E0; cbn [add_msg]; try discriminate.
      intros H; inversion H; subst; cbn [r_buf]. apply IH in E0. lia.
    + destruct (loop f cs p' r') as [r0| |] eqn:E0; cbn [add_write]; try discriminate.
      intros H; inversion H; subst; cbn [r_buf]. apply IH in E0. lia.
    + intros H. apply IH in H. lia.
    + intros H; inversion H; cbn; lia.
  - discriminate.
Qed.

End Loop.

(* ================================================================== I. segmentation at the component *)

Section Comp.
Variable keyfn : nat -> list N.
Variable client : bool.
Notation loop := (loop keyfn client).
Notation recv := (recv keyfn client).
Notation recv_all := (recv_all keyfn client).

Lemma out_app_nil_r o : out_app o no_out = o.
Proof. destruct o as [d w c]. unfold out_app, no_out. cbn. now rewrite !app_nil_r, Nat.add_0_r. Qed.
Lemma out_app_nil_l o : out_app no_out o = o.
Proof. destruct o as [d w c]. reflexivity. Qed.

Lemma recv_closed s c : crecv s = true -> recv s c = ROk (s, no_out).
Proof. intros H. unfold WebSocket.recv. now rewrite H. Qed.

Lemma on_close_crecv s s2 o2 : on_close keyfn client s = ROk (s2, o2) -> crecv s2 = crecv s.
Proof.
  unfold on_close. destruct (csent s).
  - intros H; inversion H; reflexivity.
  - destruct (encode_tail _ _); [|discriminate]. intros H; inversion H; reflexivity.
Qed.
Lemma on_close_no_fuel s : on_close keyfn client s <> RFuel.
Proof. unfold on_close. destruct (csent s); [discriminate|]. destruct (encode_tail _ _); discriminate. Qed.

(* two consecutive reads = one read of the concatenation *)
Lemma recv_app s a b : recv_all s [a; b] = recv s (a ++ b).
Proof.
  cbn [WebSocket.recv_all]. unfold WebSocket.recv at 1 3.
  destruct (crecv s) eqn:Ec.
  - rewrite (recv_closed s b Ec). reflexivity.
  - rewrite (app_assoc (buf s) a b).
    set (d := buf s ++ a).
    pose proof (loop_app keyfn client (S (length (d ++ b))) (csent s) (ps s) d b ltac:(lia)) as A.
    rewrite (loop_fuel keyfn client (S (length d)) (S (length (d ++ b)))) by (rewrite ?app_length; lia).
    destruct (loop (S (length (d ++ b))) (csent s) (ps s) d) as [r| |] eqn:E1; [|now rewrite A|contradiction].
    rewrite A. clear A.
    destruct (r_closed r) eqn:Er.
    + rewrite Er.
      destruct (on_close keyfn client _) as [[s2 o2]| |] eqn:EO; try reflexivity.
      apply on_close_crecv in EO. cbn [crecv] in EO.
      rewrite recv_closed by exact EO. now rewrite out_app_nil_r.
    + unfold WebSocket.recv. cbn [crecv csent buf WebSocket.ps].
      pose proof (loop_buf_len keyfn client _ _ _ _ _ E1) as BL.
      rewrite (loop_fuel keyfn client (S (length (r_buf r ++ b))) (S (length (d ++ b))))
        by (rewrite ?app_length in *; lia).
      destruct (loop (S (length (d ++ b))) (csent s) (r_ps r) (r_buf r ++ b)) as [y| |]; cbn [seq_res];
        try reflexivity.
      cbn [r_closed r_msgs r_writes r_buf r_ps].
      destruct (r_closed y).
      * destruct (on_close keyfn client _) as [[s2 o2]| |]; try reflexivity.
        unfold out_app, no_out. cbn [delivered written pclose].
        rewrite !app_nil_r, <- !app_assoc, Nat.add_0_r. reflexivity.
      * unfold out_app, no_out. cbn [delivered written pclose].
        rewrite !app_nil_r. reflexivity.
Qed.

Lemma recv_all_cons s c cs :
  recv_all s (c :: cs) =
  match recv s c with
  | ROk (s1, x) => match recv_all s1 cs with
                   | ROk (s2, y) => ROk (s2, out_app x y)
                   | RCrash => RCrash
                   | RFuel => RFuel
                   end
  | RCrash => RCrash
  | RFuel => RFuel
  end.
Proof. reflexivity. Qed.

Lemma recv_all_one s c : recv_all s [c] = recv s c.
Proof.
  cbn [WebSocket.recv_all]. destruct (recv s c) as [[s1 x]| |]; try reflexivity.
  now rewrite out_app_nil_r.
Qed.

Theorem segmentation_ne cs : forall s c, recv_all s (c :: cs) = recv_all s [concat (c :: cs)].
Proof.
  induction cs as [|c' cs IH]; intros s c.
  - cbn [concat]. now rewrite app_nil_r.
  - rewrite (recv_all_cons s c (c' :: cs)).
    rewrite recv_all_one. change (concat (c :: c' :: cs)) with (c ++ concat (c' :: cs)).
    rewrite <- recv_app. rewrite (recv_all_cons s c [concat (c' :: cs)]).
    destruct (recv s c) as [[s1 x]| |]; try reflexivity.
    now rewrite (IH s1 c').
Qed.

Lemma recv_nil s : buf s = [] -> recv s [] = ROk (s, no_out).
Proof.
  intros H. unfold WebSocket.recv. destruct (crecv s) eqn:Ec; [reflexivity|].
  rewrite H. cbn. destruct s as [b p cr csn]. cbn in *. now subst.
Qed.

Theorem segmentation s chunks : buf s = [] ->
  recv_all s chunks = recv_all s [concat chunks].
Proof.
  intros H. destruct chunks as [|c cs]; [|apply segmentation_ne].
  cbn [concat WebSocket.recv_all]. now rewrite (recv_nil s H).
Qed.

Corollary segmentation_eq s cs1 cs2 : buf s = [] -> concat cs1 = concat cs2 ->
  recv_all s cs1 = recv_all s cs2.
Proof. intros H E. now rewrite (segmentation s cs1 H), (segmentation s cs2 H), E. Qed.

(* the frame loop always has enough fuel; the decoder side cannot crash when no pong is due *)
Lemma recv_no_fuel s c : recv s c <> RFuel.
Proof.
  unfold WebSocket.recv. destruct (crecv s); [discriminate|].
  pose proof (loop_no_fuel keyfn client (S (length (buf s ++ c))) (csent s) (ps s) (buf s ++ c) ltac:(lia)) as F.
  destruct (loop _ _ _ _) as [r| |]; try congruence.
  destruct (r_closed r); [|discriminate].
  pose proof (on_close_no_fuel (mkS (r_buf r) (r_ps r) true (csent s))) as NF.
  destruct (on_close keyfn client _) as [[s2 o2]| |]; congruence.
Qed.

End Comp.

(* ================================================================== J. messages, fragments, control frames *)

Section Items.
Variable k4 : nat -> key4.          (* the masking keys the endpoint draws: any *)
Variable client : bool.
Definition keyf (n : nat) : list N := key_list (k4 n).
Notation loop := (loop keyf client).
Notation frame_act := (frame_act keyf client).
Notation bump := (bump client).

(* key of the n-th frame the endpoint writes *)
Definition okey (n : nat) : option key4 := if client then Some (k4 n) else None.

Lemma out_key_okey n : out_key keyf client n = option_map key_list (okey n).
Proof. unfold out_key, okey, keyf. now destruct client. Qed.

(* the pong frames answering the ping payloads qs, first key index n *)
Fixpoint pongs (n : nat) (qs : list (list N)) : list (list N) :=
  match qs with
  | [] => []
  | q :: r => rfc_frame true 10 (okey n) q :: pongs (bump n) r
  end.
Fixpoint bumps (n k : nat) : nat := match k with O => n | S k' => bumps (bump n) k' end.

Lemma pongs_app a : forall n b, pongs n (a ++ b) = pongs n a ++ pongs (bumps n (length a)) b.
Proof. induction a as [|q a IH]; intros n b; [reflexivity|]. cbn. now rewrite IH. Qed.
Lemma bumps_add a : forall n b, bumps n (a + b) = bumps (bumps n a) b.
Proof. induction a as [|a IH]; intros n b; [reflexivity|]. cbn. now rewrite IH. Qed.

(* ... unless the endpoint's close frame has been sent ([cs]): then pings are not answered *)
Definition pongs_if (cs : bool) (n : nat) (qs : list (list N)) : list (list N) :=
  if cs then [] else pongs n qs.
Definition bumps_if (cs : bool) (n k : nat) : nat := if cs then n else bumps n k.

Lemma pongs_if_app cs a n b :
  pongs_if cs n (a ++ b) = pongs_if cs n a ++ pongs_if cs (bumps_if cs n (length a)) b.
Proof. destruct cs; [reflexivity|apply pongs_app]. Qed.
Lemma bumps_if_add cs a n b : bumps_if cs n (a + b) = bumps_if cs (bumps_if cs n a) b.
Proof. destruct cs; [reflexivity|apply bumps_add]. Qed.
Lemma bumps_if_0 cs n : bumps_if cs n 0 = n.
Proof. now destruct cs. Qed.
Lemma pongs_if_nil cs n : pongs_if cs n [] = [].
Proof. now destruct cs. Qed.

Definition prepend (ms : list msg) (ws : list (list N)) (r : R pres) : R pres :=
  match r with
  | ROk y => ROk (mkR (ms ++ r_msgs y) (ws ++ r_writes y) (r_closed y) (r_buf y) (r_ps y))
  | RCrash => RCrash
  | RFuel => RFuel
  end.

Lemma prepend_nil r : prepend [] [] r = r.
Proof. destruct r as [[a b c d e]| |]; reflexivity. Qed.
Lemma prepend_prepend a b c d r : prepend a b (prepend c d r) = prepend (a ++ c) (b ++ d) r.
Proof. destruct r as [y| |]; cbn; try reflexivity. now rewrite !app_assoc. Qed.
Lemma add_msg_prepend m r : add_msg m r = prepend [m] [] r.
Proof. destruct r; reflexivity. Qed.
Lemma add_write_prepend w r : add_write w r = prepend [] [w] r.
Proof. destruct r; reflexivity. Qed.

Definition wf_ctl (c : ctl) := match c with Ping _ p => wf_len p | Pong _ p => wf_len p end.
Definition wf_frag (f : frag) := wf_len (frag_payload f) /\ Forall wf_ctl (frag_ctls f).
Definition wf_item (i : item) :=
  match i with
  | IMsg _ f more => wf_frag f /\ Forall wf_frag more
  | ICtl c => wf_ctl c
  end.

Lemma rfc_frame_length fin op mk p : (2 <= length (rfc_frame fin op mk p))%nat.
Proof.
  unfold rfc_frame, rfc_tail. cbn [length]. rewrite app_length.
  destruct (_ <=? 125); [|destruct (_ <=? 65535)]; cbn [length]; lia.
Qed.

(* one RFC frame at the head of the data *)
Lemma loop_rfc f cs p fin op mk pl t : op < 16 -> wf_len pl ->
  (length (rfc_frame fin op mk pl ++ t) < f)%nat ->
  loop f cs p (rfc_frame fin op mk pl ++ t) =
  match frame_act cs p fin op pl with
  | AMsg m p' => add_msg m (loop f cs p' t)
  | AWrite w p' => add_write w (loop f cs p' t)
  | ASkip p' => loop f cs p' t
  | AClose => ROk (mkR [] [] true [] p)
  | ACrash => RCrash
  end.
Proof. intros Ho Hp Hf. apply loop_step; [exact Hf|]. now apply parse_rfc_frame. Qed.

Lemma act_ping cs p q : frame_act cs p true 9 q =
  if cs then ASkip p
  else AWrite (rfc_frame true 10 (okey (nk p)) q) (mkP (pend p) (ptype p) (bump (nk p))).
Proof.
  unfold WebSocket.frame_act. change (9 <? 8) with false. change (9 =? 8) with false.
  change (9 =? 9) with true. cbv iota. destruct cs; [reflexivity|].
  rewrite out_key_okey, encode_tail_rfc. reflexivity.
Qed.

Lemma act_pong cs p q : frame_act cs p true 10 q = ASkip p.
Proof. reflexivity. Qed.

Lemma act_close cs p q : frame_act cs p true 8 q = AClose.
Proof. reflexivity. Qed.

Lemma loop_ctls cl : forall f cs p t, Forall wf_ctl cl ->
  (length (ctls_bytes cl ++ t) < f)%nat ->
  loop f cs p (ctls_bytes cl ++ t) =
  prepend [] (pongs_if cs (nk p) (concat (map ctl_pings cl)))
    (loop f cs (mkP (pend p) (ptype p) (bumps_if cs (nk p) (length (concat (map ctl_pings cl))))) t).
Proof.
  induction cl as [|c cl IH]; intros f cs p t W Hf.
  - cbn. rewrite pongs_if_nil, bumps_if_0, prepend_nil. now destruct p.
  - inversion W as [|? ? Wc Wl]; subst.
    unfold ctls_bytes in *. cbn [map concat] in *. rewrite <- app_assoc in *.
    assert (Hf' : (length (concat (map ctl_frame cl) ++ t) < f)%nat)
      by (rewrite app_length in Hf; lia).
    destruct c as [k q|k q]; cbn [ctl_frame ctl_pings app] in *.
    + rewrite loop_rfc by (try assumption; lia). rewrite act_ping.
      destruct cs.
      * rewrite (IH f true p t Wl Hf'). reflexivity.
      * rewrite (IH f false _ t Wl Hf'). unfold pongs_if, bumps_if.
        cbn [pend ptype nk pongs bumps length].
        rewrite add_write_prepend, prepend_prepend. reflexivity.
    + rewrite loop_rfc by (try assumption; lia). rewrite act_pong.
      now rewrite (IH f cs p t Wl Hf').
Qed.

Definition frags_pings (l : list frag) : list (list N) :=
  concat (map ctl_pings (concat (map frag_ctls l))).

Lemma frags_pings_cons f l : frags_pings (f :: l) = concat (map ctl_pings (frag_ctls f)) ++ frags_pings l.
Proof. unfold frags_pings. cbn [map concat]. now rewrite map_app, concat_app. Qed.

(* continuation frames complete the pending message; control frames in between are answered
   and leave it alone *)
Lemma loop_conts more : forall f cs acc ty n t, more <> [] -> Forall wf_frag more ->
  (length (conts_bytes more ++ t) < f)%nat ->
  loop f cs (mkP acc (Some ty) n) (conts_bytes more ++ t) =
  prepend [(ty =? 1, acc ++ concat (map frag_payload more))] (pongs_if cs n (frags_pings more))
    (loop f cs (mkP [] None (bumps_if cs n (length (frags_pings more)))) t).
Proof.
  induction more as [|[[k pl] cl] r IH]; intros f cs acc ty n t NE W Hf; [contradiction|].
  inversion W as [|? ? [Wp Wc] Wr]; subst. cbn [frag_payload frag_ctls fst snd] in Wp, Wc.
  cbn [conts_bytes] in *. rewrite <- !app_assoc in *.
  rewrite frags_pings_cons. cbn [frag_ctls snd map concat frag_payload fst].
  rewrite loop_rfc by (try assumption; lia).
  assert (Hf1 : (length (ctls_bytes cl ++ conts_bytes r ++ t) < f)%nat)
    by (rewrite app_length in Hf; lia).
  destruct r as [|fr r'].
  - (* last fragment *)
    unfold WebSocket.frame_act. change (0 <? 8) with true. cbv iota. cbn [pend ptype nk].
    cbn [conts_bytes app] in *.
    rewrite (loop_ctls cl f cs _ t Wc Hf1). cbn [pend ptype nk].
    rewrite add_msg_prepend, prepend_prepend. cbn [app concat map].
    unfold frags_pings. cbn [map concat]. rewrite !app_nil_r.
    unfold is_text. change (0 =? 1) with false. change (0 =? 0) with true. cbn [orb andb].
    reflexivity.
  - unfold WebSocket.frame_act. change (0 <? 8) with true. cbv iota. cbn [pend ptype nk].
    change (0 =? 0) with true. cbv iota.
    rewrite (loop_ctls cl f cs _ _ Wc Hf1). cbn [pend ptype nk].
    assert (Hf2 : (length (conts_bytes (fr :: r') ++ t) < f)%nat)
      by (rewrite app_length in Hf1; lia).
    rewrite (IH f cs (acc ++ pl) ty _ t ltac:(discriminate) Wr Hf2).
    rewrite prepend_prepend. cbn [app]. rewrite pongs_if_app, <- app_assoc.
    rewrite app_length, bumps_if_add. reflexivity.
Qed.

Lemma item_pings_msg text f more : item_pings (IMsg text f more) = frags_pings (f :: more).
Proof. unfold item_pings, frags_pings. cbn [map concat]. reflexivity. Qed.

(* _pending_type after an item: a message resets it, a control frame leaves it *)
Definition item_pt (pt : option N) (i : item) : option N :=
  match i with IMsg _ _ _ => None | ICtl _ => pt end.

Lemma loop_item i : forall f cs pt n t, wf_item i ->
  (length (item_bytes i ++ t) < f)%nat ->
  loop f cs (mkP [] pt n) (item_bytes i ++ t) =
  prepend (item_msgs i) (pongs_if cs n (item_pings i))
    (loop f cs (mkP [] (item_pt pt i) (bumps_if cs n (length (item_pings i)))) t).
Proof.
  destruct i as [text [[k pl] cl] more|c]; intros f cs pt n t W Hf.
  - destruct W as [[Wp Wc] Wm]. cbn [frag_payload frag_ctls fst snd] in Wp, Wc.
    rewrite item_pings_msg, frags_pings_cons. cbn [frag_ctls snd item_pt].
    cbn [item_bytes item_msgs frag_payload fst snd] in *. rewrite <- !app_assoc in *.
    assert (Hop : (if text then 1 else 2) < 16) by (destruct text; lia).
    rewrite loop_rfc by (try assumption; lia).
    assert (Hf1 : (length (ctls_bytes cl ++ conts_bytes more ++ t) < f)%nat)
      by (rewrite app_length in Hf; lia).
    destruct more as [|fr more'].
    + unfold WebSocket.frame_act.
      replace ((if text then 1 else 2) <? 8) with true by (destruct text; reflexivity).
      cbv iota. cbn [pend ptype nk conts_bytes app] in *.
      rewrite (loop_ctls cl f cs _ t Wc Hf1). cbn [pend ptype nk].
      rewrite add_msg_prepend, prepend_prepend. cbn [app concat map].
      unfold frags_pings. cbn [map concat]. rewrite !app_nil_r.
      unfold is_text. destruct text; reflexivity.
    + unfold WebSocket.frame_act.
      replace ((if text then 1 else 2) <? 8) with true by (destruct text; reflexivity).
      replace ((if text then 1 else 2) =? 0) with false by (destruct text; reflexivity).
      cbv iota. cbn [pend ptype nk app].
      rewrite (loop_ctls cl f cs _ _ Wc Hf1). cbn [pend ptype nk].
      assert (Hf2 : (length (conts_bytes (fr :: more') ++ t) < f)%nat)
        by (rewrite app_length in Hf1; lia).
      rewrite (loop_conts (fr :: more') f cs pl _ _ t ltac:(discriminate) Wm Hf2).
      rewrite prepend_prepend. cbn [app]. rewrite pongs_if_app.
      rewrite app_length, bumps_if_add.
      replace ((if text then 1 else 2) =? 1) with text by (destruct text; reflexivity).
      reflexivity.
  - cbn [item_bytes item_msgs item_pings item_pt] in *.
    replace (ctl_frame c) with (ctls_bytes [c]) in * by (unfold ctls_bytes; cbn; apply app_nil_r).
    rewrite (loop_ctls [c] f cs _ t) by (try assumption; repeat constructor; exact W).
    cbn [pend ptype nk map concat]. rewrite app_nil_r. reflexivity.
Qed.

Definition items_pt (pt : option N) (l : list item) : option N := fold_left item_pt l pt.

Theorem loop_items l : forall f cs pt n t, Forall wf_item l ->
  (length (items_bytes l ++ t) < f)%nat ->
  loop f cs (mkP [] pt n) (items_bytes l ++ t) =
  prepend (expected_msgs l) (pongs_if cs n (expected_pings l))
    (loop f cs (mkP [] (items_pt pt l) (bumps_if cs n (length (expected_pings l)))) t).
Proof.
  induction l as [|i l IH]; intros f cs pt n t W Hf.
  - cbn. now rewrite pongs_if_nil, bumps_if_0, prepend_nil.
  - inversion W as [|? ? Wi Wl]; subst.
    unfold items_bytes, expected_msgs, expected_pings, items_pt in *. cbn [map concat fold_left] in *.
    rewrite <- app_assoc in *.
    rewrite (loop_item i f cs pt n _ Wi Hf).
    assert (Hf' : (length (concat (map item_bytes l) ++ t) < f)%nat)
      by (rewrite app_length in Hf; lia).
    rewrite (IH f cs _ _ t Wl Hf').
    rewrite prepend_prepend, pongs_if_app, app_length, bumps_if_add. reflexivity.
Qed.

(* ---- from ANY codec state: the stream first completes the pending message (if one is pending),
   then carries whole items *)
Definition stream_ok (p : pstate) (more : list frag) : Prop :=
  match more with
  | [] => pend p = []                       (* nothing half-assembled, or it is empty so far *)
  | _ :: _ => exists ty, ptype p = Some ty  (* a first fragment has been seen *)
  end.
Definition completed (p : pstate) (more : list frag) : list msg :=
  match more with
  | [] => []
  | _ :: _ => [(match ptype p with Some ty => ty =? 1 | None => false end,
                pend p ++ concat (map frag_payload more))]
  end.
Definition stream_pt (p : pstate) (more : list frag) (l : list item) : option N :=
  items_pt (match more with [] => ptype p | _ :: _ => None end) l.
Definition stream_pings (more : list frag) (l : list item) : list (list N) :=
  frags_pings more ++ expected_pings l.

Theorem loop_stream f cs p more l t : stream_ok p more -> Forall wf_frag more -> Forall wf_item l ->
  (length (conts_bytes more ++ items_bytes l ++ t) < f)%nat ->
  loop f cs p (conts_bytes more ++ items_bytes l ++ t) =
  prepend (completed p more ++ expected_msgs l) (pongs_if cs (nk p) (stream_pings more l))
    (loop f cs (mkP [] (stream_pt p more l) (bumps_if cs (nk p) (length (stream_pings more l)))) t).
Proof.
  intros OK Wm Wl Hf. unfold stream_pings, stream_pt, completed.
  destruct more as [|fr more'].
  - cbn [stream_ok] in OK. destruct p as [pe pt n]. cbn [pend ptype nk] in *. subst pe.
    cbn [conts_bytes app] in *. unfold frags_pings. cbn [map concat app].
    now apply loop_items.
  - destruct OK as [ty Ety]. destruct p as [pe pt n]. cbn [pend ptype nk] in *. subst pt.
    rewrite (loop_conts (fr :: more') f cs pe ty n _ ltac:(discriminate) Wm Hf).
    assert (Hf' : (length (items_bytes l ++ t) < f)%nat) by (rewrite app_length in Hf; lia).
    rewrite (loop_items l f cs None _ t Wl Hf').
    rewrite prepend_prepend, pongs_if_app, app_length, bumps_if_add. reflexivity.
Qed.

(* ---- the component *)
Definition clean (n : nat) : st := mkS [] (mkP [] None n) false false.
Notation recv := (recv keyf client).
Notation recv_all := (recv_all keyf client).
Notation send := (send keyf client).
Notation on_close := (on_close keyf client).

Definition after_stream (s : st) (more : list frag) (l : list item) : st :=
  mkS [] (mkP [] (stream_pt (ps s) more l)
              (bumps_if (csent s) (nk (ps s)) (length (stream_pings more l)))) false (csent s).
Definition out_stream (s : st) (more : list frag) (l : list item) : out :=
  mkO (completed (ps s) more ++ expected_msgs l)
      (pongs_if (csent s) (nk (ps s)) (stream_pings more l)) 0.

Theorem recv_stream s more l c : crecv s = false ->
  stream_ok (ps s) more -> Forall wf_frag more -> Forall wf_item l ->
  buf s ++ c = conts_bytes more ++ items_bytes l ->
  recv s c = ROk (after_stream s more l, out_stream s more l).
Proof.
  intros Ec OK Wm Wl E. unfold WebSocket.recv. rewrite Ec, E.
  set (d := conts_bytes more ++ items_bytes l).
  assert (Ed : d = conts_bytes more ++ items_bytes l ++ []) by (now rewrite app_nil_r).
  rewrite Ed at 2. rewrite loop_stream by (try assumption; rewrite <- Ed; lia).
  unfold after_stream, out_stream.
  destruct (length d); cbn [WebSocket.loop prepend r_closed r_msgs r_writes r_buf r_ps];
    now rewrite !app_nil_r.
Qed.

(* the close frame the endpoint sends: masked iff client *)
Lemma on_close_rfc s : csent s = false ->
  on_close s = ROk (mkS (buf s) (mkP (pend (ps s)) (ptype (ps s)) (bump (nk (ps s)))) (crecv s) true,
                    mkO [] [rfc_frame true 8 (okey (nk (ps s))) []] (if crecv s then 1 else 0)%nat).
Proof. intros H. unfold WebSocket.on_close. rewrite H, out_key_okey, encode_tail_rfc. reflexivity. Qed.
Lemma on_close_sent s : csent s = true ->
  on_close s = ROk (mkS (buf s) (ps s) (crecv s) true, mkO [] [] (if crecv s then 1 else 0)%nat).
Proof. intros H. unfold WebSocket.on_close. now rewrite H. Qed.

Definition close_reply (cs : bool) (n : nat) : list (list N) :=
  if cs then [] else [rfc_frame true 8 (okey n) []].

Theorem recv_stream_close s more l k q junk c : crecv s = false ->
  stream_ok (ps s) more -> Forall wf_frag more -> Forall wf_item l -> wf_len q ->
  buf s ++ c = conts_bytes more ++ items_bytes l ++ rfc_frame true 8 k q ++ junk ->
  recv s c =
  ROk (let s1 := after_stream s more l in
       mkS [] (mkP [] (ptype (ps s1)) (if csent s then nk (ps s1) else bump (nk (ps s1)))) true true,
       mkO (delivered (out_stream s more l))
           (written (out_stream s more l) ++ close_reply (csent s) (nk (ps (after_stream s more l)))) 1).
Proof.
  intros Ec OK Wm Wl Wq E. unfold WebSocket.recv. rewrite Ec, E.
  set (d := conts_bytes more ++ items_bytes l ++ rfc_frame true 8 k q ++ junk).
  unfold d at 2. rewrite loop_stream by (try assumption; fold d; lia).
  rewrite loop_rfc; [|lia|assumption|subst d; rewrite !app_length; lia].
  rewrite act_close.
  cbn [prepend r_closed r_msgs r_writes r_buf r_ps]. rewrite !app_nil_r.
  unfold after_stream, out_stream, close_reply. cbn [ps nk ptype delivered written csent].
  destruct (csent s) eqn:Ecs.
  - rewrite on_close_sent by reflexivity. cbn [crecv buf WebSocket.ps written pclose]. now rewrite app_nil_r.
  - rewrite on_close_rfc by reflexivity. cbn [crecv buf WebSocket.ps written pclose pend ptype nk]. reflexivity.
Qed.

(* the same for every cut of the stream into reads; what is already in the buffer counts as its beginning *)
Theorem recv_stream_any_cut s more l c cs : crecv s = false ->
  stream_ok (ps s) more -> Forall wf_frag more -> Forall wf_item l ->
  buf s ++ concat (c :: cs) = conts_bytes more ++ items_bytes l ->
  recv_all s (c :: cs) = ROk (after_stream s more l, out_stream s more l).
Proof.
  intros Ec OK Wm Wl E. rewrite (segmentation_ne keyf client cs s c), recv_all_one.
  now apply recv_stream.
Qed.

Theorem recv_stream_close_any_cut s more l k q junk c cs : crecv s = false ->
  stream_ok (ps s) more -> Forall wf_frag more -> Forall wf_item l -> wf_len q ->
  buf s ++ concat (c :: cs) = conts_bytes more ++ items_bytes l ++ rfc_frame true 8 k q ++ junk ->
  recv_all s (c :: cs) =
  ROk (let s1 := after_stream s more l in
       mkS [] (mkP [] (ptype (ps s1)) (if csent s then nk (ps s1) else bump (nk (ps s1)))) true true,
       mkO (delivered (out_stream s more l))
           (written (out_stream s more l) ++ close_reply (csent s) (nk (ps (after_stream s more l)))) 1).
Proof.
  intros Ec OK Wm Wl Wq E. rewrite (segmentation_ne keyf client cs s c), recv_all_one.
  now apply (recv_stream_close s more l k q junk).
Qed.

(* ---- corollaries for the clean state (nothing buffered, nothing pending, no close) *)
Lemma items_pt_none l : items_pt None l = None.
Proof. unfold items_pt. induction l as [|i l IH]; [reflexivity|]. cbn [fold_left]. now destruct i. Qed.

Theorem recv_items_any_cut l n chunks : Forall wf_item l -> concat chunks = items_bytes l ->
  recv_all (clean n) chunks =
  ROk (clean (bumps n (length (expected_pings l))),
       mkO (expected_msgs l) (pongs n (expected_pings l)) 0).
Proof.
  intros W E. rewrite (segmentation keyf client (clean n) chunks eq_refl), E, recv_all_one.
  rewrite (recv_stream (clean n) [] l (items_bytes l)); try assumption; try reflexivity; try constructor.
  unfold after_stream, out_stream, stream_pt, stream_pings, clean, frags_pings.
  cbn [ps ptype nk csent completed map concat app pongs_if bumps_if]. now rewrite items_pt_none.
Qed.

Theorem recv_items_close_any_cut l n k q junk chunks : Forall wf_item l -> wf_len q ->
  concat chunks = items_bytes l ++ rfc_frame true 8 k q ++ junk ->
  recv_all (clean n) chunks =
  ROk (mkS [] (mkP [] None (bump (bumps n (length (expected_pings l))))) true true,
       mkO (expected_msgs l)
           (pongs n (expected_pings l) ++ [rfc_frame true 8 (okey (bumps n (length (expected_pings l)))) []]) 1).
Proof.
  intros W Wq E. rewrite (segmentation keyf client (clean n) chunks eq_refl), E, recv_all_one.
  rewrite (recv_stream_close (clean n) [] l k q junk); try assumption; try reflexivity; try constructor.
  unfold after_stream, out_stream, stream_pt, stream_pings, clean, frags_pings, close_reply.
  cbn [ps ptype nk csent completed map concat app pongs_if bumps_if delivered written].
  now rewrite items_pt_none.
Qed.

(* one unfragmented frame, any length class, any key, any cut *)
Theorem roundtrip (text : bool) mk p n chunks : wf_len p ->
  concat chunks = rfc_frame true (if text then 1 else 2) mk p ->
  recv_all (clean n) chunks = ROk (clean n, mkO [(text, p)] [] 0).
Proof.
  intros Wp E.
  pose proof (recv_items_any_cut [IMsg text (mk, p, []) []] n chunks) as H.
  unfold items_bytes, expected_msgs, expected_pings in H.
  cbn [map concat item_bytes item_msgs item_pings frag_payload frag_ctls fst snd ctls_bytes conts_bytes
       ctl_pings app length bumps pongs] in H.
  rewrite !app_nil_r in H. apply H; [|exact E].
  repeat constructor. exact Wp.
Qed.

(* the write handler emits exactly the RFC frame of the message *)
Theorem send_rfc s text p : csent s = false ->
  send s text p =
  ROk (mkS (buf s) (mkP (pend (ps s)) (ptype (ps s)) (bump (nk (ps s)))) (crecv s) false,
       mkO [] [rfc_frame true (if text then 1 else 2) (okey (nk (ps s))) p] 0).
Proof.
  intros H. unfold WebSocket.send. rewrite H, out_key_okey, encode_tail_rfc.
  destruct text; reflexivity.
Qed.

Theorem send_closed s text p : csent s = true -> send s text p = ROk (s, no_out).
Proof. intros H. unfold WebSocket.send. now rewrite H. Qed.

(* with four-byte keys nothing in the codec raises, whatever bytes arrive *)
Lemma loop_no_crash f : forall cs p d, loop f cs p d <> RCrash.
Proof.
  induction f as [|f IH]; intros cs p d; [discriminate|]. cbn [WebSocket.loop].
  destruct d as [|b d']; [discriminate|].
  destruct (parse_frame (b :: d')) as [|fin o pl r|] eqn:E; try discriminate.
  - destruct (frame_act cs p fin o pl) as [m p'|w p'|p'| |] eqn:EA; try discriminate.
    + specialize (IH cs p' r). destruct (loop f cs p' r); cbn; congruence.
    + specialize (IH cs p' r). destruct (loop f cs p' r); cbn; congruence.
    + apply IH.
    + exfalso. unfold WebSocket.frame_act in EA.
      rewrite out_key_okey, encode_tail_rfc in EA.
      repeat match type of EA with (if ?c then _ else _) = _ => destruct c end; discriminate.
  - now apply parse_frame_total in E.
Qed.

Lemma on_close_total s : exists s' o, on_close s = ROk (s', o).
Proof. destruct (csent s) eqn:E; [rewrite on_close_sent|rewrite on_close_rfc]; eauto. Qed.

Theorem recv_total s c : exists s' o, recv s c = ROk (s', o).
Proof.
  pose proof (recv_no_fuel keyf client s c) as NF.
  unfold WebSocket.recv in *. destruct (crecv s); [eauto|].
  pose proof (loop_no_crash (S (length (buf s ++ c))) (csent s) (ps s) (buf s ++ c)) as NC.
  destruct (WebSocket.loop _ _ _ _ _ _) as [r| |]; try congruence.
  destruct (r_closed r); [|eauto].
  destruct (on_close_total (mkS (r_buf r) (r_ps r) true (csent s))) as (s2 & o2 & ->). eauto.
Qed.

(* ---- every frame a client endpoint writes is masked, every frame a server endpoint writes is not *)
Definition masked_as (b : bool) (w : list N) : Prop := frame_mask_bit w = Some b.

Lemma rfc_mask_bit fin op mk p :
  frame_mask_bit (rfc_frame fin op mk p) = Some (match mk with Some _ => true | None => false end).
Proof.
  unfold rfc_frame, rfc_tail, frame_mask_bit.
  set (n := N.of_nat (length p)).
  destruct mk as [k|].
  - destruct (n <=? 125) eqn:E1; [|destruct (n <=? 65535) eqn:E2]; cbn [app]; f_equal;
      first [apply (proj1 (hdr1 true n ltac:(lia))) | reflexivity].
  - destruct (n <=? 125) eqn:E1; [|destruct (n <=? 65535) eqn:E2]; cbn [app]; f_equal;
      first [apply (proj1 (hdr1 false n ltac:(lia))) | reflexivity].
Qed.

Lemma okey_mask fin op n p : masked_as client (rfc_frame fin op (okey n) p).
Proof. unfold masked_as. rewrite rfc_mask_bit. unfold okey. now destruct client. Qed.

Lemma act_write_masked cs p fin o pl w p' : frame_act cs p fin o pl = AWrite w p' -> masked_as client w.
Proof.
  unfold WebSocket.frame_act. rewrite out_key_okey, encode_tail_rfc.
  destruct fin; [|discriminate]. destruct (o <? 8); [discriminate|].
  destruct (o =? 8); [discriminate|]. destruct (o =? 9); [|discriminate].
  destruct cs; [discriminate|]. intros H; inversion H.
  change (138 :: rfc_tail (okey (nk p)) pl) with (rfc_frame true 10 (okey (nk p)) pl).
  apply okey_mask.
Qed.

Lemma loop_writes_masked f : forall cs p d r, loop f cs p d = ROk r -> Forall (masked_as client) (r_writes r).
Proof.
  induction f as [|f IH]; intros cs p d r; [discriminate|]. cbn [WebSocket.loop].
  destruct d as [|b d']; [intros H; inversion H; constructor|].
  destruct (parse_frame (b :: d')) as [|fin o pl r'|] eqn:E.
  - intros H; inversion H; constructor.
  - destruct (frame_act cs p fin o pl) as [m p'|w p'|p'| |] eqn:EA; try discriminate.
    + destruct (loop f cs p' r') as [r0| |] eqn:E0; cbn [add_msg]; try discriminate.
      intros H; inversion H; subst; cbn [r_writes]. now apply IH in E0.
    + destruct (loop f cs p' r') as [r0| |] eqn:E0; cbn [add_write]; try discriminate.
      intros H; inversion H; subst; cbn [r_writes]. constructor.
      * now apply act_write_masked in EA.
      * now apply IH in E0.
    + apply IH.
    + intros H; inversion H; constructor.
  - discriminate.
Qed.

Lemma on_close_masked s s' x : on_close s = ROk (s', x) -> Forall (masked_as client) (written x).
Proof.
  destruct (csent s) eqn:E; [rewrite on_close_sent by exact E|rewrite on_close_rfc by exact E];
    intros H; inversion H; cbn [written]; repeat constructor. apply okey_mask.
Qed.

Theorem step_masked s o s' x : step keyf client s o = ROk (s', x) -> Forall (masked_as client) (written x).
Proof.
  destruct o as [c|text p|]; cbn [step].
  - unfold WebSocket.recv. destruct (crecv s); [intros H; inversion H; constructor|].
    destruct (WebSocket.loop _ _ _ _ _ _) as [r| |] eqn:EL; try discriminate.
    apply loop_writes_masked in EL.
    destruct (r_closed r).
    + destruct (on_close _) as [[s2 o2]| |] eqn:EO; try discriminate.
      apply on_close_masked in EO. intros H; inversion H; cbn [written].
      apply Forall_app; split; assumption.
    + intros H; inversion H; exact EL.
  - destruct (csent s) eqn:E.
    + rewrite send_closed by exact E. intros H; inversion H; constructor.
    + rewrite send_rfc by exact E. intros H; inversion H; cbn [written]. repeat constructor. apply okey_mask.
  - apply on_close_masked.
Qed.

End Items.

(* ================================================================== K. the opening handshake: no byte lost *)

Section Upgrade.
Variable keyfn : nat -> list N.
Variable client : bool.
Notation recv := (recv keyfn client).
Notation recv_all := (recv_all keyfn client).
Notation cread_all := (cread_all keyfn client).

Lemma crlf2_app l b : (4 <= length l)%nat -> crlf2 (l ++ b) = crlf2 l.
Proof. destruct l as [|a1 [|a2 [|a3 [|a4 l']]]]; cbn [length]; try lia. reflexivity. Qed.

Lemma split_head_len l h r : split_head l = Some (h, r) -> (4 <= length l)%nat.
Proof.
  revert h r. induction l as [|c t IH]; intros h r; [discriminate|]. cbn [split_head].
  destruct (crlf2 (c :: t)) eqn:E.
  - intros _. destruct t as [|a2 [|a3 [|a4 l']]]; try discriminate E. cbn [length]. lia.
  - destruct (split_head t) as [[h' r']|] eqn:ES; [|discriminate]. intros _.
    specialize (IH _ _ eq_refl). cbn [length]. lia.
Qed.

(* the end of the header block, once found, does not move when more bytes arrive *)
Lemma split_head_app l : forall b h r, split_head l = Some (h, r) -> split_head (l ++ b) = Some (h, r ++ b).
Proof.
  induction l as [|c t IH]; intros b h r; [discriminate|].
  intros H. pose proof (split_head_len _ _ _ H) as L. revert H.
  change ((c :: t) ++ b) with (c :: (t ++ b)). cbn [split_head].
  change (c :: (t ++ b)) with ((c :: t) ++ b). rewrite (crlf2_app (c :: t) b L).
  destruct (crlf2 (c :: t)).
  - intros H; inversion H; subst. f_equal. f_equal.
    + now rewrite firstn_app_le.
    + now rewrite skipn_app_le.
  - destruct (split_head t) as [[h' r']|] eqn:ES; [|discriminate].
    first [rewrite (IH b h' r' ES) | rewrite (IH b h' r' eq_refl)]. intros H; inversion H; reflexivity.
Qed.

Definition lift_open (r : R (st * out)) : R (cstate * out) :=
  match r with
  | ROk (s, o) => ROk (COpen s, o)
  | RCrash => RCrash
  | RFuel => RFuel
  end.

Lemma cread_open s cs : cread_all (COpen s) cs = lift_open (recv_all s cs).
Proof.
  revert s. induction cs as [|d cs IH]; intros s; [reflexivity|].
  cbn [WebSocket.cread_all WebSocket.recv_all cread].
  destruct (recv s d) as [[s1 x]| |]; try reflexivity.
  rewrite IH. destruct (recv_all s1 cs) as [[s2 y]| |]; reflexivity.
Qed.

(* every cut of (handshake response ++ frames): the bytes after the header block reach the codec
   exactly once, as if they had arrived in one read after the handshake *)
Theorem client_no_bytes_lost chunks : forall acc h rest,
  split_head acc = None ->
  split_head (acc ++ concat chunks) = Some (h, rest) ->
  cread_all (CHandshake acc) chunks = lift_open (recv init rest).
Proof.
  induction chunks as [|d cs IH]; intros acc h rest HN HS.
  - cbn [concat] in HS. rewrite app_nil_r in HS. congruence.
  - cbn [concat] in HS. rewrite app_assoc in HS.
    cbn [WebSocket.cread_all cread].
    destruct (split_head (acc ++ d)) as [[h' r']|] eqn:E.
    + rewrite (split_head_app _ (concat cs) _ _ E) in HS. inversion HS; subst.
      rewrite <- (recv_all_one keyfn client init (r' ++ concat cs)).
      change (r' ++ concat cs) with (concat (r' :: cs)).
      rewrite <- (segmentation_ne keyfn client cs init r').
      cbn [WebSocket.recv_all].
      destruct (recv init r') as [[s1 x]| |]; try reflexivity.
      rewrite cread_open. destruct (recv_all s1 cs) as [[s2 y]| |]; reflexivity.
    + rewrite (IH (acc ++ d) h rest E HS).
      destruct (recv init rest) as [[s o]| |]; cbn [lift_open]; try reflexivity.
      now rewrite out_app_nil_l.
Qed.

Corollary client_no_bytes_lost_start chunks h rest :
  split_head (concat chunks) = Some (h, rest) ->
  cread_all (CHandshake []) chunks = lift_open (recv init rest).
Proof. exact (client_no_bytes_lost chunks [] h rest eq_refl). Qed.

(* ---- the dispatcher's codec table: sockets do not interfere; after disconnect nothing is decoded *)
Definition dsock (o : dop) : nat :=
  match o with DUpgrade k | DRead k _ | DSend k _ _ | DClose k | DDisconnect k => k end.
Definition for_sock (k : nat) (ops : list dop) : list dop := filter (fun o => Nat.eqb (dsock o) k) ops.
Definition outs_of (k : nat) (xs : list (nat * out)) : list (nat * out) :=
  filter (fun x => Nat.eqb (fst x) k) xs.
Notation dstep := (dstep keyfn client).
Notation drun := (drun keyfn client).

Lemma dstep_other t o t1 x k : dstep t o = ROk (t1, x) -> dsock o <> k -> t1 k = t k /\ fst x <> k.
Proof.
  intros H NE.
  assert (S : forall v, t_set t (dsock o) v k = t k).
  { intros v. unfold t_set. destruct (Nat.eqb_spec k (dsock o)); [congruence|reflexivity]. }
  destruct o as [j|j d|j tx p|j|j]; cbn [WebSocket.dstep dsock] in *.
  - inversion H; subst. split; [apply S|exact NE].
  - destruct (t j) as [s|]; [destruct (recv s d) as [[s' y]| |]|]; inversion H; subst; split; auto; apply S.
  - destruct (t j) as [s|]; [destruct (send keyfn client s tx p) as [[s' y]| |]|]; inversion H; subst; split; auto; apply S.
  - destruct (t j) as [s|]; [destruct (on_close keyfn client s) as [[s' y]| |]|]; inversion H; subst; split; auto; apply S.
  - inversion H; subst. split; [apply S|exact NE].
Qed.

Lemma dstep_same t t' o t1 x : t (dsock o) = t' (dsock o) -> dstep t o = ROk (t1, x) ->
  exists t2, dstep t' o = ROk (t2, x) /\ t2 (dsock o) = t1 (dsock o) /\ fst x = dsock o.
Proof.
  intros E H.
  assert (S : forall (a b : table) v, t_set a (dsock o) v (dsock o) = t_set b (dsock o) v (dsock o)).
  { intros a b v. unfold t_set. now rewrite Nat.eqb_refl. }
  destruct o as [j|j d|j tx p|j|j]; cbn [WebSocket.dstep dsock] in *.
  - inversion H; subst. eexists; repeat split. apply S.
  - rewrite <- E. destruct (t j) as [s|] eqn:Et; [destruct (recv s d) as [[s' y]| |]|]; inversion H; subst;
      eexists; repeat split; try apply S; congruence.
  - rewrite <- E. destruct (t j) as [s|] eqn:Et; [destruct (send keyfn client s tx p) as [[s' y]| |]|];
      inversion H; subst; eexists; repeat split; try apply S; congruence.
  - rewrite <- E. destruct (t j) as [s|] eqn:Et; [destruct (on_close keyfn client s) as [[s' y]| |]|];
      inversion H; subst; eexists; repeat split; try apply S; congruence.
  - inversion H; subst. eexists; repeat split. apply S.
Qed.

Theorem dispatcher_isolation k ops : forall t t' t1 xs, t k = t' k ->
  drun t ops = ROk (t1, xs) ->
  exists t2, drun t' (for_sock k ops) = ROk (t2, outs_of k xs) /\ t2 k = t1 k.
Proof.
  induction ops as [|o ops IH]; intros t t' t1 xs E H.
  - inversion H; subst. exists t'. split; [reflexivity|now symmetry].
  - cbn [WebSocket.drun] in H.
    destruct (dstep t o) as [[ta x]| |] eqn:ES; try discriminate.
    destruct (drun ta ops) as [[tb ys]| |] eqn:ER; try discriminate.
    inversion H; subst. unfold for_sock, outs_of in *. cbn [filter].
    destruct (Nat.eqb_spec (dsock o) k) as [EQ|NE].
    + subst k. destruct (dstep_same t t' o ta x E ES) as (t2 & ES' & E2 & Fx).
      rewrite Fx, Nat.eqb_refl.
      destruct (IH ta t2 t1 ys (eq_sym E2) ER) as (t3 & ER' & E3).
      exists t3. cbn [WebSocket.drun]. rewrite ES', ER'. split; [reflexivity|exact E3].
    + destruct (dstep_other t o ta x k ES NE) as [Ek Fx].
      destruct (Nat.eqb_spec (fst x) k); [contradiction|].
      apply (IH ta t' t1 ys); [congruence|exact ER].
Qed.

Theorem disconnect_forgets t k d : dstep (t_set t k None) (DRead k d) = ROk (t_set t k None, (k, no_out)).
Proof. cbn [WebSocket.dstep]. unfold t_set at 1. now rewrite Nat.eqb_refl. Qed.

End Upgrade.
