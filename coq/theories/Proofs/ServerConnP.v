(* C12 — proofs about Model/ServerConn.v *)
From Coq Require Import List NArith Arith Bool Lia.
From Circ Require Import Model.ServerConn.
Import ListNotations.

(* ------------------------------------------------------------------ python containers *)
Lemma mem_In x l : mem x l = true <-> In x l.
Proof.
  unfold mem. rewrite existsb_exists. split.
  - intros [y [Hy E]]. apply Nat.eqb_eq in E. subst. exact Hy.
  - intros H. exists x. split; auto. apply Nat.eqb_refl.
Qed.
Lemma mem_nIn x l : mem x l = false <-> ~ In x l.
Proof.
  pose proof (mem_In x l) as H. destruct (mem x l); split; intros H1; try congruence.
  - exfalso. apply H1, H. reflexivity.
  - intro H2. apply H in H2. discriminate.
Qed.

Lemma In_remove1 y x l : In y (remove1 x l) -> In y l.
Proof.
  induction l as [|a t IH]; simpl; auto.
  destruct (Nat.eqb x a); simpl; intros; auto. destruct H; auto.
Qed.
Lemma In_remove1_neq y x l : y <> x -> In y l -> In y (remove1 x l).
Proof.
  intros N. induction l as [|a t IH]; simpl; auto.
  destruct (Nat.eqb_spec x a); simpl; intros [H|H]; subst; auto. congruence.
Qed.
Lemma NoDup_remove1 x l : NoDup l -> NoDup (remove1 x l).
Proof.
  induction 1 as [|a t Ha Hn IH]; simpl. constructor.
  destruct (Nat.eqb x a); auto. constructor; auto. intro. apply Ha. eapply In_remove1; eauto.
Qed.
Lemma remove1_notin x l : NoDup l -> ~ In x (remove1 x l).
Proof.
  induction 1 as [|a t Ha Hn IH]; simpl; auto.
  destruct (Nat.eqb_spec x a).
  - subst. exact Ha.
  - simpl. intros [H|H]; auto.
Qed.
Lemma In_del y x l : In y (del x l) <-> In y l /\ y <> x.
Proof.
  unfold del. rewrite filter_In. split; intros [H1 H2]; split; auto.
  - intro; subst. rewrite Nat.eqb_refl in H2. discriminate.
  - destruct (Nat.eqb_spec x y); auto; subst; exfalso; auto.
Qed.
Lemma In_add y x l : In y (add x l) <-> y = x \/ In y l.
Proof.
  unfold add. destruct (mem x l) eqn:E.
  - apply mem_In in E. split; auto. intros [H|H]; subst; auto.
  - rewrite in_app_iff. simpl. split; intros [H|H]; auto. destruct H; auto. contradiction.
Qed.
Lemma NoDup_snoc (x : nat) l : NoDup l -> ~ In x l -> NoDup (l ++ [x]).
Proof.
  intros. apply NoDup_rev in H. rewrite <- (rev_involutive (l ++ [x])). apply NoDup_rev.
  rewrite rev_app_distr. simpl. constructor; auto. rewrite <- in_rev. auto.
Qed.
Lemma NoDup_app_l {A} (a b : list A) : NoDup (a ++ b) -> NoDup a.
Proof.
  induction a; simpl; intros. constructor. inversion H; subst. constructor; auto.
  intro. apply H2. apply in_or_app; auto.
Qed.
Lemma In_bdel y s b : In y (map fst (bdel s b)) <-> In y (map fst b) /\ y <> s.
Proof.
  unfold bdel. induction b as [|[k v] t IH]; simpl. tauto.
  destruct (Nat.eqb_spec s k); simpl; rewrite IH; subst; split; intros; intuition congruence.
Qed.
Lemma In_bset y s v b : In y (map fst (bset s v b)) <-> y = s \/ In y (map fst b).
Proof.
  unfold bset. simpl. rewrite In_bdel. destruct (Nat.eq_dec y s); intuition.
Qed.
Lemma bhas_In s b : bhas s b = true <-> In s (map fst b).
Proof.
  unfold bhas. rewrite existsb_exists, in_map_iff. split.
  - intros [p [Hp E]]. apply Nat.eqb_eq in E. exists p. auto.
  - intros [p [E Hp]]. exists p. split; auto. subst. apply Nat.eqb_refl.
Qed.
Lemma In_btouch y s b : In y (map fst (btouch s b)) <-> y = s \/ In y (map fst b).
Proof.
  unfold btouch. destruct (bhas s b) eqn:E.
  - apply bhas_In in E. split; auto. intros [H|H]; subst; auto.
  - simpl. intuition.
Qed.

Local Opaque bset btouch bdel add del mem remove1.

(* ------------------------------------------------------------------ table invariant *)
Definition tabs (x : st) (s : sock) : Prop :=
  In s (map fst x.(bufs)) \/ In s x.(closeq) \/ In s x.(rd) \/ In s x.(wr) \/ In s x.(tg) \/ In s x.(mp).

Record wf (x : st) : Prop := {
  wf_nc : NoDup x.(clients); wf_nq : NoDup x.(closeq); wf_nr : NoDup x.(rd); wf_nw : NoDup x.(wr);
  wf_sub : forall s, tabs x s -> In s x.(clients) }.

Lemma wf_init : wf init.
Proof. constructor; simpl; try constructor. unfold tabs; simpl; tauto. Qed.

Ltac inv_wf H := destruct H as [Hnc Hnq Hnr Hnw Hsub].

Lemma tabs_upd hm t x s : tabs (upd hm t x) s -> tabs x s.
Proof.
  unfold upd, tabs. destruct (mem t (rd x) || mem t (wr x)) eqn:M; destruct hm; simpl;
    rewrite ?In_add, ?In_del; try tauto.
  apply orb_true_iff in M. destruct M as [M|M]; apply mem_In in M;
    intros [E|[E|[E|[E|[E|[E|E]]]]]]; subst; tauto.
Qed.
Lemma upd_fields hm t x :
  clients (upd hm t x) = clients x /\ bufs (upd hm t x) = bufs x /\ closeq (upd hm t x) = closeq x /\
  rd (upd hm t x) = rd x /\ wr (upd hm t x) = wr x.
Proof. unfold upd. destruct (mem t (rd x) || mem t (wr x)); destruct hm; simpl; auto. Qed.
(* when t is registered in neither list, _updateRegistration forgets it completely *)
Lemma upd_gone hm t x : ~ In t (rd x) -> ~ In t (wr x) -> ~ In t (tg x) ->
  ~ In t (tg (upd hm t x)) /\ ~ In t (mp (upd hm t x)).
Proof.
  intros Hr Hw Ht. unfold upd. apply mem_nIn in Hr, Hw. rewrite Hr, Hw. simpl.
  destruct hm; simpl; rewrite ?In_del; tauto.
Qed.

Lemma wf_touch t x : wf x -> In t x.(clients) -> wf (set_bufs (btouch t x.(bufs)) x).
Proof.
  intros H Ht. inv_wf H. constructor; simpl; auto.
  intros s. unfold tabs; simpl. rewrite In_btouch. intros [[E|E]|E]; subst; auto; apply Hsub; unfold tabs; tauto.
Qed.
Lemma wf_bset t v x : wf x -> In t x.(clients) -> wf (set_bufs (bset t v x.(bufs)) x).
Proof.
  intros H Ht. inv_wf H. constructor; simpl; auto.
  intros s. unfold tabs; simpl. rewrite In_bset. intros [[E|E]|E]; subst; auto; apply Hsub; unfold tabs; tauto.
Qed.
Lemma wf_closeq_add t x : wf x -> In t x.(clients) -> ~ In t x.(closeq) -> wf (set_closeq (x.(closeq) ++ [t]) x).
Proof.
  intros H Ht Hq. inv_wf H. constructor; simpl; auto. apply NoDup_snoc; auto.
  intros s. unfold tabs; simpl. rewrite in_app_iff. simpl.
  intros [E|[[E|[E|[]]]|E]]; subst; auto; apply Hsub; unfold tabs; tauto.
Qed.
Lemma wf_closeq_rem t x : wf x -> wf (set_closeq (remove1 t x.(closeq)) x).
Proof.
  intros H. inv_wf H. constructor; simpl; auto. apply NoDup_remove1; auto.
  intros s. unfold tabs; simpl. intros [E|[E|E]]; try apply In_remove1 in E; apply Hsub; unfold tabs; tauto.
Qed.
Lemma wf_addWriter hm t x : wf x -> In t x.(clients) -> ~ In t x.(wr) -> wf (addWriter hm t x).
Proof.
  intros H Ht Hw. inv_wf H. unfold addWriter.
  destruct (upd_fields hm t (mk (clients x) (bufs x) (closeq x) (rd x) (wr x ++ [t]) (add t (tg x)) (mp x)))
    as (E1 & E2 & E3 & E4 & E5).
  constructor; rewrite ?E1, ?E2, ?E3, ?E4, ?E5; simpl; auto. apply NoDup_snoc; auto.
  intros s Hs. apply tabs_upd in Hs.
  unfold tabs in Hs; simpl in Hs. rewrite in_app_iff, In_add in Hs. simpl in Hs.
  destruct Hs as [E|[E|[E|[[E|[E|[]]]|[[E|E]|E]]]]]; subst; auto; apply Hsub; unfold tabs; tauto.
Qed.
Lemma wf_addReader hm t x : wf x -> ~ In t x.(clients) -> wf (set_clients (x.(clients) ++ [t]) (addReader hm t x)).
Proof.
  intros H Ht. pose proof H as H0. inv_wf H. unfold addReader.
  destruct (upd_fields hm t (mk (clients x) (bufs x) (closeq x) (rd x ++ [t]) (wr x) (add t (tg x)) (mp x)))
    as (E1 & E2 & E3 & E4 & E5).
  assert (Hr : ~ In t (rd x)) by (intro; apply Ht, Hsub; unfold tabs; tauto).
  constructor; simpl; rewrite ?E1, ?E2, ?E3, ?E4, ?E5; simpl; auto.
  - apply NoDup_snoc; auto.
  - apply NoDup_snoc; auto.
  - intros s Hs. rewrite in_app_iff. simpl.
    assert (Hs' : tabs (upd hm t (mk (clients x) (bufs x) (closeq x) (rd x ++ [t]) (wr x) (add t (tg x)) (mp x))) s).
    { unfold tabs in *. simpl in Hs. exact Hs. }
    apply tabs_upd in Hs'.
    unfold tabs in Hs'; simpl in Hs'. rewrite in_app_iff, In_add in Hs'. simpl in Hs'.
    destruct Hs' as [E|[E|[[E|[E|[]]]|[E|[[E|E]|E]]]]]; subst; auto; left; apply Hsub; unfold tabs; tauto.
Qed.
Lemma wf_removeWriter hm t x : wf x -> wf (removeWriter hm t x).
Proof.
  intros H. inv_wf H. unfold removeWriter.
  match goal with |- wf (upd hm t ?y) => destruct (upd_fields hm t y) as (E1 & E2 & E3 & E4 & E5) end.
  constructor; rewrite ?E1, ?E2, ?E3, ?E4, ?E5; simpl; auto. apply NoDup_remove1; auto.
  intros s Hs. apply tabs_upd in Hs. revert Hs.
  unfold tabs; simpl. intros [E|[E|[E|[E|[E|E]]]]]; try apply In_remove1 in E;
    try (destruct (mem t (rd x) || mem t (remove1 t (wr x))); [|apply In_del in E]);
    apply Hsub; unfold tabs; tauto.
Qed.
Lemma wf_pdrop t x : wf x -> wf (pdrop t x).
Proof.
  intros H. inv_wf H. unfold pdrop. constructor; simpl; auto using NoDup_remove1.
  unfold tabs; simpl. intros s [E|[E|[E|[E|[E|E]]]]]; try apply In_remove1 in E; try apply In_del in E;
    apply Hsub; unfold tabs; tauto.
Qed.

(* Server._close: the socket leaves every table *)
Lemma do__close_spec hm t x x' o : wf x -> do__close hm t x = (x', o) ->
  (~ In t x.(clients) /\ x' = x /\ o = []) \/
  (In t x.(clients) /\ wf x' /\ x'.(clients) = remove1 t x.(clients) /\ o = [OEv (EDisconnect t)]).
Proof.
  intros H E. unfold do__close in E. destruct (mem t (clients x)) eqn:M; simpl in E.
  2:{ left. apply mem_nIn in M. injection E as <- <-. auto. }
  right. apply mem_In in M. injection E as <- <-. inv_wf H.
  unfold discard.
  match goal with |- context [upd hm t ?y] => destruct (upd_fields hm t y) as (E1 & E2 & E3 & E4 & E5);
    pose proof (tabs_upd hm t y) as TU; pose proof (upd_gone hm t y) as UG; set (Y := upd hm t y) in * end.
  simpl in *.
  assert (G1 : ~ In t (rd Y)) by (rewrite E4; apply remove1_notin; auto).
  assert (G2 : ~ In t (wr Y)) by (rewrite E5; apply remove1_notin; auto).
  destruct UG as [G3 G4]; try (apply remove1_notin; auto). { rewrite In_del; tauto. }
  split; auto. split; [|rewrite E1; auto].
  constructor; simpl; rewrite ?E1, ?E2, ?E3, ?E4, ?E5; auto using NoDup_remove1.
  intros s Hs.
  assert (N : s <> t).
  { intro; subst s. unfold tabs in Hs; simpl in Hs. rewrite In_bdel in Hs.
    destruct Hs as [Q|[Q|[Q|[Q|[Q|Q]]]]]; try tauto. rewrite E3 in Q. revert Q. apply remove1_notin; auto. }
  apply In_remove1_neq; auto.
  assert (Hs' : tabs Y s \/ In s (map fst (bufs x)) \/ In s (closeq x)).
  { unfold tabs in *; simpl in Hs. rewrite In_bdel in Hs. rewrite E3 in Hs.
    destruct Hs as [Q|[Q|Q]]; try tauto. apply In_remove1 in Q. tauto. }
  destruct Hs' as [Q|[Q|Q]]; [|apply Hsub; unfold tabs; tauto|apply Hsub; unfold tabs; tauto].
  apply TU in Q. unfold tabs in Q; simpl in Q.
  destruct Q as [Q|[Q|[Q|[Q|[Q|Q]]]]]; try apply In_remove1 in Q; try apply In_del in Q;
    apply Hsub; unfold tabs; tauto.
Qed.
