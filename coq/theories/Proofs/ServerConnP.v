(* C12 — proofs about Model/ServerConn.v *)
From Coq Require Import List NArith Arith Bool Lia.
From Circ Require Import Model.ServerConn.
Import ListNotations.

(* ------------------------------------------------------------------ python containers *)
Lemma mem_In x l : mem x l = true <-> In x l.
Proof.
  unfold mem. rewrite existsb_exists. split.
  - intros [y [Hy E]]. apply Nat.eqb_eq in E. subst. exact Hy.
  - intros H. exists x. split; auto. apply Nat.eqb_refl.
Qed.
Lemma mem_nIn x l : mem x l = false <-> ~ In x l.
Proof.
  pose proof (mem_In x l) as H. destruct (mem x l); split; intros H1; try congruence.
  - exfalso. apply H1, H. reflexivity.
  - intro H2. apply H in H2. discriminate.
Qed.

Lemma In_remove1 y x l : In y (remove1 x l) -> In y l.
Proof.
  induction l as [|a t IH]; simpl; auto.
  destruct (Nat.eqb x a); simpl; intros; auto. destruct H; auto.
Qed.
Lemma In_remove1_neq y x l : y <> x -> In y l -> In y (remove1 x l).
Proof.
  intros N. induction l as [|a t IH]; simpl; auto.
  destruct (Nat.eqb_spec x a); simpl; intros [H|H]; subst; auto. congruence.
Qed.
Lemma NoDup_remove1 x l : NoDup l -> NoDup (remove1 x l).
Proof.
  induction 1 as [|a t Ha Hn IH]; simpl. constructor.
  destruct (Nat.eqb x a); auto. constructor; auto. intro. apply Ha. eapply In_remove1; eauto.
Qed.
Lemma remove1_notin x l : NoDup l -> ~ In x (remove1 x l).
Proof.
  induction 1 as [|a t Ha Hn IH]; simpl; auto.
  destruct (Nat.eqb_spec x a).
  - subst. exact Ha.
  - simpl. intros [H|H]; auto.
Qed.
Lemma In_del y x l : In y (del x l) <-> In y l /\ y <> x.
Proof.
  unfold del. rewrite filter_In. split; intros [H1 H2]; split; auto.
  - intro; subst. rewrite Nat.eqb_refl in H2. discriminate.
  - destruct (Nat.eqb_spec x y); auto; subst; exfalso; auto.
Qed.
Lemma In_add y x l : In y (add x l) <-> y = x \/ In y l.
Proof.
  unfold add. destruct (mem x l) eqn:E.
  - apply mem_In in E. split; auto. intros [H|H]; subst; auto.
  - rewrite in_app_iff. simpl. split; intros [H|H]; auto. destruct H; auto. contradiction.
Qed.
Lemma NoDup_snoc (x : nat) l : NoDup l -> ~ In x l -> NoDup (l ++ [x]).
Proof.
  intros. apply NoDup_rev in H. rewrite <- (rev_involutive (l ++ [x])). apply NoDup_rev.
  rewrite rev_app_distr. simpl. constructor; auto. rewrite <- in_rev. auto.
Qed.
Lemma NoDup_app_l {A} (a b : list A) : NoDup (a ++ b) -> NoDup a.
Proof.
  induction a; simpl; intros. constructor. inversion H; subst. constructor; auto.
  intro. apply H2. apply in_or_app; auto.
Qed.
Lemma In_bdel y s b : In y (map fst (bdel s b)) <-> In y (map fst b) /\ y <> s.
Proof.
  unfold bdel. induction b as [|[k v] t IH]; simpl. tauto.
  destruct (Nat.eqb_spec s k); simpl; rewrite IH; subst; split; intros; intuition congruence.
Qed.
Lemma In_bset y s v b : In y (map fst (bset s v b)) <-> y = s \/ In y (map fst b).
Proof.
  unfold bset. simpl. rewrite In_bdel. destruct (Nat.eq_dec y s); intuition.
Qed.
Lemma bhas_In s b : bhas s b = true <-> In s (map fst b).
Proof.
  unfold bhas. rewrite existsb_exists, in_map_iff. split.
  - intros [p [Hp E]]. apply Nat.eqb_eq in E. exists p. auto.
  - intros [p [E Hp]]. exists p. split; auto. subst. apply Nat.eqb_refl.
Qed.
Lemma In_btouch y s b : In y (map fst (btouch s b)) <-> y = s \/ In y (map fst b).
Proof.
  unfold btouch. destruct (bhas s b) eqn:E.
  - apply bhas_In in E. split; auto. intros [H|H]; subst; auto.
  - simpl. intuition.
Qed.

Local Opaque bset btouch bdel add del mem remove1.

(* ------------------------------------------------------------------ table invariant *)
Definition tabs (x : st) (s : sock) : Prop :=
  In s (map fst x.(bufs)) \/ In s x.(closeq) \/ In s x.(rd) \/ In s x.(wr) \/ In s x.(tg) \/ In s x.(mp).

Record wf (x : st) : Prop := {
  wf_nc : NoDup x.(clients); wf_nq : NoDup x.(closeq); wf_nr : NoDup x.(rd); wf_nw : NoDup x.(wr);
  wf_sub : forall s, tabs x s -> In s x.(clients) }.

Lemma wf_init : wf init.
Proof. constructor; simpl; try constructor. unfold tabs; simpl; tauto. Qed.

Ltac inv_wf H := destruct H as [Hnc Hnq Hnr Hnw Hsub].

Lemma tabs_upd hm t x s : tabs (upd hm t x) s -> tabs x s.
Proof.
  unfold upd, tabs. destruct (mem t (rd x) || mem t (wr x)) eqn:M; destruct hm; simpl;
    rewrite ?In_add, ?In_del; try tauto.
  apply orb_true_iff in M. destruct M as [M|M]; apply mem_In in M;
    intros [E|[E|[E|[E|[E|[E|E]]]]]]; subst; tauto.
Qed.
Lemma upd_fields hm t x :
  clients (upd hm t x) = clients x /\ bufs (upd hm t x) = bufs x /\ closeq (upd hm t x) = closeq x /\
  rd (upd hm t x) = rd x /\ wr (upd hm t x) = wr x.
Proof. unfold upd. destruct (mem t (rd x) || mem t (wr x)); destruct hm; simpl; auto. Qed.
(* when t is registered in neither list, _updateRegistration forgets it completely *)
Lemma upd_gone hm t x : ~ In t (rd x) -> ~ In t (wr x) -> ~ In t (tg x) ->
  ~ In t (tg (upd hm t x)) /\ ~ In t (mp (upd hm t x)).
Proof.
  intros Hr Hw Ht. unfold upd. apply mem_nIn in Hr, Hw. rewrite Hr, Hw. simpl.
  destruct hm; simpl; rewrite ?In_del; tauto.
Qed.

Lemma wf_touch t x : wf x -> In t x.(clients) -> wf (set_bufs (btouch t x.(bufs)) x).
Proof.
  intros H Ht. inv_wf H. constructor; simpl; auto.
  intros s. unfold tabs; simpl. rewrite In_btouch. intros [[E|E]|E]; subst; auto; apply Hsub; unfold tabs; tauto.
Qed.
Lemma wf_bset t v x : wf x -> In t x.(clients) -> wf (set_bufs (bset t v x.(bufs)) x).
Proof.
  intros H Ht. inv_wf H. constructor; simpl; auto.
  intros s. unfold tabs; simpl. rewrite In_bset. intros [[E|E]|E]; subst; auto; apply Hsub; unfold tabs; tauto.
Qed.
Lemma wf_closeq_add t x : wf x -> In t x.(clients) -> ~ In t x.(closeq) -> wf (set_closeq (x.(closeq) ++ [t]) x).
Proof.
  intros H Ht Hq. inv_wf H. constructor; simpl; auto. apply NoDup_snoc; auto.
  intros s. unfold tabs; simpl. rewrite in_app_iff. simpl.
  intros [E|[[E|[E|[]]]|E]]; subst; auto; apply Hsub; unfold tabs; tauto.
Qed.
Lemma wf_closeq_rem t x : wf x -> wf (set_closeq (remove1 t x.(closeq)) x).
Proof.
  intros H. inv_wf H. constructor; simpl; auto. apply NoDup_remove1; auto.
  intros s. unfold tabs; simpl. intros [E|[E|E]]; try apply In_remove1 in E; apply Hsub; unfold tabs; tauto.
Qed.
Lemma wf_addWriter hm t x : wf x -> In t x.(clients) -> ~ In t x.(wr) -> wf (addWriter hm t x).
Proof.
  intros H Ht Hw. inv_wf H. unfold addWriter.
  destruct (upd_fields hm t (mk (clients x) (bufs x) (closeq x) (rd x) (wr x ++ [t]) (add t (tg x)) (mp x) (lis x)))
    as (E1 & E2 & E3 & E4 & E5).
  constructor; rewrite ?E1, ?E2, ?E3, ?E4, ?E5; simpl; auto. apply NoDup_snoc; auto.
  intros s Hs. apply tabs_upd in Hs.
  unfold tabs in Hs; simpl in Hs. rewrite in_app_iff, In_add in Hs. simpl in Hs.
  destruct Hs as [E|[E|[E|[[E|[E|[]]]|[[E|E]|E]]]]]; subst; auto; apply Hsub; unfold tabs; tauto.
Qed.
Lemma wf_addReader hm t x : wf x -> ~ In t x.(clients) -> wf (set_clients (x.(clients) ++ [t]) (addReader hm t x)).
Proof.
  intros H Ht. pose proof H as H0. inv_wf H. unfold addReader.
  destruct (upd_fields hm t (mk (clients x) (bufs x) (closeq x) (rd x ++ [t]) (wr x) (add t (tg x)) (mp x) (lis x)))
    as (E1 & E2 & E3 & E4 & E5).
  assert (Hr : ~ In t (rd x)) by (intro; apply Ht, Hsub; unfold tabs; tauto).
  constructor; simpl; rewrite ?E1, ?E2, ?E3, ?E4, ?E5; simpl; auto.
  - apply NoDup_snoc; auto.
  - apply NoDup_snoc; auto.
  - intros s Hs. rewrite in_app_iff. simpl.
    assert (Hs' : tabs (upd hm t (mk (clients x) (bufs x) (closeq x) (rd x ++ [t]) (wr x) (add t (tg x)) (mp x) (lis x))) s).
    { unfold tabs in *. simpl in Hs. exact Hs. }
    apply tabs_upd in Hs'.
    unfold tabs in Hs'; simpl in Hs'. rewrite in_app_iff, In_add in Hs'. simpl in Hs'.
    destruct Hs' as [E|[E|[[E|[E|[]]]|[E|[[E|E]|E]]]]]; subst; auto; left; apply Hsub; unfold tabs; tauto.
Qed.
Lemma wf_removeWriter hm t x : wf x -> wf (removeWriter hm t x).
Proof.
  intros H. inv_wf H. unfold removeWriter.
  match goal with |- wf (upd hm t ?y) => destruct (upd_fields hm t y) as (E1 & E2 & E3 & E4 & E5) end.
  constructor; rewrite ?E1, ?E2, ?E3, ?E4, ?E5; simpl; auto. apply NoDup_remove1; auto.
  intros s Hs. apply tabs_upd in Hs. revert Hs.
  unfold tabs; simpl. intros [E|[E|[E|[E|[E|E]]]]]; try apply In_remove1 in E;
    try (destruct (mem t (rd x) || mem t (remove1 t (wr x))); [|apply In_del in E]);
    apply Hsub; unfold tabs; tauto.
Qed.
Lemma wf_pdrop t x : wf x -> wf (pdrop t x).
Proof.
  intros H. inv_wf H. unfold pdrop. constructor; simpl; auto using NoDup_remove1.
  unfold tabs; simpl. intros s [E|[E|[E|[E|[E|E]]]]]; try apply In_remove1 in E; try apply In_del in E;
    apply Hsub; unfold tabs; tauto.
Qed.

(* Server._close: the socket leaves every table *)
Lemma do__close_spec hm t x x' o : wf x -> do__close hm t x = (x', o) ->
  (~ In t x.(clients) /\ x' = x /\ o = []) \/
  (In t x.(clients) /\ wf x' /\ x'.(clients) = remove1 t x.(clients) /\ o = [OEv (EDisconnect t)]).
Proof.
  intros H E. unfold do__close in E. destruct (mem t (clients x)) eqn:M; simpl in E.
  2:{ left. apply mem_nIn in M. injection E as <- <-. auto. }
  right. apply mem_In in M. injection E as <- <-. inv_wf H.
  unfold discard.
  match goal with |- context [upd hm t ?y] => destruct (upd_fields hm t y) as (E1 & E2 & E3 & E4 & E5);
    pose proof (tabs_upd hm t y) as TU; pose proof (upd_gone hm t y) as UG; set (Y := upd hm t y) in * end.
  simpl in *.
  assert (G1 : ~ In t (rd Y)) by (rewrite E4; apply remove1_notin; auto).
  assert (G2 : ~ In t (wr Y)) by (rewrite E5; apply remove1_notin; auto).
  destruct UG as [G3 G4]; try (apply remove1_notin; auto). { rewrite In_del; tauto. }
  split; auto. split; [|rewrite E1; auto].
  constructor; simpl; rewrite ?E1, ?E2, ?E3, ?E4, ?E5; auto using NoDup_remove1.
  intros s Hs.
  assert (N : s <> t).
  { intro; subst s. unfold tabs in Hs; simpl in Hs. rewrite In_bdel in Hs.
    destruct Hs as [Q|[Q|[Q|[Q|[Q|Q]]]]]; try tauto; revert Q; apply remove1_notin; auto. }
  apply In_remove1_neq; auto.
  assert (Hs' : tabs Y s \/ In s (map fst (bufs x)) \/ In s (closeq x)).
  { unfold tabs in *; simpl in Hs. rewrite In_bdel in Hs. rewrite ?E3, ?E4, ?E5 in *.
    destruct Hs as [Q|[Q|Q]]; try tauto. apply In_remove1 in Q. tauto. }
  destruct Hs' as [Q|[Q|Q]]; [|apply Hsub; unfold tabs; tauto|apply Hsub; unfold tabs; tauto].
  apply TU in Q. unfold tabs in Q; simpl in Q.
  destruct Q as [Q|[Q|[Q|[Q|[Q|Q]]]]]; try apply In_remove1 in Q; try apply In_del in Q;
    apply Hsub; unfold tabs; tauto.
Qed.

(* ------------------------------------------------------------------ effects of one handler invocation *)
Definition silent1 (e : out) : Prop :=
  match e with OCall (CRecv _ (RData (_ :: _))) => False | OCall _ => True | OSnap _ => True | OSrv _ => True | OEv _ => False end.
Definition silent (o : list out) : Prop := Forall silent1 o.

Inductive Eff (t : sock) (x x' : st) (o : list out) : Prop :=
| EffQ : wf x' -> clients x' = clients x -> silent o -> Eff t x x' o
| EffR pre d : wf x' -> clients x' = clients x -> In t (clients x) -> d <> [] -> silent pre ->
    o = pre ++ [OCall (CRecv t (RData d)); OEv (ERead t d)] -> Eff t x x' o
| EffC pre tail : wf x' -> In t (clients x) -> clients x' = remove1 t (clients x) -> silent pre ->
    (tail = [OEv (EDisconnect t)] \/ tail = [OEv (EError t); OEv (EDisconnect t)]) ->
    o = pre ++ tail -> Eff t x x' o.

Lemma silent_app a b : silent a -> silent b -> silent (a ++ b).
Proof. unfold silent. intros. apply Forall_app; auto. Qed.
Lemma silent_nil : silent [].
Proof. constructor. Qed.
#[local] Hint Resolve silent_nil silent_app : core.

Lemma Eff_pre t x x1 x' o1 o : clients x1 = clients x -> silent o1 -> Eff t x1 x' o -> Eff t x x' (o1 ++ o).
Proof.
  intros Ec S1 [W E S|pre d W E I D S ->|pre tail W I E S T ->]; rewrite Ec in *.
  - apply EffQ; auto.
  - eapply EffR with (pre := o1 ++ pre); eauto. rewrite app_assoc; auto.
  - eapply EffC with (pre := o1 ++ pre); eauto. rewrite app_assoc; auto.
Qed.

Lemma Eff_pre0 t x x1 x' o : clients x1 = clients x -> Eff t x1 x' o -> Eff t x x' o.
Proof. intros. change o with ([] ++ o). eapply Eff_pre; eauto. Qed.

Lemma do__close_eff hm t x x' o : wf x -> do__close hm t x = (x', o) -> Eff t x x' o.
Proof.
  intros W E. destruct (do__close_spec _ _ _ _ _ W E) as [(N & -> & ->)|(I & W' & Ec & ->)].
  - apply EffQ; auto.
  - eapply EffC with (pre := []) (tail := [OEv (EDisconnect t)]); eauto.
Qed.

Lemma do_close_eff hm t x x' o : wf x -> do_close hm t x = (x', o) -> Eff t x x' o.
Proof.
  intros W E. unfold do_close in E. destruct (mem t (clients x)) eqn:M; simpl in E.
  2:{ injection E as <- <-. apply EffQ; auto. }
  apply mem_In in M. pose proof (wf_touch t x W M) as W1.
  destruct (isnil (bget t (btouch t (bufs x)))).
  - apply do__close_eff in E; auto.
    eapply Eff_pre0; [|eauto]; reflexivity.
  - destruct (mem t (closeq x)) eqn:Q; injection E as <- <-.
    + apply EffQ; auto.
    + apply EffQ; auto. apply (wf_closeq_add t _ W1); auto. simpl. apply mem_nIn; auto.
Qed.

Lemma on_read_eff hm t r x x' o : wf x -> on_read hm t r x = (x', o) -> Eff t x x' o.
Proof.
  intros W E. unfold on_read in E. destruct (mem t (clients x)) eqn:M; simpl in E.
  2:{ injection E as <- <-. apply EffQ; auto. }
  apply mem_In in M.
  destruct r as [[|b d]| | |].
  - destruct (do_close hm t x) as [x1 o1] eqn:C. injection E as <- <-.
    apply do_close_eff in C; auto. change (OCall (CRecv t (RData [])) :: o1) with ([OCall (CRecv t (RData []))] ++ o1).
    eapply Eff_pre; eauto. repeat constructor.
  - injection E as <- <-. eapply EffR with (pre := []) (d := b :: d); auto; try discriminate; try reflexivity.
  - destruct (do_close hm t x) as [x1 o1] eqn:C. injection E as <- <-.
    apply do_close_eff in C; auto. change (OCall (CRecv t REof) :: o1) with ([OCall (CRecv t REof)] ++ o1).
    eapply Eff_pre; eauto. repeat constructor.
  - injection E as <- <-. apply EffQ; auto. repeat constructor.
  - destruct (do__close hm t x) as [x1 o1] eqn:C. injection E as <- <-.
    destruct (do__close_spec _ _ _ _ _ W C) as [(N & -> & ->)|(I & W' & Ec & ->)]. contradiction.
    eapply EffC with (pre := [OCall (CRecv t RErr)]) (tail := [OEv (EError t); OEv (EDisconnect t)]); eauto.
    repeat constructor.
Qed.

Lemma drained_eff hm t x x' o : wf x -> In t (clients x) -> drained hm t x = (x', o) -> Eff t x x' o.
Proof.
  intros W M E. unfold drained in E. pose proof (wf_touch t x W M) as W1.
  destruct (isnil (bget t (bufs (set_bufs (btouch t (bufs x)) x)))).
  - destruct (mem t (closeq (set_bufs (btouch t (bufs x)) x))).
    + apply do__close_eff in E. 2:{ apply wf_closeq_rem; auto. }
      eapply Eff_pre0; [|eauto]; reflexivity.
    + destruct (mem t (wr (set_bufs (btouch t (bufs x)) x))); injection E as <- <-.
      * apply EffQ; auto. apply wf_removeWriter; auto.
        unfold removeWriter. match goal with |- clients (upd ?a ?b ?c) = _ => destruct (upd_fields a b c) as [-> _] end. auto.
      * apply EffQ; auto.
  - injection E as <- <-. apply EffQ; auto.
Qed.

Lemma on_writable_eff hm t w x x' o : wf x -> on_writable hm t w x = (x', o) -> Eff t x x' o.
Proof.
  intros W E. unfold on_writable in E. destruct (mem t (clients x)) eqn:M; cbn [negb] in E.
  2:{ injection E as <- <-. apply EffQ; auto. }
  apply mem_In in M. pose proof (wf_touch t x W M) as W0.
  cbv zeta in E.
  set (x0 := set_bufs (btouch t (bufs x)) x) in *.
  assert (C0 : clients x0 = clients x) by reflexivity.
  destruct (bget t (bufs x0)) as [|n rest].
  - apply drained_eff in E; auto. eapply Eff_pre0; eauto.
  - pose proof (wf_bset t rest x0 W0 M) as W1.
    set (x1 := set_bufs (bset t rest (bufs x0)) x0) in *.
    assert (C1 : clients x1 = clients x) by reflexivity.
    assert (SS : silent [OCall (CSend t n)]) by (repeat constructor).
    destruct w as [k| |].
    + (* accepted *)
      set (x2 := if (k <? n)%N then set_bufs (bset t ((n - k)%N :: rest) (bufs x1)) x1 else x1) in *.
      assert (W2 : wf x2) by (unfold x2; destruct (k <? n)%N; auto; apply wf_bset; auto).
      assert (C2 : clients x2 = clients x) by (unfold x2; destruct (k <? n)%N; reflexivity).
      assert (M2 : mem t (clients x2) = true) by (rewrite C2; apply mem_In; auto).
      rewrite M2 in E. destruct (drained hm t x2) as [x3 o3] eqn:D. injection E as <- <-.
      apply drained_eff in D; auto. 2:{ rewrite C2; auto. }
      apply (Eff_pre t x x2 x3 [OCall (CSend t n)] o3); auto.
    + set (x2 := set_bufs (bset t (n :: rest) (bufs x1)) x1) in *.
      assert (W2 : wf x2) by (apply wf_bset; auto).
      assert (C2 : clients x2 = clients x) by reflexivity.
      assert (M2 : mem t (clients x2) = true) by (rewrite C2; apply mem_In; auto).
      rewrite M2 in E. destruct (drained hm t x2) as [x3 o3] eqn:D. injection E as <- <-.
      apply drained_eff in D; auto.
      apply (Eff_pre t x x2 x3 [OCall (CSend t n)] o3); auto.
    + destruct (do__close hm t x1) as [x2 o2] eqn:C.
      destruct (do__close_spec _ _ _ _ _ W1 C) as [(N & -> & ->)|(I & W' & Ec & ->)]. contradiction.
      assert (M2 : mem t (clients x2) = false).
      { apply mem_nIn. rewrite Ec. apply remove1_notin. destruct W1; auto. }
      rewrite M2 in E. injection E as <- <-.
      eapply EffC with (pre := [OCall (CSend t n)]) (tail := [OEv (EError t); OEv (EDisconnect t)]); eauto.
Qed.

Lemma on_write_req_eff hm t n x x' o : wf x -> on_write_req hm t n x = (x', o) -> Eff t x x' o.
Proof.
  intros W E. unfold on_write_req in E. destruct (mem t (clients x)) eqn:M; simpl in E.
  2:{ injection E as <- <-. apply EffQ; auto. }
  apply mem_In in M. injection E as <- <-.
  destruct (mem t (wr x)) eqn:Q.
  - apply EffQ; auto. apply wf_bset; auto.
  - apply mem_nIn in Q. pose proof (wf_addWriter hm t x W M Q) as W1.
    assert (C1 : clients (addWriter hm t x) = clients x).
    { unfold addWriter. match goal with |- clients (upd ?a ?b ?c) = _ => destruct (upd_fields a b c) as [-> _] end. auto. }
    apply EffQ; auto. apply wf_bset; auto. rewrite C1; auto.
Qed.

(* ------------------------------------------------------------------ observers' view *)
Lemma count_app {A} (f : A -> bool) a b : count f (a ++ b) = count f a + count f b.
Proof. unfold count. rewrite filter_app, app_length. auto. Qed.
Lemma proj_app s a b : proj s (a ++ b) = proj s a ++ proj s b.
Proof. unfold proj. apply flat_map_app. Qed.
Lemma reads_app s a b : reads s (a ++ b) = reads s a ++ reads s b.
Proof. unfold reads. apply flat_map_app. Qed.
Lemma recvd_app s a b : recvd s (a ++ b) = recvd s a ++ recvd s b.
Proof. unfold recvd. apply flat_map_app. Qed.
Lemma phase_app s a b : phase_of s (a ++ b) = fold_left astep (proj s b) (phase_of s a).
Proof. unfold phase_of. rewrite proj_app, fold_left_app. auto. Qed.

Lemma silent_view s o : silent o ->
  count (is_disc s) o = 0 /\ count (is_conn s) o = 0 /\ proj s o = [] /\ reads s o = [] /\ recvd s o = [].
Proof.
  induction 1 as [|e o He Ho IH]; simpl; auto.
  destruct IH as (I1 & I2 & I3 & I4 & I5).
  unfold count in *. simpl. unfold proj, reads, recvd in *. simpl. rewrite I3, I4, I5.
  destruct e as [e|[q [[|b d]| | |]|q n]|y|v]; simpl in He; try contradiction; simpl; auto.
Qed.

Lemma mem_ext s l l' : (In s l <-> In s l') -> mem s l = mem s l'.
Proof.
  intros H. destruct (mem s l) eqn:E1, (mem s l') eqn:E2; auto.
  - apply mem_In in E1. apply H in E1. apply mem_In in E1. congruence.
  - apply mem_In in E2. apply H in E2. apply mem_In in E2. congruence.
Qed.
Lemma mem_true s l : In s l -> mem s l = true.
Proof. apply mem_In. Qed.
Lemma mem_false s l : ~ In s l -> mem s l = false.
Proof. apply mem_nIn. Qed.

Record Inv (A G : list sock) (x : st) (acc : list out) : Prop := {
  I_wf : wf x;
  I_sub : forall s, In s x.(clients) -> In s A;
  I_G : forall s, In s G -> In s A /\ ~ In s x.(clients);
  I_disc : forall s, count (is_disc s) acc = if mem s A && negb (mem s x.(clients)) then 1 else 0;
  I_conn : forall s, count (is_conn s) acc = if mem s A && negb (mem s G) then 1 else 0;
  I_ph : forall s, ~ In s G ->
         phase_of s acc = if mem s A then if mem s x.(clients) then PLive else PDead else PNone;
  I_rd : forall s, reads s acc = recvd s acc }.

Lemma Inv_init : Inv [] [] init [].
Proof. constructor; simpl; auto using wf_init; try tauto. Qed.

Lemma Inv_eff A G t x x' acc o : Inv A G x acc -> Eff t x x' o -> Inv A G x' (acc ++ o).
Proof.
  intros [W Hs HG Hd Hc Hp Hr] [W' Ec S|pre d W' Ec I D S ->|pre tail W' I Ec S T ->].
  - (* nothing observable *)
    constructor; auto; rewrite ?Ec; auto; intros s; destruct (silent_view s o S) as (V1 & V2 & V3 & V4 & V5).
    + rewrite count_app, V1, Hd. lia.
    + rewrite count_app, V2, Hc. lia.
    + intros NG. rewrite phase_app, V3. simpl. auto.
    + rewrite reads_app, recvd_app, V4, V5, Hr. auto.
  - (* one recv -> one read event *)
    constructor; auto; rewrite ?Ec; auto; intros s; destruct (silent_view s pre S) as (V1 & V2 & V3 & V4 & V5).
    + rewrite !count_app, V1, Hd. unfold count; simpl. lia.
    + rewrite !count_app, V2, Hc. unfold count; simpl. lia.
    + intros NG. rewrite phase_app, proj_app, V3. simpl. destruct (Nat.eqb_spec s t); simpl; auto.
      subst s. rewrite (Hp t NG), (mem_true t A), (mem_true t (clients x)); auto.
    + rewrite !reads_app, !recvd_app, V4, V5, Hr. simpl. destruct d; [congruence|].
      destruct (Nat.eqb s t); auto.
  - (* the connection ends *)
    assert (NC : NoDup (clients x)) by (destruct W; auto).
    assert (Mt : forall s, mem s (clients x') = if Nat.eqb s t then false else mem s (clients x)).
    { intros s. rewrite Ec. destruct (Nat.eqb_spec s t).
      - subst. apply mem_false, remove1_notin; auto.
      - apply mem_ext. split; [apply In_remove1|apply In_remove1_neq; auto]. }
    constructor; auto.
    + intros s Hs'. rewrite Ec in Hs'. apply Hs. eapply In_remove1; eauto.
    + intros s Hs'. destruct (HG s Hs') as [G1 G2]. split; auto. rewrite Ec. intro Q. apply G2. eapply In_remove1; eauto.
    + intros s. destruct (silent_view s pre S) as (V1 & V2 & V3 & V4 & V5).
      rewrite !count_app, V1, Hd, Mt. destruct (Nat.eqb_spec s t).
      * subst s. rewrite (mem_true t A), (mem_true t (clients x)); auto. simpl.
        destruct T as [->| ->]; unfold count; simpl; rewrite Nat.eqb_refl; auto.
      * destruct T as [->| ->]; unfold count; simpl; apply Nat.eqb_neq in n; rewrite n; simpl; lia.
    + intros s. destruct (silent_view s pre S) as (V1 & V2 & V3 & V4 & V5).
      rewrite !count_app, V2, Hc. destruct T as [->| ->]; unfold count; simpl; lia.
    + intros s NG. destruct (silent_view s pre S) as (V1 & V2 & V3 & V4 & V5).
      rewrite phase_app, proj_app, V3, Mt. simpl. rewrite (Hp s NG). destruct (Nat.eqb_spec s t).
      * subst s. rewrite (mem_true t A), (mem_true t (clients x)); auto.
        destruct T as [->| ->]; simpl; rewrite Nat.eqb_refl; auto.
      * apply Nat.eqb_neq in n. destruct T as [->| ->]; simpl; rewrite n; simpl; auto.
    + intros s. destruct (silent_view s pre S) as (V1 & V2 & V3 & V4 & V5).
      rewrite !reads_app, !recvd_app, V4, V5, Hr. destruct T as [->| ->]; simpl; auto.
Qed.

Lemma clients_addReader hm t x : clients (addReader hm t x) = clients x.
Proof. unfold addReader. match goal with |- clients (upd ?a ?b ?c) = _ => destruct (upd_fields a b c) as [-> _] end. auto. Qed.

Lemma mem_snoc s t l : mem s (l ++ [t]) = mem s l || Nat.eqb s t.
Proof.
  destruct (Nat.eqb_spec s t).
  - subst. rewrite orb_true_r. apply mem_true. apply in_or_app. simpl. auto.
  - rewrite orb_false_r. apply mem_ext. rewrite in_app_iff. simpl. intuition congruence.
Qed.

Lemma Inv_accept hm A G t x acc x' o (gn : bool) :
  Inv A G x acc -> ~ In t A -> on_accept hm t gn x = (x', o) ->
  Inv (A ++ [t]) (G ++ if gn then [t] else []) x' (acc ++ o).
Proof.
  intros [W Hs HG Hd Hc Hp Hr] NA E.
  assert (NCt : ~ In t (clients x)) by (intro Q; apply NA, Hs, Q).
  assert (NGt : ~ In t G) by (intro Q; apply NA, (HG t Q)).
  assert (MA : mem t A = false) by (apply mem_false; auto).
  assert (MC : mem t (clients x) = false) by (apply mem_false; auto).
  assert (MG : mem t G = false) by (apply mem_false; auto).
  pose proof (wf_addReader hm t x W NCt) as W2.
  unfold on_accept in E. cbv zeta in E. rewrite clients_addReader in E.
  set (x2 := set_clients (clients x ++ [t]) (addReader hm t x)) in *.
  assert (C2 : clients x2 = clients x ++ [t]) by reflexivity.
  destruct gn.
  - (* reset before accept(): error + disconnect, never announced *)
    destruct (do__close hm t x2) as [x3 o3] eqn:C. injection E as <- <-.
    destruct (do__close_spec _ _ _ _ _ W2 C) as [(N & _)|(I & W3 & Ec & ->)].
    { exfalso. apply N. rewrite C2. apply in_or_app. simpl. auto. }
    assert (Mt : forall s, mem s (clients x3) = mem s (clients x)).
    { intros s. rewrite Ec, C2. destruct (Nat.eqb_spec s t).
      - subst. rewrite MC. apply mem_false, remove1_notin. destruct W2; auto.
      - apply mem_ext. split.
        + intro Q. apply In_remove1 in Q. apply in_app_or in Q. simpl in Q. intuition congruence.
        + intro Q. apply In_remove1_neq; auto. apply in_or_app; auto. }
    assert (It : forall s, In s (clients x3) -> In s (clients x)).
    { intros s Q. apply mem_In. rewrite <- Mt. apply mem_In; auto. }
    constructor; auto.
    + intros s Q. apply in_or_app. left. auto.
    + intros s Q. apply in_app_or in Q. destruct Q as [Q|[<-|[]]].
      * destruct (HG s Q). split. apply in_or_app; auto. intro Q'. apply H0, It, Q'.
      * split. apply in_or_app; simpl; auto. intro Q'. apply NCt, It, Q'.
    + intros s. rewrite count_app, Hd, Mt, mem_snoc. unfold count; simpl.
      destruct (Nat.eqb_spec s t); simpl.
      * subst. rewrite MA, MC. simpl. auto.
      * rewrite ?orb_false_r. lia.
    + intros s. rewrite count_app, Hc, !mem_snoc. unfold count; simpl.
      destruct (Nat.eqb_spec s t); simpl.
      * subst. rewrite MA, MG. simpl. auto.
      * rewrite ?orb_false_r. lia.
    + intros s NG. rewrite phase_app, Mt, mem_snoc. simpl.
      assert (s <> t) by (intro; subst; apply NG, in_or_app; simpl; auto).
      destruct (Nat.eqb_spec s t); [contradiction|]. simpl. rewrite ?orb_false_r. apply Hp.
      intro Q; apply NG, in_or_app; auto.
    + intros s. rewrite reads_app, recvd_app, Hr. simpl. auto.
  - injection E as <- <-. rewrite app_nil_r.
    constructor; auto.
    + intros s Q. rewrite C2 in Q. apply in_app_or in Q. apply in_or_app. simpl in *. intuition.
    + intros s Q. destruct (HG s Q). split. apply in_or_app; auto. rewrite C2. intro Q'.
      apply in_app_or in Q'. simpl in Q'. destruct Q' as [Q'|[<-|[]]]; auto.
    + intros s. rewrite count_app, Hd, C2, !mem_snoc. unfold count; simpl.
      destruct (Nat.eqb_spec s t); simpl.
      * subst. rewrite MA, MC. simpl. rewrite ?orb_true_r; auto.
      * rewrite ?orb_false_r. lia.
    + intros s. rewrite count_app, Hc, !mem_snoc. unfold count; simpl.
      destruct (Nat.eqb_spec s t); simpl.
      * subst. rewrite MA, MG. simpl. auto.
      * rewrite ?orb_false_r. lia.
    + intros s NG. rewrite phase_app, C2, !mem_snoc. simpl.
      destruct (Nat.eqb_spec s t); simpl.
      * subst. rewrite (Hp t NG), MA. simpl. rewrite ?orb_true_r; auto.
      * rewrite ?orb_false_r. apply Hp; auto.
    + intros s. rewrite reads_app, recvd_app, Hr. simpl. auto.
Qed.

Lemma NoDup_snoc_inv (t : nat) A : NoDup (A ++ [t]) -> ~ In t A.
Proof.
  intros H Q. apply NoDup_rev in H. rewrite rev_app_distr in H. simpl in H. inversion H; subst.
  apply H2. rewrite <- in_rev. auto.
Qed.

Lemma Inv_set_lis A G b x acc : Inv A G x acc -> Inv A G (set_lis b x) acc.
Proof.
  intros [[Hnc Hnq Hnr Hnw Hsub] Hs HG Hd Hc Hp Hr]. constructor; auto. constructor; auto.
Qed.

Lemma Inv_silent A G x acc o : Inv A G x acc -> silent o -> Inv A G x (acc ++ o).
Proof. intros I S. apply (Inv_eff A G 0 x x acc o I). apply EffQ; auto. apply (I_wf _ _ _ _ I). Qed.

Lemma close_each_Inv hm A G l : forall y oy acc, Inv A G y (acc ++ oy) ->
  Inv A G (fst (fold_left (fun (a : st * list out) s => let '(y, o) := a in
                            let '(y', o') := do_close hm s y in (y', o ++ o')) l (y, oy)))
          (acc ++ snd (fold_left (fun (a : st * list out) s => let '(y, o) := a in
                            let '(y', o') := do_close hm s y in (y', o ++ o')) l (y, oy))).
Proof.
  induction l as [|a l IH]; intros y oy acc I; simpl; auto.
  destruct (do_close hm a y) as [y' o'] eqn:C. apply IH. rewrite app_assoc.
  eapply Inv_eff; eauto. eapply do_close_eff; eauto. apply (I_wf _ _ _ _ I).
Qed.

Lemma Inv_close_all hm A G x acc x' o : Inv A G x acc -> close_all hm x = (x', o) -> Inv A G x' (acc ++ o).
Proof.
  intros I E. unfold close_all, close_each in E.
  match type of E with context [fold_left ?f ?l ?a] => destruct (fold_left f l a) as [x2 o2] eqn:F end.
  injection E as <- <-.
  set (o1 := if lis x then [OSrv VListenDown] else []).
  assert (S1 : silent o1) by (unfold o1; destruct (lis x); repeat constructor).
  pose proof (Inv_silent _ _ _ _ o1 (Inv_set_lis A G false x acc I) S1) as I1.
  rewrite <- (app_nil_r (acc ++ o1)) in I1.
  pose proof (close_each_Inv hm A G (clients x) (set_lis false x) [] (acc ++ o1) I1) as I2.
  rewrite F in I2. simpl in I2.
  rewrite !app_assoc. apply Inv_silent. exact I2. repeat constructor.
Qed.

Lemma Inv_step hm A G x acc i x' o :
  Inv A G x acc -> NoDup (A ++ accepted_of i) -> step hm x i = (x', o) ->
  Inv (A ++ accepted_of i) (G ++ gone_of i) x' (acc ++ o).
Proof.
  intros I ND E. pose proof (I_wf _ _ _ _ I) as W.
  destruct i; simpl in *.
  - apply (Inv_accept hm A G s x acc x' o false); auto. apply NoDup_snoc_inv; auto.
  - apply (Inv_accept hm A G s x acc x' o true); auto. apply NoDup_snoc_inv; auto.
  - rewrite !app_nil_r. eapply Inv_eff; [exact I|]. eapply on_read_eff; eauto.
  - rewrite !app_nil_r. eapply Inv_eff; [exact I|]. eapply on_writable_eff; eauto.
  - rewrite !app_nil_r. eapply Inv_eff; [exact I|]. injection E as <- <-. apply (EffQ s); auto. apply wf_pdrop; auto.
  - rewrite !app_nil_r. eapply Inv_eff; [exact I|]. eapply do__close_eff; eauto.
  - rewrite !app_nil_r. eapply Inv_eff; [exact I|]. eapply on_write_req_eff; eauto.
  - rewrite !app_nil_r. eapply Inv_eff; [exact I|]. eapply do_close_eff; eauto.
  - rewrite !app_nil_r. eapply Inv_close_all; eauto.
  - rewrite !app_nil_r. injection E as <- <-. apply Inv_silent; auto. repeat constructor.
Qed.

Lemma Inv_run_from hm h : forall A G x acc, Inv A G x acc -> NoDup (A ++ accepted h) ->
  Inv (A ++ accepted h) (G ++ gone h) (fst (run_from hm x acc h)) (snd (run_from hm x acc h)).
Proof.
  induction h as [|i t IH]; intros A G x acc HP Hnd; simpl in *.
  - rewrite !app_nil_r. exact HP.
  - destruct (step hm x i) as [x' o] eqn:E.
    unfold accepted, gone in *. simpl in *. rewrite app_assoc in Hnd. rewrite !app_assoc.
    apply IH; auto. eapply Inv_step; eauto. apply NoDup_app_l in Hnd. exact Hnd.
Qed.

Lemma Inv_run hm h : NoDup (accepted h) ->
  Inv (accepted h) (gone h) (fst (run hm h)) (snd (run hm h)).
Proof. intros. apply (Inv_run_from hm h [] [] init []); auto. apply Inv_init. Qed.

(* ------------------------------------------------------------------ the theorems *)
Theorem automaton hm h s : NoDup (accepted h) -> ~ In s (gone h) ->
  phase_of s (snd (run hm h)) =
  if mem s (accepted h) then if mem s (clients (fst (run hm h))) then PLive else PDead else PNone.
Proof. intros ND NG. apply (I_ph _ _ _ _ (Inv_run hm h ND)); auto. Qed.

Theorem reads_exact hm h s : NoDup (accepted h) -> reads s (snd (run hm h)) = recvd s (snd (run hm h)).
Proof. intros ND. apply (I_rd _ _ _ _ (Inv_run hm h ND)). Qed.

Theorem disconnect_once hm h s : NoDup (accepted h) ->
  count (is_disc s) (snd (run hm h)) =
  if mem s (accepted h) && negb (mem s (clients (fst (run hm h)))) then 1 else 0.
Proof. intros ND. apply (I_disc _ _ _ _ (Inv_run hm h ND)). Qed.

Theorem connect_once hm h s : NoDup (accepted h) ->
  count (is_conn s) (snd (run hm h)) = if mem s (accepted h) && negb (mem s (gone h)) then 1 else 0.
Proof. intros ND. apply (I_conn _ _ _ _ (Inv_run hm h ND)). Qed.

Lemma count_pos {A} (f : A -> bool) l x : In x l -> f x = true -> count f l >= 1.
Proof.
  intros H F. unfold count. assert (Q : In x (filter f l)) by (apply filter_In; auto).
  destruct (filter f l); simpl in *. contradiction. lia.
Qed.

Theorem no_trace hm h s : NoDup (accepted h) ->
  In (OEv (EDisconnect s)) (snd (run hm h)) -> no_state s (fst (run hm h)).
Proof.
  intros ND Hd. pose proof (Inv_run hm h ND) as I.
  pose proof (count_pos (is_disc s) _ _ Hd) as C. simpl in C. rewrite Nat.eqb_refl in C. specialize (C eq_refl).
  rewrite (I_disc _ _ _ _ I) in C.
  destruct (mem s (accepted h)); simpl in C; [|lia].
  destruct (mem s (clients (fst (run hm h)))) eqn:M; simpl in C; [lia|].
  apply mem_nIn in M. destruct (I_wf _ _ _ _ I) as [_ _ _ _ Hsub].
  unfold no_state. repeat split; auto; intro Q; apply M, Hsub; unfold tabs; tauto.
Qed.

(* every table entry belongs to a live connection, at every moment, for every history *)
Theorem tables_live hm h s : NoDup (accepted h) ->
  let x := fst (run hm h) in
  In s (map fst x.(bufs)) \/ In s x.(closeq) \/ In s x.(rd) \/ In s x.(wr) \/ In s x.(tg) \/ In s x.(mp) ->
  In s x.(clients) /\ In s (accepted h).
Proof.
  intros ND x Q. pose proof (Inv_run hm h ND) as I. destruct (I_wf _ _ _ _ I) as [_ _ _ _ Hsub].
  split. apply Hsub; exact Q. apply (I_sub _ _ _ _ I). apply Hsub; exact Q.
Qed.

Theorem automaton_refuted :
  exists h, NoDup (accepted h) /\ phase_of 0 (snd (run true h)) = PBad.
Proof. exists [SAcceptGone 0]. split. repeat constructor; simpl; tauto. vm_compute. reflexivity. Qed.

(* ------------------------------------------------------------------ client: one disconnected per connected *)
Definition b2n (b : bool) : nat := if b then 1 else 0.

Ltac cbrute E :=
  repeat (match type of E with
          | context [if ?a then _ else _] => destruct a; simpl in E
          end).

Lemma cstep_balance x i x' o :
  match i with KConnect _ _ => conn x = false | _ => True end -> cstep x i = (x', o) ->
  count is_kconn o + b2n (conn x) = count is_kdisc o + b2n (conn x').
Proof.
  intros P E. destruct x as [c p f so]. unfold cstep, c_drained, c_close, c__close in E. simpl in *.
  destruct i as [ok fr|[[|b d]| | |]|[k| |] cl| | |n|]; try destruct ok; try destruct cl;
    destruct c, f; destruct p as [|n0 rest]; simpl in *; try discriminate; cbrute E;
    injection E as <- <-; reflexivity.
Qed.

Lemma crun_from_balance h : forall x acc, connect_when_down x h = true ->
  count is_kconn acc = count is_kdisc acc + b2n (conn x) ->
  count is_kconn (snd (crun_from x acc h)) =
  count is_kdisc (snd (crun_from x acc h)) + b2n (conn (fst (crun_from x acc h))).
Proof.
  induction h as [|i t IH]; intros x acc P B; simpl in *; auto.
  apply andb_true_iff in P. destruct P as [P1 P2].
  destruct (cstep x i) as [x' o] eqn:E. simpl in P2.
  apply IH; auto. rewrite !count_app.
  assert (Q : count is_kconn o + b2n (conn x) = count is_kdisc o + b2n (conn x')).
  { apply (cstep_balance x i); auto. destruct i; auto. apply negb_true_iff in P1. auto. }
  lia.
Qed.

Theorem client_balance h : connect_when_down cinit h = true ->
  count is_kconn (snd (crun h)) = count is_kdisc (snd (crun h)) + b2n (conn (fst (crun h))).
Proof. intros P. apply crun_from_balance; auto. Qed.

(* without the precondition the count is wrong: connect while connected announces a second `connected` *)
Theorem client_balance_refuted :
  exists h, count is_kconn (snd (crun h)) = 2 /\ count is_kdisc (snd (crun h)) = 0.
Proof. exists [KConnect true false; KConnect true false]. vm_compute. auto. Qed.

(* while the socket object is closed (from `disconnected` until a connect makes a new one) the client is down and
   holds nothing — whatever arrives, late writes and closes included *)
Definition cinv (x : cst) : Prop := sopen x = false -> cdown x.

Lemma cstep_cinv x i : cinv x -> cinv (fst (cstep x i)).
Proof.
  unfold cinv, cdown. destruct x as [c p f so]. intros H.
  destruct (cstep (cmk c p f so) i) as [x' o] eqn:E.
  unfold cstep, c_drained, c_close, c__close in E. simpl in *.
  destruct i as [ok fr|[[|b d]| | |]|[k| |] cl| | |n|]; try destruct ok; try destruct cl; try destruct fr;
    destruct c, f, so; destruct p as [|n0 rest]; simpl in *; cbrute E;
    injection E as <- <-; simpl; intros Q; try discriminate; auto;
    try (destruct (H eq_refl) as (H1 & H2 & H3); discriminate).
Qed.

Lemma crun_from_cinv h : forall x acc, cinv x -> cinv (fst (crun_from x acc h)).
Proof.
  induction h as [|i t IH]; intros x acc H; simpl; auto.
  destruct (cstep x i) as [x' o] eqn:E. apply IH. pose proof (cstep_cinv x i H) as Q. rewrite E in Q. exact Q.
Qed.

Theorem client_closed_clean h : sopen (fst (crun h)) = false -> cdown (fst (crun h)).
Proof. apply (crun_from_cinv h cinit []). unfold cinv, cinit. simpl. discriminate. Qed.

(* the step that reports `disconnected` closes the socket and clears everything *)
Lemma cstep_disc_closes x i : In KDisconnected (snd (cstep x i)) ->
  sopen (fst (cstep x i)) = false /\ cdown (fst (cstep x i)).
Proof.
  unfold cdown. destruct x as [c p f so].
  destruct (cstep (cmk c p f so) i) as [x' o] eqn:E.
  unfold cstep, c_drained, c_close, c__close in E. simpl in *.
  destruct i as [ok fr|[[|b d]| | |]|[k| |] cl| | |n|]; try destruct ok; try destruct cl; try destruct fr;
    destruct c, f, so; destruct p as [|n0 rest]; simpl in *; cbrute E;
    injection E as <- <-; simpl; intros Q; auto;
    repeat (destruct Q as [Q|Q]; try discriminate); try contradiction.
Qed.

(* a closed, down client ignores everything but connect: state unchanged, nothing sent, nothing announced *)
Lemma cstep_down_inert x i : sopen x = false -> cdown x ->
  match i with KConnect _ _ => False | _ => True end ->
  fst (cstep x i) = x /\
  (forall e, In e (snd (cstep x i)) -> is_ksend e = false /\ is_kconn e = false /\ is_kdisc e = false).
Proof.
  unfold cdown. destruct x as [c p f so]. simpl. intros -> (-> & -> & ->) NC.
  destruct i as [ok fr|[[|b d]| | |]|[k| |] cl| | |n|]; try contradiction; simpl; split; auto;
    intros e Q; repeat (destruct Q as [Q|Q]; try (subst e; simpl; auto)); try contradiction.
Qed.

Theorem client_late_requests_inert h i : sopen (fst (crun h)) = false ->
  match i with KConnect _ _ => False | _ => True end ->
  fst (cstep (fst (crun h)) i) = fst (crun h) /\
  (forall e, In e (snd (cstep (fst (crun h)) i)) -> is_ksend e = false /\ is_kconn e = false /\ is_kdisc e = false).
Proof. intros S NC. apply cstep_down_inert; auto. apply client_closed_clean; auto. Qed.

(* ------------------------------------------------------------------ readable consequences of the automaton *)
Lemma bad_absorbing l : fold_left astep l PBad = PBad.
Proof. induction l; simpl; auto. Qed.
Lemma dead_then_bad l : l <> [] -> fold_left astep l PDead = PBad.
Proof. destruct l as [|e l]; [congruence|]. intros _. simpl. destruct e; apply bad_absorbing. Qed.

Lemma phase_not_bad hm h s : NoDup (accepted h) -> ~ In s (gone h) -> phase_of s (snd (run hm h)) <> PBad.
Proof.
  intros ND NG. rewrite (automaton hm h s ND NG).
  destruct (mem s (accepted h)); [destruct (mem s (clients (fst (run hm h))))|]; discriminate.
Qed.

Theorem nothing_after_disconnect hm h s pre post : NoDup (accepted h) -> ~ In s (gone h) ->
  proj s (snd (run hm h)) = pre ++ EDisconnect s :: post -> post = [].
Proof.
  intros ND NG E. pose proof (phase_not_bad hm h s ND NG) as NB. unfold phase_of in NB. rewrite E in NB.
  rewrite fold_left_app in NB. simpl in NB.
  destruct post as [|e post]; auto. exfalso. apply NB.
  destruct (fold_left astep pre PNone); simpl; try apply bad_absorbing;
    apply dead_then_bad; discriminate.
Qed.

Theorem connect_first hm h s e rest : NoDup (accepted h) -> ~ In s (gone h) ->
  proj s (snd (run hm h)) = e :: rest -> e = EConnect s.
Proof.
  intros ND NG E. pose proof (phase_not_bad hm h s ND NG) as NB. unfold phase_of in NB. rewrite E in NB.
  assert (S : ev_sock e = s).
  { assert (I : In e (proj s (snd (run hm h)))) by (rewrite E; simpl; auto).
    unfold proj in I. apply in_flat_map in I. destruct I as [o [_ I]]. destruct o; simpl in I; try contradiction.
    destruct (Nat.eqb_spec s (ev_sock e0)); simpl in I; [|contradiction]. destruct I as [<-|[]]. auto. }
  simpl in NB. destruct e; simpl in *; subst; auto; exfalso; apply NB, bad_absorbing.
Qed.

(* ------------------------------------------------------------------ isolation: a stimulus for t leaves s <> t alone *)
Section Frame.
Variables (s t : sock).
Hypothesis NE : s <> t.

Lemma mem_remove1_ne l : mem s (remove1 t l) = mem s l.
Proof. apply mem_ext. split; [apply In_remove1|apply In_remove1_neq; auto]. Qed.
Lemma mem_del_ne l : mem s (del t l) = mem s l.
Proof. apply mem_ext. rewrite In_del. tauto. Qed.
Lemma mem_add_ne l : mem s (add t l) = mem s l.
Proof. apply mem_ext. rewrite In_add. intuition congruence. Qed.
Lemma mem_snoc_ne l : mem s (l ++ [t]) = mem s l.
Proof. rewrite mem_snoc. apply Nat.eqb_neq in NE. rewrite NE. apply orb_false_r. Qed.

Local Transparent bset btouch bdel.
Lemma bget_bdel_ne b : bget s (bdel t b) = bget s b.
Proof.
  unfold bget, bdel. induction b as [|[k v] b IH]; simpl; auto.
  destruct (Nat.eqb_spec t k); simpl.
  - subst k. destruct (Nat.eqb_spec s t); [contradiction|]. auto.
  - destruct (Nat.eqb s k); auto.
Qed.
Lemma bhas_bdel_ne b : bhas s (bdel t b) = bhas s b.
Proof.
  unfold bhas, bdel. induction b as [|[k v] b IH]; simpl; auto.
  destruct (Nat.eqb_spec t k); simpl.
  - subst k. destruct (Nat.eqb_spec s t); [contradiction|]. auto.
  - rewrite IH. auto.
Qed.
Lemma bget_bset_ne v b : bget s (bset t v b) = bget s (bdel t b).
Proof. unfold bset, bget. simpl. destruct (Nat.eqb_spec s t); [contradiction|]. auto. Qed.
Lemma bhas_bset_ne v b : bhas s (bset t v b) = bhas s (bdel t b).
Proof. unfold bset, bhas. simpl. destruct (Nat.eqb_spec s t); [contradiction|]. auto. Qed.
Lemma bget_btouch_ne b : bget s (btouch t b) = bget s b.
Proof. unfold btouch. destruct (bhas t b); auto. unfold bget. simpl. destruct (Nat.eqb_spec s t); [contradiction|]. auto. Qed.
Lemma bhas_btouch_ne b : bhas s (btouch t b) = bhas s b.
Proof. unfold btouch. destruct (bhas t b); auto. unfold bhas. simpl. destruct (Nat.eqb_spec s t); [contradiction|]. auto. Qed.
Local Opaque bset btouch bdel.

Ltac rows :=
  unfold row_of; simpl;
  rewrite ?mem_remove1_ne, ?mem_del_ne, ?mem_add_ne, ?mem_snoc_ne, ?bget_bset_ne, ?bhas_bset_ne,
          ?bget_bdel_ne, ?bhas_bdel_ne, ?bget_btouch_ne, ?bhas_btouch_ne; auto.

Lemma row_upd hm x : row_of s (upd hm t x) = row_of s x.
Proof. unfold upd. destruct (mem t (rd x) || mem t (wr x)); destruct hm; rows. Qed.
Lemma row_addReader hm x : row_of s (addReader hm t x) = row_of s x.
Proof. unfold addReader. rewrite row_upd. rows. Qed.
Lemma row_addWriter hm x : row_of s (addWriter hm t x) = row_of s x.
Proof. unfold addWriter. rewrite row_upd. rows. Qed.
Lemma row_removeWriter hm x : row_of s (removeWriter hm t x) = row_of s x.
Proof. unfold removeWriter. rewrite row_upd. destruct (mem t (rd x) || mem t (remove1 t (wr x))); rows. Qed.
Lemma row_discard hm x : row_of s (discard hm t x) = row_of s x.
Proof. unfold discard. rewrite row_upd. rows. Qed.
Lemma row_pdrop x : row_of s (pdrop t x) = row_of s x.
Proof. unfold pdrop. rows. Qed.
Lemma row_touch x : row_of s (set_bufs (btouch t (bufs x)) x) = row_of s x.
Proof. rows. Qed.
Lemma row_bset v x : row_of s (set_bufs (bset t v (bufs x)) x) = row_of s x.
Proof. rows. Qed.
Lemma row_closeq_add x : row_of s (set_closeq (closeq x ++ [t]) x) = row_of s x.
Proof. rows. Qed.
Lemma row_closeq_rem x : row_of s (set_closeq (remove1 t (closeq x)) x) = row_of s x.
Proof. rows. Qed.

(* result r of a handler run for t: s's row is as in x, no event and no kernel call for s *)
Definition Frame (x : st) (r : st * list out) : Prop :=
  row_of s (fst r) = row_of s x /\ proj s (snd r) = [] /\ calls s (snd r) = [].

Lemma Frame_nil x x' : row_of s x' = row_of s x -> Frame x (x', []).
Proof. intros. repeat split; auto. Qed.
Lemma Frame_from x x1 r : row_of s x1 = row_of s x -> Frame x1 r -> Frame x r.
Proof. intros E (F1 & F2 & F3). repeat split; auto. congruence. Qed.
Lemma Frame_cons x x' o e : proj_of s e = [] -> call_of s e = [] -> Frame x (x', o) -> Frame x (x', e :: o).
Proof.
  intros P C (F1 & F2 & F3). repeat split; auto; simpl in *.
  - unfold proj in *. simpl. rewrite P. auto.
  - unfold calls in *. simpl. rewrite C. auto.
Qed.
Lemma Frame_app x x1 x2 o1 o2 : Frame x (x1, o1) -> Frame x1 (x2, o2) -> Frame x (x2, o1 ++ o2).
Proof.
  intros (F1 & F2 & F3) (G1 & G2 & G3). simpl in *. repeat split; simpl.
  - congruence.
  - rewrite proj_app, F2, G2. auto.
  - unfold calls in *. rewrite flat_map_app, F3, G3. auto.
Qed.

Lemma ne_eqb : Nat.eqb s t = false.
Proof. apply Nat.eqb_neq; auto. Qed.

Ltac ev_t := simpl; rewrite ?ne_eqb; auto.

Lemma do__close_frame hm x : Frame x (do__close hm t x).
Proof.
  unfold do__close. destruct (negb (mem t (clients x))). apply Frame_nil; auto.
  apply Frame_cons; [ev_t|ev_t|]. apply Frame_nil.
  pose proof (row_discard hm x) as R. unfold row_of in *. simpl.
  injection R as R1 R2 R3 R4 R5 R6 R7 R8.
  rewrite ?mem_remove1_ne, ?bget_bdel_ne, ?bhas_bdel_ne. congruence.
Qed.

Lemma do_close_frame hm x : Frame x (do_close hm t x).
Proof.
  unfold do_close. destruct (negb (mem t (clients x))). apply Frame_nil; auto.
  cbv zeta. destruct (isnil (bget t (bufs (set_bufs (btouch t (bufs x)) x)))).
  - eapply Frame_from; [apply row_touch|]. apply do__close_frame.
  - destruct (mem t (closeq (set_bufs (btouch t (bufs x)) x))); apply Frame_nil.
    + apply row_touch.
    + rewrite row_closeq_add. apply row_touch.
Qed.

Lemma on_read_frame hm r x : Frame x (on_read hm t r x).
Proof.
  unfold on_read. destruct (negb (mem t (clients x))). apply Frame_nil; auto.
  destruct r as [[|b d]| | |].
  - destruct (do_close hm t x) as [x' o] eqn:E. apply Frame_cons; [ev_t|ev_t|]. rewrite <- E. apply do_close_frame.
  - apply Frame_cons; [ev_t|ev_t|]. apply Frame_cons; [ev_t|ev_t|]. apply Frame_nil; auto.
  - destruct (do_close hm t x) as [x' o] eqn:E. apply Frame_cons; [ev_t|ev_t|]. rewrite <- E. apply do_close_frame.
  - apply Frame_cons; [ev_t|ev_t|]. apply Frame_nil; auto.
  - destruct (do__close hm t x) as [x' o] eqn:E. apply Frame_cons; [ev_t|ev_t|]. apply Frame_cons; [ev_t|ev_t|].
    rewrite <- E. apply do__close_frame.
Qed.

Lemma drained_frame hm x : Frame x (drained hm t x).
Proof.
  unfold drained. cbv zeta. set (x1 := set_bufs (btouch t (bufs x)) x).
  assert (R1 : row_of s x1 = row_of s x) by apply row_touch.
  destruct (isnil (bget t (bufs x1))).
  - destruct (mem t (closeq x1)).
    + eapply Frame_from; [|apply do__close_frame]. rewrite row_closeq_rem. auto.
    + destruct (mem t (wr x1)); apply Frame_nil; auto. rewrite row_removeWriter. auto.
  - apply Frame_nil; auto.
Qed.

Lemma on_writable_frame hm w x : Frame x (on_writable hm t w x).
Proof.
  unfold on_writable. destruct (negb (mem t (clients x))). apply Frame_nil; auto.
  cbv zeta. set (x0 := set_bufs (btouch t (bufs x)) x).
  assert (R0 : row_of s x0 = row_of s x) by apply row_touch.
  destruct (bget t (bufs x0)) as [|n rest].
  - eapply Frame_from; [exact R0|]. apply drained_frame.
  - set (x1 := set_bufs (bset t rest (bufs x0)) x0).
    assert (R1 : row_of s x1 = row_of s x) by (unfold x1; rewrite row_bset; auto).
    destruct w as [k| |].
    + set (x2 := if (k <? n)%N then set_bufs (bset t ((n - k)%N :: rest) (bufs x1)) x1 else x1).
      assert (R2 : row_of s x2 = row_of s x) by (unfold x2; destruct (k <? n)%N; auto; rewrite row_bset; auto).
      destruct (mem t (clients x2)).
      * destruct (drained hm t x2) as [x3 o3] eqn:D. apply Frame_cons; [ev_t|ev_t|]. simpl.
        eapply Frame_from; [exact R2|]. rewrite <- D. apply drained_frame.
      * apply Frame_cons; [ev_t|ev_t|]. apply Frame_nil; auto.
    + set (x2 := set_bufs (bset t (n :: rest) (bufs x1)) x1).
      assert (R2 : row_of s x2 = row_of s x) by (unfold x2; rewrite row_bset; auto).
      destruct (mem t (clients x2)).
      * destruct (drained hm t x2) as [x3 o3] eqn:D. apply Frame_cons; [ev_t|ev_t|]. simpl.
        eapply Frame_from; [exact R2|]. rewrite <- D. apply drained_frame.
      * apply Frame_cons; [ev_t|ev_t|]. apply Frame_nil; auto.
    + destruct (do__close hm t x1) as [x2 o2] eqn:C.
      assert (F2 : Frame x (x2, OEv (EError t) :: o2)).
      { apply Frame_cons; [ev_t|ev_t|]. eapply Frame_from; [exact R1|]. rewrite <- C. apply do__close_frame. }
      destruct (mem t (clients x2)).
      * destruct (drained hm t x2) as [x3 o3] eqn:D. apply Frame_cons; [ev_t|ev_t|].
        eapply Frame_app; [exact F2|]. rewrite <- D. apply drained_frame.
      * apply Frame_cons; [ev_t|ev_t|]. exact F2.
Qed.

Lemma on_write_req_frame hm n x : Frame x (on_write_req hm t n x).
Proof.
  unfold on_write_req. destruct (negb (mem t (clients x))). apply Frame_nil; auto.
  cbv zeta. apply Frame_nil. destruct (mem t (wr x)).
  - rewrite row_bset. auto.
  - rewrite row_bset. apply row_addWriter.
Qed.

Lemma on_accept_frame hm g x : Frame x (on_accept hm t g x).
Proof.
  unfold on_accept. cbv zeta.
  set (x2 := set_clients (clients (addReader hm t x) ++ [t]) (addReader hm t x)).
  assert (R2 : row_of s x2 = row_of s x).
  { pose proof (row_addReader hm x) as R. unfold row_of in *. simpl.
    injection R as R1 R2 R3 R4 R5 R6 R7 R8. rewrite mem_snoc_ne. congruence. }
  destruct g.
  - destruct (do__close hm t x2) as [x3 o] eqn:C. apply Frame_cons; [ev_t|ev_t|].
    eapply Frame_from; [exact R2|]. rewrite <- C. apply do__close_frame.
  - apply Frame_cons; [ev_t|ev_t|]. apply Frame_nil; auto.
Qed.
End Frame.

Lemma step_frame hm s x i : touches s i = false -> Frame s x (step hm x i).
Proof.
  intros T. destruct i; simpl in T; try discriminate;
    try (apply Nat.eqb_neq in T); cbn [step].
  - apply on_accept_frame; auto.
  - apply on_accept_frame; auto.
  - apply on_read_frame; auto.
  - apply on_writable_frame; auto.
  - apply Frame_nil. apply row_pdrop; auto.
  - apply do__close_frame; auto.
  - apply on_write_req_frame; auto.
  - apply do_close_frame; auto.
  - repeat split; auto.
Qed.

Theorem isolation hm s h : forall x acc, Forall (fun i => touches s i = false) h ->
  row_of s (fst (run_from hm x acc h)) = row_of s x /\
  proj s (snd (run_from hm x acc h)) = proj s acc /\
  calls s (snd (run_from hm x acc h)) = calls s acc.
Proof.
  induction h as [|i h IH]; intros x acc F; simpl; auto.
  inversion F as [|? ? Fi Fh]; subst.
  destruct (step hm x i) as [x' o] eqn:E.
  destruct (step_frame hm s x i Fi) as (F1 & F2 & F3). rewrite E in *. simpl in *.
  destruct (IH x' (acc ++ o) Fh) as (I1 & I2 & I3).
  rewrite I1, I2, I3, F1, proj_app, F2, app_nil_r. unfold calls. rewrite flat_map_app.
  fold (calls s o). rewrite F3, app_nil_r. auto.
Qed.

(* ------------------------------------------------------------------ liveness relative to the stimuli *)
Local Transparent bset btouch bdel.
Lemma bget_btouch_same s b : bget s (btouch s b) = bget s b.
Proof.
  unfold btouch. destruct (bhas s b) eqn:H; auto. unfold bget. simpl. rewrite Nat.eqb_refl. simpl.
  unfold bhas in H. destruct (find (fun p => Nat.eqb s (fst p)) b) eqn:F; auto.
  apply find_some in F. destruct F as [F1 F2].
  assert (existsb (fun p => Nat.eqb s (fst p)) b = true) by (apply existsb_exists; eauto). congruence.
Qed.
Lemma bget_bset_same s v b : bget s (bset s v b) = v.
Proof. unfold bset, bget. simpl. rewrite Nat.eqb_refl. auto. Qed.
Local Opaque bset btouch bdel.

Lemma wf_nostate s y : wf y -> ~ In s (clients y) -> no_state s y.
Proof. intros [_ _ _ _ Hsub] N. unfold no_state. repeat split; auto; intro Q; apply N, Hsub; unfold tabs; tauto. Qed.

Lemma close_now hm s y y' o : wf y -> In s (clients y) -> do__close hm s y = (y', o) ->
  o = [OEv (EDisconnect s)] /\ wf y' /\ ~ In s (clients y').
Proof.
  intros W I E. destruct (do__close_spec _ _ _ _ _ W E) as [(N & _)|(_ & W' & Ec & ->)]. contradiction.
  split; [reflexivity|split; [exact W'|]]. rewrite Ec. apply remove1_notin. destruct W; auto.
Qed.

Lemma do_close_now hm s y y' o : wf y -> In s (clients y) -> bget s (bufs y) = [] -> do_close hm s y = (y', o) ->
  o = [OEv (EDisconnect s)] /\ wf y' /\ ~ In s (clients y').
Proof.
  intros W I B E. unfold do_close in E. rewrite (mem_true _ _ I) in E. cbn [negb] in E. cbv zeta in E.
  cbn [bufs set_bufs] in E. rewrite bget_btouch_same, B in E. cbn [isnil] in E.
  eapply close_now; [| |exact E]. apply wf_touch; auto. auto.
Qed.

Lemma do_close_defers hm s y y' o : wf y -> In s (clients y) -> bget s (bufs y) <> [] -> do_close hm s y = (y', o) ->
  o = [] /\ wf y' /\ clients y' = clients y /\ In s (closeq y') /\ bget s (bufs y') = bget s (bufs y).
Proof.
  intros W I B E. unfold do_close in E. rewrite (mem_true _ _ I) in E. cbn [negb] in E. cbv zeta in E.
  cbn [bufs set_bufs closeq] in E. rewrite bget_btouch_same in E.
  destruct (bget s (bufs y)) as [|n r] eqn:G; [congruence|]. cbn [isnil] in E.
  pose proof (wf_touch s y W I) as W1.
  destruct (mem s (closeq y)) eqn:Q; injection E as <- <-; cbn [bufs set_bufs set_closeq closeq clients].
  - split; [reflexivity|split; [exact W1|split; [reflexivity|split]]].
    + apply mem_In; auto.
    + rewrite bget_btouch_same; auto.
  - split; [reflexivity|split; [|split; [reflexivity|split]]].
    + apply (wf_closeq_add s _ W1); auto. simpl. apply mem_nIn; auto.
    + apply in_or_app. simpl. auto.
    + rewrite bget_btouch_same; auto.
Qed.

Lemma drained_now hm s y : wf y -> In s (clients y) -> bget s (bufs y) = [] -> mem s (closeq y) = true ->
  exists y', drained hm s y = (y', [OEv (EDisconnect s)]) /\ wf y' /\ ~ In s (clients y').
Proof.
  intros W I B Q. unfold drained. cbv zeta. cbn [bufs set_bufs closeq]. rewrite bget_btouch_same, B. cbn [isnil].
  rewrite Q.
  destruct (do__close hm s (set_closeq (remove1 s (closeq y)) (set_bufs (btouch s (bufs y)) y))) as [y' o] eqn:E.
  assert (WY : wf (set_closeq (remove1 s (closeq y)) (set_bufs (btouch s (bufs y)) y))).
  { apply (wf_closeq_rem s (set_bufs (btouch s (bufs y)) y)). apply wf_touch; auto. }
  destruct (close_now hm s _ y' o WY I E) as (-> & W' & N). exists y'. auto.
Qed.

Theorem disconnect_follows_wf hm x s i : wf x -> In s (clients x) -> terminal s x i = true ->
  In (OEv (EDisconnect s)) (snd (step hm x i)) /\ no_state s (fst (step hm x i)).
Proof.
  intros W I T.
  assert (M : mem s (clients x) = true) by (apply mem_true; auto).
  destruct i as [t|t|t r|t w|t|t|t n|t| |]; simpl in T; try discriminate.
  - (* _read *)
    destruct r as [[|b d]| | |]; try discriminate.
    + apply andb_true_iff in T. destruct T as [T B]. apply Nat.eqb_eq in T. subst t.
      destruct (bget s (bufs x)) eqn:G; [|discriminate].
      cbn [step]. unfold on_read. rewrite M. cbn [negb].
      destruct (do_close hm s x) as [x' o] eqn:E.
      destruct (do_close_now hm s x x' o W I G E) as (-> & W' & N). simpl. split; auto. apply wf_nostate; auto.
    + apply andb_true_iff in T. destruct T as [T B]. apply Nat.eqb_eq in T. subst t.
      destruct (bget s (bufs x)) eqn:G; [|discriminate].
      cbn [step]. unfold on_read. rewrite M. cbn [negb].
      destruct (do_close hm s x) as [x' o] eqn:E.
      destruct (do_close_now hm s x x' o W I G E) as (-> & W' & N). simpl. split; auto. apply wf_nostate; auto.
    + apply Nat.eqb_eq in T. subst t. cbn [step]. unfold on_read. rewrite M. cbn [negb].
      destruct (do__close hm s x) as [x' o] eqn:E.
      destruct (close_now hm s x x' o W I E) as (-> & W' & N). simpl. split; auto. apply wf_nostate; auto.
  - (* _write *)
    pose proof (wf_touch s x W I) as W0.
    destruct w as [k| |]; try discriminate.
    + apply andb_true_iff in T. destruct T as [T B]. apply andb_true_iff in T. destruct T as [T Q].
      apply Nat.eqb_eq in T. subst t.
      destruct (bget s (bufs x)) as [|n [|n2 r]] eqn:G; try discriminate.
      apply negb_true_iff in B.
      cbn [step]. unfold on_writable. rewrite M. cbn [negb]. cbv zeta.
      cbn [bufs set_bufs clients]. rewrite bget_btouch_same, G, B. cbn [clients set_bufs]. rewrite M.
      destruct (drained_now hm s (set_bufs (bset s [] (btouch s (bufs x))) (set_bufs (btouch s (bufs x)) x)))
        as (y' & D & W' & N); auto.
      { apply (wf_bset s [] _ W0); auto. }
      { cbn [bufs set_bufs]. apply bget_bset_same. }
      rewrite D. simpl. split; auto. apply wf_nostate; auto.
    + apply andb_true_iff in T. destruct T as [T B]. apply Nat.eqb_eq in T. subst t.
      destruct (bget s (bufs x)) as [|n r] eqn:G; [discriminate|].
      cbn [step]. unfold on_writable. rewrite M. cbn [negb]. cbv zeta.
      cbn [bufs set_bufs]. rewrite bget_btouch_same, G.
      match goal with |- context [do__close hm s ?y] => destruct (do__close hm s y) as [x' o] eqn:E;
        assert (WY : wf y) by (apply (wf_bset s r _ W0); auto) end.
      destruct (close_now hm s _ x' o WY I E) as (-> & W' & N).
      rewrite (mem_false _ _ N). simpl. split; auto. apply wf_nostate; auto.
  - (* _disconnect *)
    apply Nat.eqb_eq in T. subst t. cbn [step].
    destruct (do__close hm s x) as [x' o] eqn:E.
    destruct (close_now hm s x x' o W I E) as (-> & W' & N). simpl. split; auto. apply wf_nostate; auto.
  - (* close(s) *)
    apply andb_true_iff in T. destruct T as [T B]. apply Nat.eqb_eq in T. subst t.
    destruct (bget s (bufs x)) eqn:G; [|discriminate]. cbn [step].
    destruct (do_close hm s x) as [x' o] eqn:E.
    destruct (do_close_now hm s x x' o W I G E) as (-> & W' & N). simpl. split; auto. apply wf_nostate; auto.
Qed.

Theorem disconnect_follows hm h s i : NoDup (accepted h) ->
  In s (clients (fst (run hm h))) -> terminal s (fst (run hm h)) i = true ->
  In (OEv (EDisconnect s)) (snd (step hm (fst (run hm h)) i)) /\ no_state s (fst (step hm (fst (run hm h)) i)).
Proof. intros ND. apply disconnect_follows_wf. apply (I_wf _ _ _ _ (Inv_run hm h ND)). Qed.

(* EOF / close(s) with output still buffered: the close is queued; the flush of the last payload is terminal *)
Theorem deferred_close hm h s i : NoDup (accepted h) ->
  In s (clients (fst (run hm h))) -> deferring s (fst (run hm h)) i = true ->
  In s (closeq (fst (step hm (fst (run hm h)) i))) /\ In s (clients (fst (step hm (fst (run hm h)) i))) /\
  bget s (bufs (fst (step hm (fst (run hm h)) i))) = bget s (bufs (fst (run hm h))).
Proof.
  intros ND I T. pose proof (I_wf _ _ _ _ (Inv_run hm h ND)) as W. set (x := fst (run hm h)) in *.
  assert (M : mem s (clients x) = true) by (apply mem_true; auto).
  assert (D : forall t, Nat.eqb s t && negb (isnil (bget s (bufs x))) = true ->
              t = s /\ bget s (bufs x) <> []).
  { intros t Q. apply andb_true_iff in Q. destruct Q as [Q1 Q2]. apply Nat.eqb_eq in Q1. split; auto.
    destruct (bget s (bufs x)); [discriminate|congruence]. }
  destruct i as [t|t|t r|t w|t|t|t n|t| |]; simpl in T; try discriminate.
  - destruct r as [[|b d]| | |]; try discriminate; destruct (D t T) as [-> B];
      cbn [step]; unfold on_read; rewrite M; cbn [negb];
      destruct (do_close hm s x) as [x' o] eqn:E;
      destruct (do_close_defers hm s x x' o W I B E) as (-> & W' & Ec & Q & G); simpl; rewrite Ec; auto.
  - destruct (D t T) as [-> B]. cbn [step].
    destruct (do_close hm s x) as [x' o] eqn:E.
    destruct (do_close_defers hm s x x' o W I B E) as (-> & W' & Ec & Q & G); simpl; rewrite Ec; auto.
Qed.

(* ------------------------------------------------------------------ close(): the whole server *)
Definition cfold hm := fun (a : st * list out) (s : sock) =>
  let '(y, o) := a in let '(y', o') := do_close hm s y in (y', o ++ o').

Lemma lis_upd hm t x : lis (upd hm t x) = lis x.
Proof. unfold upd. destruct (mem t (rd x) || mem t (wr x)); auto. Qed.
Lemma lis_do__close hm t y : lis (fst (do__close hm t y)) = lis y.
Proof. unfold do__close. destruct (negb (mem t (clients y))); simpl; auto. unfold discard. rewrite lis_upd. auto. Qed.
Lemma lis_do_close hm t y : lis (fst (do_close hm t y)) = lis y.
Proof.
  unfold do_close. destruct (negb (mem t (clients y))); simpl; auto.
  destruct (isnil (bget t (btouch t (bufs y)))).
  - rewrite lis_do__close. auto.
  - destruct (mem t (closeq y)); auto.
Qed.

Lemma cfold_lis hm l : forall y oy, lis (fst (fold_left (cfold hm) l (y, oy))) = lis y.
Proof.
  induction l as [|a l IH]; intros y oy; simpl; auto.
  destruct (do_close hm a y) as [y' o'] eqn:E. rewrite IH.
  pose proof (lis_do_close hm a y) as L. rewrite E in L. auto.
Qed.
Lemma cfold_wf hm l : forall y oy, wf y -> wf (fst (fold_left (cfold hm) l (y, oy))).
Proof.
  induction l as [|a l IH]; intros y oy W; simpl; auto.
  destruct (do_close hm a y) as [y' o'] eqn:E. apply IH.
  destruct (do_close_eff hm a y y' o' W E); auto.
Qed.
Lemma cfold_out_mono hm l : forall y oy e, In e oy -> In e (snd (fold_left (cfold hm) l (y, oy))).
Proof.
  induction l as [|a l IH]; intros y oy e I; simpl; auto.
  destruct (do_close hm a y) as [y' o'] eqn:E. apply IH. apply in_or_app; auto.
Qed.
Lemma cfold_frame hm s l : ~ In s l -> forall y oy,
  row_of s (fst (fold_left (cfold hm) l (y, oy))) = row_of s y.
Proof.
  induction l as [|a l IH]; intros N y oy; simpl; auto.
  destruct (do_close hm a y) as [y' o'] eqn:E.
  rewrite IH. 2:{ intro; apply N; simpl; auto. }
  assert (NE : s <> a) by (intro; subst; apply N; simpl; auto).
  destruct (do_close_frame s a NE hm y) as (F1 & _). rewrite E in F1. auto.
Qed.

Lemma row_client s x y : row_of s x = row_of s y -> (In s (clients x) <-> In s (clients y)).
Proof. unfold row_of. intros E. injection E as E1 _. rewrite <- !mem_In. rewrite E1. tauto. Qed.
Lemma row_closeq s x y : row_of s x = row_of s y -> (In s (closeq x) <-> In s (closeq y)).
Proof. unfold row_of. intros E. injection E as _ _ _ E4 _. rewrite <- !mem_In. rewrite E4. tauto. Qed.
Lemma row_buf s x y : row_of s x = row_of s y -> bget s (bufs x) = bget s (bufs y).
Proof. unfold row_of. intros E. injection E as _ E2 _. auto. Qed.

Lemma cfold_member hm s l : NoDup l -> In s l -> forall y oy, wf y -> In s (clients y) ->
  let r := fold_left (cfold hm) l (y, oy) in
  (bget s (bufs y) = [] -> In (OEv (EDisconnect s)) (snd r) /\ ~ In s (clients (fst r))) /\
  (bget s (bufs y) <> [] -> In s (clients (fst r)) /\ In s (closeq (fst r))).
Proof.
  intros ND I y oy W C.
  destruct (in_split _ _ I) as (l1 & l2 & ->).
  assert (N1 : ~ In s l1 /\ ~ In s l2).
  { apply NoDup_remove_2 in ND. split; intro Q; apply ND; apply in_or_app; auto. }
  destruct N1 as [N1 N2].
  cbv zeta. rewrite fold_left_app.
  destruct (fold_left (cfold hm) l1 (y, oy)) as [y1 o1] eqn:F1.
  pose proof (cfold_frame hm s l1 N1 y oy) as R1. rewrite F1 in R1. simpl in R1.
  pose proof (cfold_wf hm l1 y oy W) as W1. rewrite F1 in W1. simpl in W1.
  assert (C1 : In s (clients y1)) by (apply (row_client s y1 y R1); auto).
  simpl. destruct (do_close hm s y1) as [y2 o2] eqn:E.
  pose proof (cfold_frame hm s l2 N2 y2 (o1 ++ o2)) as R2.
  split; intros B; rewrite <- (row_buf s y1 y R1) in B.
  - destruct (do_close_now hm s y1 y2 o2 W1 C1 B E) as (-> & W2 & N). split.
    + apply cfold_out_mono. apply in_or_app. simpl. auto.
    + intro Q. apply N. apply (row_client s _ y2 R2). auto.
  - destruct (do_close_defers hm s y1 y2 o2 W1 C1 B E) as (-> & W2 & Ec & Q & _). split.
    + apply (row_client s _ y2 R2). rewrite Ec. auto.
    + apply (row_closeq s _ y2 R2). auto.
Qed.

Theorem close_all_spec hm h : NoDup (accepted h) ->
  let x := fst (run hm h) in
  let r := step hm x SCloseAll in
  lis (fst r) = false /\
  (forall s, In s (clients x) -> bget s (bufs x) = [] ->
             In (OEv (EDisconnect s)) (snd r) /\ no_state s (fst r)) /\
  (forall s, In s (clients x) -> bget s (bufs x) <> [] -> In s (clients (fst r)) /\ In s (closeq (fst r))) /\
  (forall s, In s (clients (fst r)) -> In s (clients x)) /\
  In (OSrv VClosed) (snd r) /\ (In (OSrv VListenDown) (snd r) <-> lis x = true).
Proof.
  intros ND x r. pose proof (I_wf _ _ _ _ (Inv_run hm h ND)) as W. fold x in W.
  assert (W0 : wf (set_lis false x)) by (destruct W; constructor; auto).
  assert (NC : NoDup (clients x)) by (destruct W; auto).
  unfold r. cbn [step]. unfold close_all, close_each. fold (cfold hm).
  destruct (fold_left (cfold hm) (clients x) (set_lis false x, [])) as [x2 o2] eqn:F. simpl.
  pose proof (cfold_lis hm (clients x) (set_lis false x) []) as L. rewrite F in L. simpl in L.
  pose proof (cfold_wf hm (clients x) (set_lis false x) [] W0) as W2. rewrite F in W2. simpl in W2.
  split; [exact L|]. split; [|split; [|split; [|split]]].
  - intros s C B. pose proof (cfold_member hm s (clients x) NC C (set_lis false x) [] W0 C) as M.
    cbv zeta in M. rewrite F in M. simpl in M. destruct M as [M _]. destruct (M B) as [M1 M2]. split.
    + apply in_or_app. right. apply in_or_app. auto.
    + apply wf_nostate; auto.
  - intros s C B. pose proof (cfold_member hm s (clients x) NC C (set_lis false x) [] W0 C) as M.
    cbv zeta in M. rewrite F in M. simpl in M. destruct M as [_ M]. apply M. auto.
  - intros s C2. destruct (in_dec Nat.eq_dec s (clients x)) as [I|N]; auto. exfalso.
    pose proof (cfold_frame hm s (clients x) N (set_lis false x) []) as R. rewrite F in R. simpl in R.
    apply N. apply (row_client s x2 (set_lis false x) R) in C2. exact C2.
  - apply in_or_app. right. apply in_or_app. right. simpl. auto.
  - split.
    + intros Q. apply in_app_or in Q. destruct Q as [Q|Q].
      * destruct (lis x); auto; contradiction.
      * exfalso. apply in_app_or in Q. destruct Q as [Q|[Q|[]]]; [|discriminate].
        (* do_close only emits socket events *)
        assert (S : forall l y oy, (forall e, In e oy -> e <> OSrv VListenDown) ->
                    forall e, In e (snd (fold_left (cfold hm) l (y, oy))) -> e <> OSrv VListenDown).
        { clear. induction l as [|a l IH]; intros y oy H e I; simpl in *; auto.
          destruct (do_close hm a y) as [y' o'] eqn:E. apply (IH y' (oy ++ o')); auto.
          intros e' I'. apply in_app_or in I'. destruct I' as [I'|I']; auto.
          unfold do_close in E. destruct (negb (mem a (clients y))); [injection E as <- <-; contradiction|].
          cbv zeta in E. destruct (isnil _).
          - unfold do__close in E. destruct (negb _); injection E as <- <-; simpl in I'; [contradiction|].
            destruct I' as [<-|[]]. discriminate.
          - destruct (mem _ _); injection E as <- <-; contradiction. }
        apply (S (clients x) (set_lis false x) [] (fun e I => match I with end) (OSrv VListenDown)); auto.
        rewrite F. exact Q.
    + intros ->. simpl. auto.
Qed.

(* ------------------------------------------------------------------ a hang-up reported together with readable input *)
Lemma run_from_acc hm h : forall x acc, run_from hm x acc h = (fst (run_from hm x [] h), acc ++ snd (run_from hm x [] h)).
Proof.
  induction h as [|i h IH]; intros x acc; simpl. rewrite app_nil_r; auto.
  destruct (step hm x i) as [x' o]. rewrite (IH x' (acc ++ o)), (IH x' o). simpl. rewrite app_assoc. auto.
Qed.

Lemma pemit_no_hangup s eout ehup r w : forallb (fun i => negb (is_hangup_stim i)) (pemit s true eout ehup r w) = true.
Proof. unfold pemit. rewrite andb_false_r. destruct eout; reflexivity. Qed.

Theorem hangup_after_reads hm h s eout ehup d w : NoDup (accepted h) ->
  In s (clients (fst (run hm h))) -> d <> [] ->
  forallb (fun i => negb (is_hangup_stim i)) (pemit s true eout ehup (RData d) w) = true /\
  exists post, snd (run_from hm (fst (run hm h)) [] (pemit s true eout ehup (RData d) w))
               = OCall (CRecv s (RData d)) :: OEv (ERead s d) :: post.
Proof.
  intros ND I D. split. apply pemit_no_hangup.
  unfold pemit. rewrite andb_false_r. cbn [app run_from step].
  unfold on_read. rewrite (mem_true _ _ I). cbn [negb].
  destruct d as [|b d]; [congruence|].
  rewrite run_from_acc. simpl. eexists. reflexivity.
Qed.
