(* C03 — the inductive invariant of the wake-up protocol model (Model/Wake.v) and its preservation. *)
From Coq Require Import List Arith Bool Lia.
From Circ Require Import Model.Wake.
Import ListNotations.

Lemma run_app : forall tr1 tr2 s,
  run s (tr1 ++ tr2) = match run s tr1 with Some s' => run s' tr2 | None => None end.
Proof.
  induction tr1 as [|a tr1 IH]; intros tr2 s; simpl; [reflexivity|].
  destruct (step s a); [apply IH|reflexivity].
Qed.

Definition reachable (m : mode) (s : state) : Prop := exists tr, run (init m) tr = Some s.

Lemma reachable_ind' (m : mode) (P : state -> Prop) :
  P (init m) -> (forall s a s', P s -> step s a = Some s' -> P s') ->
  forall s, reachable m s -> P s.
Proof.
  intros H0 Hs s [tr Htr]. revert s Htr.
  induction tr as [|a tr IH] using rev_ind; intros s Htr.
  - simpl in Htr. inversion Htr. subst. exact H0.
  - rewrite run_app in Htr. destruct (run (init m) tr) as [s0|] eqn:E; [|discriminate].
    simpl in Htr. destruct (step s0 a) as [s1|] eqn:E1; [|discriminate].
    inversion Htr; subst. eapply Hs; [apply IH; reflexivity | exact E1].
Qed.

(* ------------------------------------------------------------------ unfolding and step inversion *)
Ltac unf :=
  unfold set_fp, set_gtl, set_ghd, after_event, signal in *;
  unfold set_watched, set_dq, set_hp, set_ctr, set_batch, set_handling, set_gs, set_ngen, set_nother, set_cur,
         set_lock, set_flag, set_pipe, set_lp, set_fts, set_disp in *.

Ltac break_match H :=
  repeat match type of H with
         | context [match ?x with _ => _ end] =>
             match x with
             | context [match _ with _ => _ end] => fail 1
             | _ => destruct x eqn:?; try discriminate H
             end
         end.

Ltac inv_some H := injection H as H; subst.

(* all ways the loop thread / a firing thread can move *)
Ltac lstep_cases H :=
  unfold lstep, red_step, acquire, release in H;
  break_match H; inv_some H.

Ltac fstep_cases H :=
  unfold fstep, red_step, acquire, release in H;
  break_match H; inv_some H.

(* ------------------------------------------------------------------ the lock *)
Definition rheld (r : rpc) : nat := match r with RAcq => 0 | _ => 1 end.
Definition lheld (p : lpc) : nat :=
  match p with
  | LGSet _ | LGTest | LGRel | WTest | WClear | WRel => 1
  | LGRed r => 1 + rheld r
  | LTimer r | WAfter r => rheld r
  | _ => 0
  end.
Definition fheld (p : fpc) : nat :=
  match p with
  | FRead | FCnt _ | FApp _ | FRel => 1
  | FRed _ r => 1 + rheld r
  | _ => 0
  end.
Definition held (s : state) (t : nat) : nat :=
  match t with O => lheld (lp s) | S i => fheld (fp (fts s i)) end.
Definition lockd (s : state) (t : nat) : nat :=
  match lock s with Some (o, d) => if Nat.eqb t o then S d else 0 | None => 0 end.

Definition I0 (s : state) : Prop := forall t, held s t = lockd s t.

Lemma I0_init m : I0 (init m).
Proof. intros [|t]; reflexivity. Qed.

Ltac eqb_all :=
  repeat match goal with
         | H : Nat.eqb _ _ = true |- _ => apply Nat.eqb_eq in H; subst
         | H : Nat.eqb _ _ = false |- _ => apply Nat.eqb_neq in H
         end.

Ltac prj := cbn [md pk watched dq hp ctr batch handling gs ngen nother cur lock flag pipe lp fts disp] in *.

Ltac rw_pc :=
  repeat match goal with
         | H : lp ?s = _ |- _ => progress (rewrite H in * )
         | H : lock ?s = _ |- _ => rewrite H in *; clear H
         | H : fp (fts ?s ?i) = _ |- _ => rewrite H in *; clear H
         end.

Ltac split_eqb :=
  repeat match goal with
         | |- context [Nat.eqb ?a ?b] => destruct (Nat.eqb_spec a b); subst; simpl
         | H : context [Nat.eqb ?a ?b] |- _ => destruct (Nat.eqb_spec a b); subst; simpl in H
         end.

Ltac break_goal :=
  repeat match goal with |- context [match ?x with _ => _ end] =>
           match x with context [match _ with _ => _ end] => fail 1 | _ => destruct x eqn:?; simpl end end.

Ltac fin := try lia; try congruence; split_eqb; try lia; try congruence; break_goal; try lia; try congruence.

Lemma I0_lstep a s s' : I0 s -> lstep a s = Some s' -> I0 s'.
Proof.
  intros HI H.
  lstep_cases H; intros tq; pose proof (HI tq) as Ht; pose proof (HI 0) as H00;
    unfold held, lockd in *; simpl; rw_pc; eqb_all; destruct tq; simpl in *;
    repeat match goal with H : context [match ?b with RAcq => _ | _ => _ end] |- _ => destruct b; simpl in H end;
    fin.
Qed.

Lemma I0_fstep i a s s' : I0 s -> fstep i a s = Some s' -> I0 s'.
Proof.
  intros HI H.
  fstep_cases H; intros tq; pose proof (HI tq) as Ht; pose proof (HI (S i)) as H00;
    unfold held, lockd in *; simpl; unfold upd; rw_pc; eqb_all; destruct tq; simpl in *;
    repeat match goal with H : context [match ?b with RAcq => _ | _ => _ end] |- _ => destruct b; simpl in H end;
    fin.
Qed.

Lemma I0_step s ta s' : I0 s -> step s ta = Some s' -> I0 s'.
Proof.
  destruct ta as [[|i] a]; simpl; [apply I0_lstep | apply I0_fstep].
Qed.

(* ------------------------------------------------------------------ regions of the loop thread *)
Definition in_G (p : lpc) : bool :=
  match p with
  | LGTest | LGRed _ | LGRel | LH | LTimer _ | WAcq | WTest | WClear | WRel | WTestPos | WRdTl | WWaitT _
  | WAfter _ | WTestNeg | WWaitU | PRead | PSel _ | PDrain | LClr => true
  | _ => false
  end.
Definition armed (p : lpc) : bool := match p with LGTest | LGRed _ => false | _ => in_G p end.
Definition is_w (p : lpc) : bool :=
  match p with
  | WAcq | WTest | WClear | WRel | WTestPos | WRdTl | WWaitT _ | WAfter _ | WTestNeg | WWaitU => true
  | _ => false
  end.
Definition is_p (p : lpc) : bool := match p with PRead | PSel _ | PDrain => true | _ => false end.
Definition wpre (p : lpc) : bool := match p with WRel | WTestPos | WRdTl | WTestNeg => true | _ => false end.
Definition bl (p : lpc) : bool := match p with WWaitT Pos | WWaitU | PSel Neg | PSel Pos => true | _ => false end.
Definition signalled (s : state) : bool :=
  match md s with Fallback => flag s | Poller => watched s && (0 <? pipe s) end.
Definition tlc (s : state) : tl := gtl (gs s (cur s)).

Definition fg (p : fpc) : option (option nat) :=
  match p with FCnt h | FApp h => Some h | FRed g _ => Some (Some g) | _ => None end.
Definition fl_pre (p : fpc) : bool := match p with FRed _ (RAcq | RTest | RWrite) => true | _ => false end.
Definition fl_post (p : fpc) : bool := match p with FRed _ (RHd | RGet | RSig) => true | _ => false end.

Definition inflight (s : state) (i k : nat) : Prop :=
  S k = fapp (fts s i) /\
  match fp (fts s i) with
  | FRed _ (RAcq | RTest) => tlc s <> Zero
  | FRed _ (RWrite | RHd | RGet | RSig) => True
  | _ => False
  end.

Record Inv (s : state) : Prop := {
  i0 : I0 s;
  ih : in_G (lp s) = true -> handling s = Some (Some (cur s));
  ih2 : forall g, handling s = Some (Some g) -> g = cur s;
  if1 : forall i g, fg (fp (fts s i)) = Some (Some g) -> g = cur s;
  if2 : forall i, fg (fp (fts s i)) = Some None -> in_G (lp s) = false;
  ir : forall i, fapp (fts s i) =
                 fret (fts s i) + match fp (fts s i) with FRed _ _ | FRel | FRet => 1 | _ => 0 end;
  imd : (is_w (lp s) = true -> md s = Fallback) /\ (is_p (lp s) = true -> md s = Poller);
  ihd : is_w (lp s) || is_p (lp s) = true -> ghd (gs s (cur s)) = HWake;
  ia : match lp s with
       | LGRed r | WAfter r => match r with RHd | RGet | RSig | RRel => tlc s = Zero | _ => True end
       | LTimer RWrite => tlc s = Neg
       | _ => True
       end;
  j1 : armed (lp s) = true -> forall i k, In (EvF i k) (pending s) ->
       tlc s = Zero \/ (S k = fapp (fts s i) /\ fl_pre (fp (fts s i)) = true);
  j2 : signalled s = false -> (bl (lp s) = true \/ (wpre (lp s) = true /\ tlc s <> Zero)) ->
       forall i k, In (EvF i k) (pending s) -> inflight s i k;
  j3 : signalled s = false -> bl (lp s) = true -> tlc s = Zero ->
       exists i, fl_post (fp (fts s i)) = true;
  iw : pk s = true /\ watched s = true
}.

Lemma Inv_init m : Inv (init m).
Proof.
  constructor; simpl; try discriminate; try (intros; discriminate); try (apply I0_init); auto.
  - split; discriminate.
  - intros _ [H|[H _]]; discriminate.
Qed.

Ltac prep :=
  simpl; unfold inflight in *; unfold tlc, signalled, pending in *; simpl;
  repeat match goal with
         | Hw : watched ?s = true |- _ => rewrite ?Hw in *; clear Hw
         | Hk : pk ?s = true |- _ => rewrite ?Hk in *; clear Hk
         end; simpl; rw_pc; eqb_all;
  unfold upd in *; rewrite ?Nat.eqb_refl in *; simpl in *;
  repeat match goal with
         | H : context [match batch ?s with _ => _ end] |- _ => destruct (batch s); simpl in H
         | |- context [match batch ?s with _ => _ end] => destruct (batch s); simpl
         end.

Ltac gen :=
  intros; simpl in *; try discriminate; try congruence; eauto; try tauto; try (intuition congruence);
  try (break_goal; simpl in *; try discriminate; try congruence; eauto; try tauto; intuition congruence).

Lemma excl_l s i : I0 s -> 0 < lheld (lp s) -> fheld (fp (fts s i)) = 0.
Proof.
  intros H0 Hl. pose proof (H0 0) as A. pose proof (H0 (S i)) as B. unfold held, lockd in *.
  destruct (lock s) as [[o d]|]; [|lia]. destruct o; simpl in *; [lia|lia].
Qed.

Lemma excl_f s i j : I0 s -> 0 < fheld (fp (fts s i)) -> i <> j -> fheld (fp (fts s j)) = 0.
Proof.
  intros H0 Hl Hn. pose proof (H0 (S i)) as A. pose proof (H0 (S j)) as B. unfold held, lockd in *.
  destruct (lock s) as [[o d]|]; [|lia]. simpl in *.
  destruct o; [lia|]. destruct (Nat.eqb_spec i o); destruct (Nat.eqb_spec j o); subst; try lia.
Qed.

Lemma excl_fl s i : I0 s -> 0 < fheld (fp (fts s i)) -> lheld (lp s) = 0.
Proof.
  intros H0 Hl. pose proof (H0 0) as A. pose proof (H0 (S i)) as B. unfold held, lockd in *.
  destruct (lock s) as [[o d]|]; [|lia]. destruct o; simpl in *; [lia|lia].
Qed.

Lemma must_write_zero x : must_write x Zero = false -> x = Zero.
Proof. destruct x; simpl; congruence. Qed.
Lemma must_write_pos x : must_write x Pos = true -> x = Neg.
Proof. destruct x; simpl; congruence. Qed.

Lemma in_pending_nil s e : length (dq s) + length (hp s) = 0 -> ~ In e (map snd (hp s) ++ map snd (dq s)).
Proof.
  intros H. destruct (dq s); destruct (hp s); simpl in *; try lia; tauto.
Qed.

(* the loop holds the lock: no firing thread is inside its critical section *)
Ltac use_excl_l I :=
  match goal with
  | Hlp : lp ?s = _ |- _ =>
      repeat match goal with
             | _ : context [fp (fts s ?i)] |- _ =>
                 lazymatch goal with
                 | _ : fheld (fp (fts s i)) = 0 |- _ => fail
                 | _ => idtac
                 end;
                 let E := fresh "E" in
                 pose proof (excl_l s i I) as E; rewrite Hlp in E; simpl in E; specialize (E ltac:(lia))
             end
  end.

Ltac case_fp :=
  repeat match goal with
         | H : context [fp (fts ?s ?i)] |- _ =>
             is_var i; destruct (fp (fts s i)) as [| | | |? []| |]; simpl in *;
             try discriminate; try lia; try tauto
         end.

Ltac case_tl :=
  try match goal with
      | |- context [gtl (gs ?s (cur ?s))] => destruct (gtl (gs s (cur s))); simpl in *
      | H : context [gtl (gs ?s (cur ?s))] |- _ => destruct (gtl (gs s (cur s))); simpl in *
      end.

Ltac use_j1 :=
  match goal with
  | J : (true = true -> forall i k, In (EvF i k) _ -> _), HIn : In (EvF ?i ?k) _ |- _ =>
      pose proof (J eq_refl i k HIn)
  end.
Ltac use_j2 :=
  match goal with
  | J : (?sg = false -> _ \/ _ -> forall i k, In (EvF i k) _ -> _), Hs : ?sg = false, HIn : In (EvF ?i ?k) _ |- _ =>
      first [ pose proof (J Hs (or_introl eq_refl) i k HIn)
            | pose proof (J Hs (or_intror (conj eq_refl ltac:(congruence))) i k HIn) ]
  end.

Lemma Inv_lstep a s s' : Inv s -> lstep a s = Some s' -> Inv s'.
Proof.
  intros HI H. pose proof (I0_lstep _ _ _ (i0 _ HI) H) as i0'.
  destruct HI as [i0 ih ih2 if1 if2 ir imd ihd ia j1 j2 j3 [iwk iww]].
  lstep_cases H; (constructor; [exact i0' | clear i0' ..]); prep; gen.
  all: clear ir ih ih2 imd ihd.
  all: try (apply must_write_zero; assumption).
  all: try (apply must_write_pos; assumption).
  all: try (exfalso; use_excl_l i0; case_fp; fail).
  all: try (exfalso; apply orb_false_elim in Heqb; destruct Heqb as [_ Hq]; apply Nat.ltb_ge in Hq;
            eapply in_pending_nil; [|eassumption]; lia).
  all: case_tl; try discriminate; try tauto; try congruence.
  all: try use_j1; try use_j2; clear j1 j2.
  all: try discriminate; try tauto; try congruence.
  all: repeat match goal with H : _ \/ _ |- _ => destruct H as [H|H]; try discriminate H end.
  all: try (exfalso; use_excl_l i0; case_fp; fail).
  all: try (intuition (try congruence); case_fp; intuition congruence).
Qed.

Ltac spec_i :=
  repeat match goal with
         | H : forall i : nat, _ |- _ =>
             match goal with j : nat |- _ => 
               lazymatch type of H with
               | forall i g, _ => fail
               | forall i k, _ => fail
               | _ => idtac end;
               pose proof (H j); fail 1 end
         end.

Lemma sig_true s : watched s = true -> signalled (signal s) = true.
Proof. intros H. unfold signalled, signal; simpl. rewrite H. destruct (md s); reflexivity. Qed.

Lemma in_snoc {A} (x y : A) l : In x (l ++ [y]) -> In x l \/ x = y.
Proof. intros H. apply in_app_or in H. destruct H as [H|[H|[]]]; auto. Qed.

Lemma pend_snoc s i k c e :
  In (EvF i k) (map snd (hp s) ++ map snd (dq s ++ [(c, e)])) ->
  In (EvF i k) (map snd (hp s) ++ map snd (dq s)) \/ EvF i k = e.
Proof.
  rewrite map_app, app_assoc. simpl. intros H. apply in_snoc in H. tauto.
Qed.

Lemma region_in_G p : bl p = true \/ wpre p = true -> in_G p = true.
Proof. destruct p; simpl; try tauto; try (intros [H|H]; discriminate). Qed.
Lemma region_wp p : bl p = true \/ wpre p = true -> is_w p || is_p p = true.
Proof. destruct p; simpl; try tauto; try (intros [H|H]; discriminate). Qed.
Lemma armed_in_G p : armed p = true -> in_G p = true.
Proof. destruct p; simpl; congruence. Qed.

(* the firing thread i0 holds the lock: no other firing thread is inside its critical section *)
Ltac use_excl_f I i0 :=
  match goal with
  | Hfp : fp (fts ?s i0) = _ |- _ =>
      repeat match goal with
             | Hn : ?i <> i0 |- _ =>
                 lazymatch goal with
                 | _ : fheld (fp (fts s i)) = 0 |- _ => fail
                 | _ => idtac
                 end;
                 let E := fresh "E" in
                 pose proof (excl_f s i0 i I) as E; rewrite Hfp in E; simpl in E;
                 specialize (E ltac:(lia) ltac:(congruence))
             end
  end.

Lemma fl_post_held p : fl_post p = true -> 0 < fheld p.
Proof. destruct p as [| | | |? []| |]; simpl; intros; try discriminate; lia. Qed.
Lemma fl_pre_held p : fl_pre p = true -> 0 < fheld p.
Proof. destruct p as [| | | |? []| |]; simpl; intros; try discriminate; lia. Qed.

Definition infl_pc (p : fpc) : bool :=
  match p with FRed _ (RAcq | RTest | RWrite | RHd | RGet | RSig) => true | _ => false end.
Lemma infl_held p : infl_pc p = true -> 0 < fheld p.
Proof. destruct p as [| | | |? []| |]; simpl; intros; try discriminate; lia. Qed.

(* thread i0 is inside its critical section but not about to signal: in a blocked state time_left is not 0 *)
Lemma holder_nonzero (P : Prop) s i0 :
  I0 s ->
  (P -> bl (lp s) = true -> tlc s = Zero -> exists i, fl_post (fp (fts s i)) = true) ->
  P -> bl (lp s) = true ->
  0 < fheld (fp (fts s i0)) -> fl_post (fp (fts s i0)) = false -> tlc s <> Zero.
Proof.
  intros HI J3 Hs Hb Hh Hp Hz. destruct (J3 Hs Hb Hz) as [w Hw].
  destruct (Nat.eq_dec w i0) as [->|Hn]; [congruence|].
  pose proof (excl_f s i0 w HI Hh (fun e => Hn (eq_sym e))) as E.
  apply fl_post_held in Hw. lia.
Qed.

Lemma Inv_fstep i0' a s s' : Inv s -> fstep i0' a s = Some s' -> Inv s'.
Proof.
  intros HI H. pose proof (I0_fstep _ _ _ _ (i0 _ HI) H) as i0''.
  destruct HI as [i0 ih ih2 if1 if2 ir imd ihd ia j1 j2 j3 [iwk iww]].
  fstep_cases H;
    try (match goal with
         | Hfp : fp (fts s i0') = _ |- _ =>
             let E := fresh "E" in
             pose proof (if1 i0') as E; rewrite Hfp in E; simpl in E; specialize (E _ eq_refl); subst
         end);
    (constructor; [exact i0'' | clear i0'' ..]); prep; gen.
  all: try (pose proof (ir i) as Hir; split_eqb; simpl in *; rw_pc; simpl in *; try lia; fail).
  all: try (split_eqb; simpl in *; rw_pc; simpl in *; gen; fail).
  all: try (split_eqb; simpl in *; rw_pc; simpl in *;
            try (eapply ih2; eassumption); try (eapply if1; eassumption); try (eapply if2; eassumption);
            try (destruct (in_G (lp s)) eqn:EG; [specialize (ih eq_refl); congruence | reflexivity]); fail).
  all: try (eapply ih2; congruence).
  all: try (split_eqb; simpl in *;
            try (eapply (if1 i0'); rewrite Heqf; simpl; congruence);
            try (eapply (if2 i0'); rewrite Heqf; simpl; congruence);
            try (eapply if1; eassumption); try (eapply if2; eassumption); fail).
  (* j3 *)
  all: try (match goal with
            | Hs : _ = false, Hb : bl _ = true, Hz : _ = Zero |- exists _, _ =>
                first [ exists i0'; rewrite Nat.eqb_refl; reflexivity
                      | exfalso; clear - Hs; destruct (md s); simpl in Hs; discriminate
                      | destruct (j3 Hs Hb Hz) as [w Hw]; exists w; destruct (Nat.eqb_spec w i0');
                        [ subst w; rewrite Heqf in Hw; simpl in Hw; try discriminate Hw; simpl; try reflexivity;
                          exfalso; rewrite (ihd (region_wp _ (or_introl Hb))) in *; discriminate
                        | exact Hw ] ]
            end).
  (* ia, after the write of time_left: the loop is outside its own critical sections *)
  all: try (match goal with
            | Hq : fp (fts ?st ?ii) = FRed _ RWrite |- ?G =>
                lazymatch G with _ \/ _ => fail | _ /\ _ => fail | _ => idtac end;
                pose proof (excl_fl st i0' i0) as E; rewrite Hq in E; simpl in E; specialize (E ltac:(lia));
                destruct (lp st) as [| | | | | | | | | |[]| | |[]| | | | | | | |[]| | | | | |]; simpl in *;
                try exact I; try reflexivity; lia
            end).
  (* j1 *)
  all: try (match goal with
            | Ha : armed _ = true, HIn : In (EvF ?i ?k) _ |- _ \/ _ =>
                let old :=
                  (pose proof (j1 Ha i k HIn) as X; destruct X as [X|[X1 X2]];
                   [ left; first [assumption|reflexivity]
                   | destruct (Nat.eqb_spec i i0');
                     [ subst i; rewrite Heqf in X2; simpl in X2; try discriminate X2; simpl;
                       first [ right; split; [assumption|reflexivity]
                             | left; first [reflexivity | apply must_write_zero; assumption] ]
                     | right; split; assumption ] ]) in
                first [ apply pend_snoc in HIn; destruct HIn as [HIn|HIn];
                        [ old
                        | injection HIn as -> ->;
                          first [ right; rewrite Nat.eqb_refl; simpl; split; reflexivity
                                | exfalso; pose proof (if2 i0') as E; rewrite Heqf in E; simpl in E;
                                  specialize (E eq_refl); apply armed_in_G in Ha; congruence ] ]
                      | old ]
            end).
  (* j2 *)
  all: try (match goal with
            | Hs : _ = false |- _ => exfalso; clear - Hs; destruct (md s); simpl in Hs; discriminate
            end).
  all: match goal with
       | Hs : _ = false, Hp : _ \/ _, HIn : In (EvF ?i ?k) _ |- _ /\ _ =>
           assert (Hp0 : bl (lp s) = true \/ wpre (lp s) = true /\ gtl (gs s (cur s)) <> Zero)
             by (destruct Hp as [Hp|[Hp1 Hp2]];
                 [ left; exact Hp
                 | first [ right; split; [exact Hp1 | exact Hp2] | exfalso; apply Hp2; reflexivity ] ]);
           let old :=
             (pose proof (j2 Hs Hp0 i k HIn) as X;
              destruct (Nat.eqb_spec i i0');
              [ subst i; rewrite Heqf in X; simpl in X; destruct X as [X1 X2]; simpl;
                first [ solve [destruct X2]
                      | solve [split; [assumption | first [ exact I | assumption ] ]]
                      | solve [exfalso; apply X2; apply must_write_zero; assumption]
                      | solve [exfalso; rewrite (ihd (region_wp _ ltac:(destruct Hp0 as [Hq|[Hq _]]; [left|right]; exact Hq))) in *;
                        discriminate] ]
              | first [ exact X
                      | exfalso; pose proof (excl_f s i0' i i0) as E; rewrite Heqf in E; simpl in E;
                        specialize (E ltac:(lia) ltac:(congruence)); destruct X as [_ X2];
                        destruct (fp (fts s i)) as [| | | |? []| |]; simpl in *; try lia; tauto ] ]) in
           first [ apply pend_snoc in HIn; destruct HIn as [HIn|HIn];
                   [ old
                   | injection HIn as -> ->; rewrite Nat.eqb_refl; simpl;
                     first [ split; [reflexivity|];
                             destruct Hp0 as [Hb|[_ Hnz]]; [|exact Hnz];
                             apply (holder_nonzero _ s i0' i0 j3 Hs Hb); rewrite Heqf; simpl; [lia|reflexivity]
                           | exfalso; pose proof (if2 i0') as E; rewrite Heqf in E; simpl in E;
                             specialize (E eq_refl);
                             rewrite (region_in_G _ ltac:(destruct Hp0 as [Hq|[Hq _]]; [left|right]; exact Hq)) in E;
                             discriminate ] ]
                 | old ]
       end.
Qed.

Lemma Inv_step s ta s' : Inv s -> step s ta = Some s' -> Inv s'.
Proof.
  destruct ta as [[|i] a]; simpl; [apply Inv_lstep | apply Inv_fstep].
Qed.

Lemma Inv_reachable m s : reachable m s -> Inv s.
Proof.
  apply reachable_ind'; [apply Inv_init | intros; eapply Inv_step; eassumption].
Qed.

