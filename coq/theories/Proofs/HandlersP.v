From Coq Require Import List ZArith Arith Bool Lia.
From Circ Require Import Model.Handlers.
Import ListNotations.

(* ---------- basic facts ---------- *)
Lemma chan_eqb_eq a b : chan_eqb a b = true <-> a = b.
Proof. destruct a as [|x|x], b as [|y|y]; cbn; try (split; intros H; [discriminate H|discriminate H]);
  try (split; reflexivity);
  (rewrite Nat.eqb_eq; split; [intros ->; reflexivity|intros [= ->]; reflexivity]). Qed.
Lemma chan_eqb_refl a : chan_eqb a a = true.
Proof. now apply chan_eqb_eq. Qed.

Lemma existsb_eqb_In x l : existsb (Nat.eqb x) l = true <-> In x l.
Proof. rewrite existsb_exists. split.
  - intros (y & Hy & E). apply Nat.eqb_eq in E. now subst.
  - intros H. exists x. split; [exact H|apply Nat.eqb_refl]. Qed.

Lemma dedup_In x l : In x (dedup l) <-> In x l.
Proof. induction l as [|y r IH]; [tauto|]. cbn [dedup].
  destruct (existsb (Nat.eqb y) r) eqn:E.
  - rewrite IH. cbn. split; [tauto|]. intros [->|H]; [now apply existsb_eqb_In|exact H].
  - cbn. now rewrite IH. Qed.

Lemma dedup_NoDup l : NoDup (dedup l).
Proof. induction l as [|y r IH]; [constructor|]. cbn [dedup].
  destruct (existsb (Nat.eqb y) r) eqn:E; [exact IH|].
  constructor; [|exact IH]. rewrite dedup_In. intros H. apply existsb_eqb_In in H. congruence. Qed.

(* ---------- the property's matching rule, stated on its own ---------- *)
(* handler h, registered in component c, is declared for name n or for all events *)
Definition declared_for (e : key * hdecl) (n : nat) : Prop :=
  match fst e with KGlobal | KAll => True | KName m => m = n end.
(* ... and listens on ch: channels equal, either side the wildcard, or the
   event is addressed to the component instance itself *)
Definition listens (c : comp) (e : key * hdecl) (ch : chan) : Prop :=
  ch = CStar \/ hchan_eff c (snd e) = CStar \/ hchan_eff c (snd e) = ch \/ ch = CComp (cid c).

Definition delivers (w : world) (r n : nat) (ch : chan) (h : nat) : Prop :=
  exists c e, In c w /\ rootf c = r /\ In e (reg c) /\ hid (snd e) = h /\
              declared_for e n /\ listens c e ch.

(* a global handler is a catch-all handler whose own channel is the wildcard *)
Definition global_ok (c : comp) : Prop :=
  forall e, In e (reg c) -> fst e = KGlobal -> hchan (snd e) = Some CStar.

Lemma entry_match_spec c n ch e : global_ok c -> In e (reg c) ->
  entry_match c n ch e = true <-> declared_for e n /\ listens c e ch.
Proof.
  intros G He. unfold entry_match, declared_for, listens, chan_match.
  destruct (fst e) eqn:K.
  - split; [intros _|reflexivity]. split; [exact I|]. right; left.
    unfold hchan_eff. now rewrite (G e He K).
  - rewrite !orb_true_iff, !chan_eqb_eq. tauto.
  - rewrite andb_true_iff, !orb_true_iff, !chan_eqb_eq, Nat.eqb_eq. tauto.
Qed.

Lemma get_handlers_spec w r n ch h : (forall c, In c w -> global_ok c) ->
  In h (get_handlers w r n ch) <-> delivers w r n ch h.
Proof.
  intros G. unfold get_handlers, delivers, members, local.
  rewrite dedup_In, in_flat_map. split.
  - intros (c & Hc & Hh). apply filter_In in Hc as [Hc Hr]. apply Nat.eqb_eq in Hr.
    apply in_map_iff in Hh as (e & <- & He). apply filter_In in He as [He Hm].
    apply (entry_match_spec c n ch e (G c Hc) He) in Hm as [D L].
    exists c, e. repeat split; auto.
  - intros (c & e & Hc & Hr & He & Hh & D & L). exists c. split.
    + apply filter_In. split; [exact Hc|now apply Nat.eqb_eq].
    + apply in_map_iff. exists e. split; [exact Hh|]. apply filter_In. split; [exact He|].
      apply (entry_match_spec c n ch e (G c Hc) He). now split.
Qed.

Lemma get_handlers_NoDup w r n ch : NoDup (get_handlers w r n ch).
Proof. apply dedup_NoDup. Qed.

(* ---------- get_handlers only looks at the "view" of the members of the tree ---------- *)
Definition view (c : comp) := (cid c, cchan c, reg c, rootf c).

Lemma local_view n ch c c' : view c = view c' -> local n ch c = local n ch c'.
Proof. unfold view. intros [= E1 E2 E3 E4]. unfold local, entry_match, chan_match, hchan_eff.
  now rewrite E1, E2, E3. Qed.

Lemma members_map r f w :
  (forall x, In x w -> (rootf x = r \/ rootf (f x) = r) -> view (f x) = view x) ->
  map view (members (map f w) r) = map view (members w r).
Proof.
  unfold members. induction w as [|x w IH]; intros H; [reflexivity|].
  cbn [map filter].
  assert (IH' := IH (fun y Hy => H y (or_intror Hy))). clear IH.
  destruct (Nat.eqb_spec (rootf x) r) as [E|NE].
  - assert (V := H x (or_introl eq_refl) (or_introl E)).
    assert (E' : rootf (f x) = r) by (unfold view in V; injection V; congruence).
    apply Nat.eqb_eq in E'. rewrite E'. cbn [map]. now rewrite V, IH'.
  - destruct (Nat.eqb_spec (rootf (f x)) r) as [E'|NE'].
    + assert (V := H x (or_introl eq_refl) (or_intror E')).
      unfold view in V; injection V; congruence.
    + exact IH'.
Qed.

Lemma flat_map_local_view n ch l l' : map view l = map view l' ->
  flat_map (local n ch) l = flat_map (local n ch) l'.
Proof. revert l'. induction l as [|x l IH]; intros [|y l'] H; try discriminate; [reflexivity|].
  cbn [map flat_map] in *. assert (Hx : view x = view y) by congruence.
  assert (Hl : map view l = map view l') by congruence.
  now rewrite (local_view n ch x y Hx), (IH l' Hl). Qed.

Lemma gh_unaffected r f w n ch :
  (forall x, In x w -> (rootf x = r \/ rootf (f x) = r) -> view (f x) = view x) ->
  get_handlers (map f w) r n ch = get_handlers w r n ch.
Proof. intros H. unfold get_handlers. f_equal. apply flat_map_local_view. now apply members_map. Qed.

(* ---------- invariants ---------- *)
Definition uniq (w : world) := NoDup (map cid w).
Definition roots_ok (w : world) :=
  forall c, In c w -> exists r, In r w /\ cid r = rootf c /\ rootf r = cid r.
Definition globals_ok (w : world) := forall c, In c w -> global_ok c.
Definition coherent (w : world) :=
  forall c, In c w -> rootf c = cid c -> dirty c = false ->
  forall n ch l, lookup (n, ch) (cache c) = Some l -> l = get_handlers w (cid c) n ch.
Definition Inv (w : world) := uniq w /\ roots_ok w /\ globals_ok w /\ coherent w.

Lemma find_comp_some w c x : find_comp w c = Some x -> In x w /\ cid x = c.
Proof. unfold find_comp. intros H. apply find_some in H as [H1 H2]. apply Nat.eqb_eq in H2. auto. Qed.

Lemma find_comp_uniq w x : uniq w -> In x w -> find_comp w (cid x) = Some x.
Proof.
  unfold uniq, find_comp. induction w as [|y w IH]; intros U H; [contradiction|].
  cbn [map] in U. inversion U as [|? ? Hn U']; subst. cbn [find].
  destruct H as [->|H]; [now rewrite Nat.eqb_refl|].
  destruct (Nat.eqb_spec (cid y) (cid x)) as [E|NE]; [|now apply IH].
  exfalso. apply Hn. rewrite E. now apply in_map.
Qed.

Lemma uniq_eq w x y : uniq w -> In x w -> In y w -> cid x = cid y -> x = y.
Proof. intros U Hx Hy E. pose proof (find_comp_uniq w x U Hx) as F1.
  pose proof (find_comp_uniq w y U Hy) as F2. rewrite E in F1. congruence. Qed.

Lemma root_of_in w x : uniq w -> In x w -> root_of w (cid x) = rootf x.
Proof. intros U H. unfold root_of. now rewrite (find_comp_uniq w x U H). Qed.

Lemma uniq_map f w : (forall x, cid (f x) = cid x) -> uniq w -> uniq (map f w).
Proof. intros H U. unfold uniq. rewrite map_map. erewrite map_ext; [exact U|]. intros; apply H. Qed.

Lemma coherent_map f w : coherent w ->
  (forall x, In x w -> rootf (f x) = cid (f x) -> dirty (f x) = false ->
       cid (f x) = cid x /\ rootf x = cid x /\ dirty x = false /\ cache (f x) = cache x /\
       (forall y, In y w -> (rootf y = cid x \/ rootf (f y) = cid x) -> view (f y) = view y)) ->
  coherent (map f w).
Proof.
  intros C H c' Hc' Hr Hd n ch l Hl. apply in_map_iff in Hc' as (x & <- & Hx).
  destruct (H x Hx Hr Hd) as (E1 & E2 & E3 & E4 & E5).
  rewrite E1, (gh_unaffected (cid x) f w n ch E5). apply (C x Hx E2 E3 n ch l). now rewrite <- E4.
Qed.

(* ---------- addHandler / removeHandler keep globals well-formed ---------- *)
Lemma add1_in k h r e : In e (add1 k h r) -> e = (k, h) \/ In e r.
Proof. unfold add1. destruct (has r k (hid h)); cbn; intuition. Qed.

Lemma global_ok_add c h : global_ok c -> global_ok (set_reg c (add_handler_reg h (reg c))).
Proof.
  unfold global_ok. cbn [reg set_reg]. intros G e He K. unfold add_handler_reg in He.
  destruct (hnames h) as [|n ns] eqn:N.
  - destruct (is_star (hchan h)) eqn:S.
    + apply add1_in in He as [->|He]; [|now apply G]. cbn.
      unfold is_star in S. destruct (hchan h) as [[| |]|]; try discriminate; reflexivity.
    + apply add1_in in He as [->|He]; [discriminate K|now apply G].
  - revert He. generalize (n :: ns). intros l. induction l as [|m l IH]; cbn [fold_right]; intros He.
    + now apply G.
    + apply add1_in in He as [->|He]; [discriminate K|now apply IH].
Qed.

Lemma remove_in ks h r r' e : remove_handler_reg ks h r = Some r' -> In e r' -> In e r.
Proof.
  revert r. induction ks as [|k ks IH]; intros r H He; cbn in H.
  - now injection H as <-.
  - destruct (has r k h || key_eqb k KGlobal); [|discriminate].
    apply (IH _ H) in He. unfold del1 in He. now apply filter_In in He as [He _].
Qed.

(* ---------- dispatch ---------- *)
Lemma on_map c g w : on c g w = map (fun x => if Nat.eqb (cid x) c then g x else x) w.
Proof. reflexivity. Qed.

Lemma roots_ok_map f w :
  (forall x, cid (f x) = cid x) -> (forall x, rootf (f x) = rootf x) -> roots_ok w -> roots_ok (map f w).
Proof.
  intros H1 H2 R c' Hc'. apply in_map_iff in Hc' as (x & <- & Hx).
  destruct (R x Hx) as (r & Hr & E1 & E2). exists (f r). split; [now apply in_map|].
  now rewrite H1, !H2.
Qed.

Lemma globals_ok_map f w :
  (forall x, In x w -> global_ok x -> global_ok (f x)) -> globals_ok w -> globals_ok (map f w).
Proof. intros H G c' Hc'. apply in_map_iff in Hc' as (x & <- & Hx). apply H; auto. Qed.

Definition cache_only (f : comp -> comp) :=
  forall x, view (f x) = view x.

Lemma cache_only_gh f w r n ch : cache_only f -> get_handlers (map f w) r n ch = get_handlers w r n ch.
Proof. intros H. apply gh_unaffected. intros; apply H. Qed.

Lemma kc_eqb_eq a b : kc_eqb a b = true <-> a = b.
Proof. destruct a as [a1 a2], b as [b1 b2]. unfold kc_eqb. cbn.
  rewrite andb_true_iff, Nat.eqb_eq, chan_eqb_eq. split; [intros [-> ->]; reflexivity|intros [= -> ->]; auto]. Qed.

Lemma dispatch_ok w r n ch l w' c : Inv w -> find_comp w r = Some c -> rootf c = r ->
  dispatch w r n ch = (l, w') ->
  l = get_handlers w r n ch /\ Inv w' /\
  (forall r' n' ch', get_handlers w' r' n' ch' = get_handlers w r' n' ch') /\
  (forall x, root_of w' x = root_of w x) /\
  (forall x y, find_comp w x = Some y -> exists y', find_comp w' x = Some y' /\ view y' = view y).
Proof.
  intros (U & R & G & C) F Hr D. unfold dispatch in D. rewrite F in D.
  destruct (find_comp_some _ _ _ F) as [Hc Ec].
  set (ca := if dirty c then [] else cache c) in *.
  assert (Hca : forall n' ch' l', lookup (n', ch') ca = Some l' -> l' = get_handlers w r n' ch').
  { intros n' ch' l' Hl. subst ca. destruct (dirty c) eqn:Dc; [discriminate Hl|].
    rewrite <- Ec. apply (C c Hc); [congruence|exact Dc|exact Hl]. }
  assert (Gen : forall ca', (forall n' ch' l', lookup (n', ch') ca' = Some l' -> l' = get_handlers w r n' ch') ->
     let w1 := on r (fun x => set_cache x ca') w in
     Inv w1 /\ (forall r' n' ch', get_handlers w1 r' n' ch' = get_handlers w r' n' ch') /\
     (forall x, root_of w1 x = root_of w x) /\
     (forall x y, find_comp w x = Some y -> exists y', find_comp w1 x = Some y' /\ view y' = view y)).
  { intros ca' Hca' w1. subst w1. rewrite on_map.
    set (f := fun x => if Nat.eqb (cid x) r then set_cache x ca' else x).
    assert (CO : cache_only f). { intros x. unfold f. destruct (Nat.eqb (cid x) r); reflexivity. }
    assert (Fc : forall x, cid (f x) = cid x). { intros x. specialize (CO x). unfold view in CO. congruence. }
    assert (Fr : forall x, rootf (f x) = rootf x). { intros x. specialize (CO x). unfold view in CO. congruence. }
    assert (GH := fun r' n' ch' => cache_only_gh f w r' n' ch' CO).
    assert (FF : forall x y, find_comp w x = Some y -> find_comp (map f w) x = Some (f y)).
    { intros x y. unfold find_comp. clear. induction w as [|z w IH]; cbn [find map]; [discriminate|].
      assert (E : cid (f z) = cid z) by (unfold f; destruct (Nat.eqb (cid z) r); reflexivity).
      rewrite E. destruct (Nat.eqb (cid z) x); [intros [= ->]; reflexivity|exact IH]. }
    split; [|split; [exact GH|split]].
    - split; [now apply uniq_map|]. split; [now apply roots_ok_map|]. split.
      + apply globals_ok_map; [|exact G]. intros x _ Gx. unfold f. destruct (Nat.eqb (cid x) r); exact Gx.
      + intros c' Hc' Hr' Hd' n' ch' l' Hl'. apply in_map_iff in Hc' as (x & <- & Hx).
        rewrite Fc, GH. rewrite Fr, Fc in Hr'. unfold f in Hd', Hl'.
        destruct (Nat.eqb_spec (cid x) r) as [E|NE].
        * cbn [cache set_cache] in Hl'. rewrite E. now apply Hca'.
        * now apply (C x Hx Hr' Hd').
    - intros x. unfold root_of. destruct (find_comp w x) as [y|] eqn:Fx.
      + now rewrite (FF x y Fx), Fr.
      + unfold find_comp in *. assert (find (fun x0 => Nat.eqb (cid x0) x) (map f w) = None) as ->; [|reflexivity].
        clear -Fx Fc. induction w as [|z w IH]; [reflexivity|]. cbn [find map] in *. rewrite Fc.
        destruct (Nat.eqb (cid z) x); [discriminate|now apply IH].
    - intros x y Fx. exists (f y). split; [now apply FF|apply CO]. }
  destruct (lookup (n, ch) ca) as [l0|] eqn:L.
  - injection D as <- <-. split; [now apply Hca|]. now apply Gen.
  - injection D as <- <-. split; [reflexivity|]. apply Gen.
    intros n' ch' l' Hl. cbn [lookup] in Hl. destruct (kc_eqb (n', ch') (n, ch)) eqn:K.
    + apply kc_eqb_eq in K. injection K as -> ->. now injection Hl as <-.
    + now apply Hca.
Qed.

(* ---------- a delivery is good: it used exactly the live handler set ---------- *)
Definition good (d : delivery) : Prop :=
  Inv (d_world d) /\ d_invoked d = get_handlers (d_world d) (d_root d) (d_name d) (d_chan d).

Definition same_structure (w w' : world) : Prop :=
  (forall r n ch, get_handlers w' r n ch = get_handlers w r n ch) /\
  (forall x, root_of w' x = root_of w x) /\
  (forall x y, find_comp w x = Some y -> exists y', find_comp w' x = Some y' /\ view y' = view y).

Lemma same_structure_trans a b c : same_structure a b -> same_structure b c -> same_structure a c.
Proof.
  intros (A1 & A2 & A3) (B1 & B2 & B3). split; [|split].
  - intros. now rewrite B1, A1.
  - intros. now rewrite B2, A2.
  - intros x y F. destruct (A3 x y F) as (y1 & F1 & V1). destruct (B3 x y1 F1) as (y2 & F2 & V2).
    exists y2. split; [exact F2|congruence].
Qed.

Lemma flush_queue_ok q : forall w r c ds w', Inv w -> find_comp w r = Some c -> rootf c = r ->
  flush_queue w r q = (ds, w') ->
  Forall good ds /\ Inv w' /\ same_structure w w'.
Proof.
  induction q as [|[[e n] ch] q IH]; intros w r c ds w' I F Hr H; cbn [flush_queue] in H.
  - injection H as <- <-. split; [constructor|]. split; [exact I|].
    split; [reflexivity|]. split; [reflexivity|]. intros x y Fx. exists y. auto.
  - destruct (dispatch w r n ch) as [l w1] eqn:D.
    destruct (flush_queue w1 r q) as [ds1 w2] eqn:FQ. injection H as <- <-.
    destruct (dispatch_ok w r n ch l w1 c I F Hr D) as (El & I1 & S1a & S1b & S1c).
    destruct (S1c r c F) as (c1 & F1 & V1).
    assert (Hr1 : rootf c1 = r) by (unfold view in V1; congruence).
    destruct (IH w1 r c1 ds1 w2 I1 F1 Hr1 FQ) as (G2 & I2 & S2).
    split; [|split; [exact I2|]].
    + constructor; [|exact G2]. split; [exact I|exact El].
    + eapply same_structure_trans; [|exact S2]. split; [exact S1a|split; [exact S1b|exact S1c]].
Qed.

(* maps that touch neither view, cache nor dirty flag (queue bookkeeping) *)
Lemma Inv_queue_map f w :
  (forall x, view (f x) = view x /\ cache (f x) = cache x /\ dirty (f x) = dirty x) ->
  Inv w -> Inv (map f w) /\ same_structure w (map f w).
Proof.
  intros H (U & R & G & C).
  assert (CO : cache_only f) by (intros x; apply H).
  assert (Fc : forall x, cid (f x) = cid x). { intros x. specialize (CO x). unfold view in CO. congruence. }
  assert (Fr : forall x, rootf (f x) = rootf x). { intros x. specialize (CO x). unfold view in CO. congruence. }
  assert (Fg : forall x, reg (f x) = reg x). { intros x. specialize (CO x). unfold view in CO. congruence. }
  assert (FF : forall x y, find_comp w x = Some y -> find_comp (map f w) x = Some (f y)).
  { intros x y. unfold find_comp. clear -Fc. induction w as [|z w IH]; cbn [find map]; [discriminate|].
    rewrite Fc. destruct (Nat.eqb (cid z) x); [intros [= ->]; reflexivity|exact IH]. }
  split.
  - split; [now apply uniq_map|]. split; [now apply roots_ok_map|]. split.
    + apply globals_ok_map; [|exact G]. intros x _ Gx. unfold global_ok. rewrite Fg. exact Gx.
    + apply coherent_map; [exact C|]. intros x Hx Hr Hd. destruct (H x) as (_ & Hc & Hdd).
      rewrite Fc, Fr in Hr. rewrite Hdd in Hd. repeat split; auto; intros; apply CO.
  - split; [intros; now apply cache_only_gh|]. split.
    + intros x. unfold root_of. destruct (find_comp w x) as [y|] eqn:Fx.
      * now rewrite (FF x y Fx), Fr.
      * unfold find_comp in *. assert (find (fun x0 => Nat.eqb (cid x0) x) (map f w) = None) as ->; [|reflexivity].
        clear -Fx Fc. induction w as [|z w IH]; [reflexivity|]. cbn [find map] in *. rewrite Fc.
        destruct (Nat.eqb (cid z) x); [discriminate|now apply IH].
    + intros x y Fx. exists (f y). split; [now apply FF|apply CO].
Qed.

Lemma flush_ok w r ds w' : Inv w -> root_of w r = r -> flush w r = (ds, w') ->
  Forall good ds /\ Inv w' /\ same_structure w w'.
Proof.
  intros I Hr H. unfold flush in H. destruct (find_comp w r) as [c|] eqn:F.
  - rewrite on_map in H.
    set (f := fun x => if Nat.eqb (cid x) r then set_queue x [] else x) in *.
    assert (Hf : forall x, view (f x) = view x /\ cache (f x) = cache x /\ dirty (f x) = dirty x).
    { intros x. unfold f. destruct (Nat.eqb (cid x) r); auto. }
    destruct (Inv_queue_map f w Hf I) as (I1 & S1).
    destruct S1 as (S1a & S1b & S1c). destruct (S1c r c F) as (c1 & F1 & V1).
    assert (Hr1 : rootf c1 = r).
    { unfold root_of in Hr. rewrite F in Hr. unfold view in V1. congruence. }
    destruct (flush_queue_ok (queue c) (map f w) r c1 ds w' I1 F1 Hr1 H) as (G & I2 & S2).
    split; [exact G|]. split; [exact I2|]. eapply same_structure_trans; [|exact S2].
    split; [exact S1a|split; [exact S1b|exact S1c]].
  - injection H as <- <-. split; [constructor|]. split; [exact I|].
    split; [reflexivity|]. split; [reflexivity|]. intros x y Fx. exists y. auto.
Qed.

Lemma map_on_on (c1 c2 : nat) g1 g2 (w : world) :
  on c2 g2 (on c1 g1 w) =
  map (fun x => let y := if Nat.eqb (cid x) c1 then g1 x else x in if Nat.eqb (cid y) c2 then g2 y else y) w.
Proof. unfold on. now rewrite map_map. Qed.

(* addHandler / removeHandler: registration of component c changes, root of c becomes dirty *)
Lemma reg_change_ok w c g :
  Inv w ->
  (forall x, cid (g x) = cid x /\ cchan (g x) = cchan x /\ rootf (g x) = rootf x /\ dirty (g x) = dirty x /\ cache (g x) = cache x) ->
  (forall x, global_ok x -> global_ok (g x)) ->
  Inv (on (root_of w c) (fun x => set_dirty x true) (on c g w)).
Proof.
  intros (U & R & G & C) Hg Hgo. rewrite map_on_on.
  set (r0 := root_of w c).
  set (f := fun x => let y := if Nat.eqb (cid x) c then g x else x in
                     if Nat.eqb (cid y) r0 then set_dirty y true else y).
  assert (Fc : forall x, cid (f x) = cid x).
  { intros x. unfold f. cbv zeta. destruct (Nat.eqb (cid x) c); [destruct (Hg x) as (E & _)|];
    match goal with |- cid (if ?b then _ else _) = _ => destruct b end; cbn; auto. }
  assert (Fr : forall x, rootf (f x) = rootf x).
  { intros x. unfold f. cbv zeta. destruct (Nat.eqb (cid x) c); [destruct (Hg x) as (_ & _ & E & _)|];
    match goal with |- rootf (if ?b then _ else _) = _ => destruct b end; cbn; auto. }
  split; [now apply uniq_map|]. split; [now apply roots_ok_map|]. split.
  - apply globals_ok_map; [|exact G]. intros x _ Gx. unfold f. cbv zeta.
    destruct (Nat.eqb (cid x) c); [apply Hgo in Gx|];
    match goal with |- global_ok (if ?b then _ else _) => destruct b end; exact Gx.
  - apply coherent_map; [exact C|]. intros x Hx Hr Hd.
    rewrite Fc, Fr in Hr.
    assert (NE : cid x <> r0).
    { intros E. unfold f in Hd. cbv zeta in Hd. destruct (Nat.eqb (cid x) c).
      - destruct (Hg x) as (E1 & _). rewrite E1, E, Nat.eqb_refl in Hd. discriminate Hd.
      - rewrite E, Nat.eqb_refl in Hd. discriminate Hd. }
    assert (NC : cid x <> c).
    { intros E. apply NE. unfold r0. rewrite <- E, (root_of_in w x U Hx). auto. }
    assert (Efx : f x = x).
    { unfold f. cbv zeta. destruct (Nat.eqb_spec (cid x) c); [contradiction|].
      destruct (Nat.eqb_spec (cid x) r0); [contradiction|reflexivity]. }
    rewrite Efx in *. repeat split; auto.
    intros y Hy Hyr. rewrite Fr in Hyr. assert (Ry : rootf y = cid x) by tauto.
    assert (NCy : cid y <> c).
    { intros E. apply NE. unfold r0. rewrite <- E, (root_of_in w y U Hy). auto. }
    unfold f. cbv zeta. destruct (Nat.eqb_spec (cid y) c); [contradiction|].
    destruct (Nat.eqb (cid y) r0); reflexivity.
Qed.

Lemma find_comp_none w c : find_comp w c = None -> forall x, In x w -> cid x <> c.
Proof. unfold find_comp. intros H x Hx E. apply (find_none _ _ H) in Hx. apply Nat.eqb_neq in Hx. contradiction. Qed.

Lemma root_is_root w x : uniq w -> roots_ok w -> In x w -> root_of w (rootf x) = rootf x.
Proof. intros U R Hx. destruct (R x Hx) as (r & Hr & E1 & E2). rewrite <- E1, (root_of_in w r U Hr). congruence. Qed.

Lemma register_ok w c p x pp : Inv w ->
  root_of w c = c -> root_of w p <> c -> find_comp w c = Some x -> find_comp w p = Some pp ->
  let r1 := root_of w p in
  Inv (on r1 (fun y => set_dirty (set_queue y (queue y ++ queue x)) true)
        (on c (fun y => set_queue y [])
           (map (fun y => if Nat.eqb (rootf y) c then set_rootf y r1 else y) w))).
Proof.
  intros (U & R & G & C) Hc Hp Fx Fp r1. rewrite map_on_on, map_map.
  set (f := fun y => _). 
  assert (Fc : forall y, cid (f y) = cid y).
  { intros y. unfold f. cbv zeta. destruct (Nat.eqb (rootf y) c); cbn;
    repeat match goal with |- context [if ?b then _ else _] => destruct b; cbn end; reflexivity. }
  assert (Fr : forall y, rootf (f y) = if Nat.eqb (rootf y) c then r1 else rootf y).
  { intros y. unfold f. cbv zeta. destruct (Nat.eqb (rootf y) c); cbn;
    repeat match goal with |- context [if ?b then _ else _] => destruct b; cbn end; reflexivity. }
  assert (Fg : forall y, reg (f y) = reg y /\ cchan (f y) = cchan y /\ cache (f y) = cache y).
  { intros y. unfold f. cbv zeta. destruct (Nat.eqb (rootf y) c); cbn;
    repeat match goal with |- context [if ?b then _ else _] => destruct b; cbn end; auto. }
  assert (Fd : forall y, cid y = r1 -> dirty (f y) = true).
  { intros y E. unfold f. cbv zeta. destruct (Nat.eqb (rootf y) c); cbn [cid set_rootf];
    (destruct (Nat.eqb (cid y) c); cbn [cid set_queue set_rootf]; rewrite E, Nat.eqb_refl; reflexivity). }
  assert (Fdn : forall y, cid y <> r1 -> dirty (f y) = dirty y).
  { intros y E. unfold f. cbv zeta. destruct (Nat.eqb (rootf y) c); cbn [cid set_rootf];
    (destruct (Nat.eqb (cid y) c); cbn [cid set_queue set_rootf];
     (destruct (Nat.eqb_spec (cid y) r1); [contradiction|reflexivity])). }
  destruct (find_comp_some _ _ _ Fp) as [Hpp Epp].
  assert (Hr1 : r1 = rootf pp). { unfold r1, root_of. now rewrite Fp. }
  assert (Hr1c : r1 <> c) by exact Hp.
  split; [now apply uniq_map|]. split; [|split].
  - (* roots_ok *)
    intros y' Hy'. apply in_map_iff in Hy' as (y & <- & Hy). rewrite Fr.
    destruct (Nat.eqb_spec (rootf y) c) as [E|NE].
    + destruct (R pp Hpp) as (z & Hz & E1 & E2). exists (f z). split; [now apply in_map|].
      rewrite Fc, Fr. rewrite <- Hr1 in E1.
      assert (rootf z <> c) by congruence.
      destruct (Nat.eqb_spec (rootf z) c); [contradiction|]. split; congruence.
    + destruct (R y Hy) as (z & Hz & E1 & E2). exists (f z). split; [now apply in_map|].
      rewrite Fc, Fr. assert (rootf z <> c) by congruence.
      destruct (Nat.eqb_spec (rootf z) c); [contradiction|]. split; congruence.
  - apply globals_ok_map; [|exact G]. intros y _ Gy. unfold global_ok.
    destruct (Fg y) as (-> & _). exact Gy.
  - apply coherent_map; [exact C|]. intros y Hy Hr Hd. rewrite Fc, Fr in Hr.
    assert (NE : cid y <> r1). { intros E. rewrite (Fd y E) in Hd. discriminate. }
    destruct (Nat.eqb_spec (rootf y) c) as [E|NEc]; [congruence|].
    rewrite (Fdn y NE) in Hd. destruct (Fg y) as (_ & _ & Ec).
    repeat split; auto.
    intros z Hz Hzr. rewrite Fr in Hzr.
    assert (NZ : rootf z <> c).
    { intros E. rewrite E, Nat.eqb_refl in Hzr. destruct Hzr as [Hzr|Hzr]; [|congruence].
      (* cid y = c: then y is component c whose root is itself c *)
      apply NEc. congruence. }
    unfold view. rewrite Fc, Fr. destruct (Fg z) as (-> & -> & _).
    destruct (Nat.eqb_spec (rootf z) c); [contradiction|reflexivity].
Qed.

Lemma mem_In x l : mem x l = true <-> In x l.
Proof. apply existsb_eqb_In. Qed.

Lemma detach_ok w1 c r0 sub : Inv w1 ->
  root_of w1 c = r0 -> r0 <> c -> In c sub -> ~ In r0 sub ->
  (forall x, In x sub -> root_of w1 x = r0) ->
  Inv (on c (fun y => set_dirty y true) (on r0 (fun y => set_dirty y true)
        (map (fun y => if mem (cid y) sub then set_rootf y c else y) w1))).
Proof.
  intros (U & R & G & C) Hc Hne Hcs Hr0 Hsub. rewrite map_on_on, map_map.
  set (f := fun y => _).
  assert (Fc : forall y, cid (f y) = cid y).
  { intros y. unfold f. cbv zeta. destruct (mem (cid y) sub); cbn;
    repeat match goal with |- context [if ?b then _ else _] => destruct b; cbn end; reflexivity. }
  assert (Fr : forall y, rootf (f y) = if mem (cid y) sub then c else rootf y).
  { intros y. unfold f. cbv zeta. destruct (mem (cid y) sub); cbn;
    repeat match goal with |- context [if ?b then _ else _] => destruct b; cbn end; reflexivity. }
  assert (Fg : forall y, reg (f y) = reg y /\ cchan (f y) = cchan y /\ cache (f y) = cache y).
  { intros y. unfold f. cbv zeta. destruct (mem (cid y) sub); cbn;
    repeat match goal with |- context [if ?b then _ else _] => destruct b; cbn end; auto. }
  assert (Fdd : forall y, dirty (f y) = Nat.eqb (cid y) r0 || Nat.eqb (cid y) c || dirty y).
  { intros y. unfold f. cbv zeta. destruct (mem (cid y) sub); simpl;
    destruct (Nat.eqb (cid y) r0); simpl; destruct (Nat.eqb (cid y) c); simpl; reflexivity. }
  assert (Fd : forall y, cid y = r0 \/ cid y = c -> dirty (f y) = true).
  { intros y [E|E]; rewrite Fdd, E, Nat.eqb_refl; [reflexivity|apply orb_true_iff; left; apply orb_true_r]. }
  assert (Fdn : forall y, cid y <> r0 -> cid y <> c -> dirty (f y) = dirty y).
  { intros y E1 E2. rewrite Fdd. apply Nat.eqb_neq in E1, E2. now rewrite E1, E2. }
  (* component c exists *)
  assert (Ec : exists cc, In cc w1 /\ cid cc = c).
  { unfold root_of in Hc. destruct (find_comp w1 c) as [cc|] eqn:F; [|congruence].
    exists cc. now apply find_comp_some. }
  destruct Ec as (cc & Hcc & Ecc).
  assert (Msub : forall y, In y w1 -> mem (cid y) sub = true -> rootf y = r0).
  { intros y Hy M. apply mem_In in M. rewrite <- (root_of_in w1 y U Hy). now apply Hsub. }
  split; [now apply uniq_map|]. split; [|split].
  - intros y' Hy'. apply in_map_iff in Hy' as (y & <- & Hy). rewrite Fr.
    destruct (mem (cid y) sub) eqn:M.
    + exists (f cc). split; [now apply in_map|]. rewrite Fc, Fr, Ecc.
      apply mem_In in Hcs. rewrite Hcs. auto.
    + destruct (R y Hy) as (z & Hz & E1 & E2). exists (f z). split; [now apply in_map|].
      rewrite Fc, Fr. destruct (mem (cid z) sub) eqn:Mz; [|split; congruence].
      exfalso. apply Hr0. apply mem_In. pose proof (Msub z Hz Mz). congruence.
  - apply globals_ok_map; [|exact G]. intros y _ Gy. unfold global_ok.
    destruct (Fg y) as (-> & _). exact Gy.
  - apply coherent_map; [exact C|]. intros y Hy Hr Hd. rewrite Fc, Fr in Hr.
    assert (N0 : cid y <> r0). { intros E. rewrite (Fd y (or_introl E)) in Hd. discriminate. }
    assert (N1 : cid y <> c). { intros E. rewrite (Fd y (or_intror E)) in Hd. discriminate. }
    destruct (mem (cid y) sub) eqn:M; [congruence|].
    rewrite (Fdn y N0 N1) in Hd. destruct (Fg y) as (_ & _ & Eca).
    repeat split; auto.
    intros z Hz Hzr. rewrite Fr in Hzr.
    destruct (mem (cid z) sub) eqn:Mz.
    + exfalso. pose proof (Msub z Hz Mz). destruct Hzr; congruence.
    + unfold view. rewrite Fc, Fr, Mz. destruct (Fg z) as (-> & -> & _). reflexivity.
Qed.

Lemma step_ok w o ds w' : Inv w -> step w o = Ok ds w' -> Forall good ds /\ Inv w'.
Proof.
  intros I H. destruct o as [c h|c h ev|c p|c sub|x e n ch|r]; cbn [step] in H.
  - injection H as <- <-. split; [constructor|].
    apply (reg_change_ok w c (fun x => set_reg x (add_handler_reg h (reg x))) I).
    + intros x. cbn. auto.
    + intros x. apply global_ok_add.
  - destruct (find_comp w c) as [x|] eqn:F; [|discriminate].
    destruct (remove_handler_reg (remove_keys h ev) (hid h) (reg x)) as [r'|] eqn:Rm; [|discriminate].
    injection H as <- <-. split; [constructor|].
    destruct (find_comp_some _ _ _ F) as [Hx Ex]. destruct I as (U & R & G & C).
    apply (reg_change_ok w c (fun y => set_reg y r') (conj U (conj R (conj G C)))).
    + intros y. cbn. auto.
    + intros y _. (* only applied to component c = x; for others harmless but we need a general argument *)
      unfold global_ok. cbn [reg set_reg]. intros e He K.
      apply (remove_in _ _ _ _ e Rm) in He. exact (G x Hx e He K).
  - destruct (negb (Nat.eqb (root_of w c) c) || Nat.eqb (root_of w p) c) eqn:B; [discriminate|].
    apply orb_false_iff in B as [B1 B2]. apply negb_false_iff, Nat.eqb_eq in B1. apply Nat.eqb_neq in B2.
    destruct (find_comp w c) as [x|] eqn:Fx; [|discriminate].
    destruct (find_comp w p) as [pp|] eqn:Fp; [|discriminate].
    injection H as <- <-. split; [constructor|]. now apply (register_ok w c p x pp).
  - set (r0 := root_of w c) in *.
    destruct (Nat.eqb r0 c || negb (mem c sub) || mem r0 sub ||
              negb (forallb (fun x => Nat.eqb (root_of w x) r0) sub)) eqn:B; [discriminate|].
    apply orb_false_iff in B as [B B4]. apply orb_false_iff in B as [B B3]. apply orb_false_iff in B as [B1 B2].
    apply Nat.eqb_neq in B1. apply negb_false_iff, mem_In in B2. apply negb_false_iff in B4.
    rewrite forallb_forall in B4.
    destruct (flush w r0) as [ds1 w1] eqn:Fl. injection H as <- <-.
    assert (Hr0 : root_of w r0 = r0).
    { destruct I as (U & R & _). unfold r0, root_of. destruct (find_comp w c) as [cc|] eqn:F.
      - destruct (find_comp_some _ _ _ F) as [Hcc _]. apply (root_is_root w cc U R Hcc).
      - exfalso. apply B1. unfold r0, root_of. now rewrite F. }
    destruct (flush_ok w r0 ds1 w1 I Hr0 Fl) as (Gd & I1 & (S1 & S2 & S3)).
    split; [exact Gd|]. apply (detach_ok w1 c r0 sub I1); auto.
    + now rewrite S2.
    + intros M. apply mem_In in M. congruence.
    + intros x Hx. rewrite S2. apply Nat.eqb_eq. now apply B4.
  - injection H as <- <-. split; [constructor|]. rewrite on_map.
    apply Inv_queue_map; [|exact I]. intros y. destruct (Nat.eqb (cid y) (root_of w x)); auto.
  - destruct (Nat.eqb_spec (root_of w r) r) as [E|]; [|discriminate].
    destruct (flush w r) as [ds1 w1] eqn:Fl. injection H as <- <-.
    destruct (flush_ok w r ds1 w1 I E Fl) as (Gd & I1 & _). auto.
Qed.

Theorem run_good ops : forall w, Inv w -> Forall good (fst (fst (run w ops))).
Proof.
  induction ops as [|o ops IH]; intros w I; cbn [run]; [constructor|].
  destruct (step w o) as [ds w1|w1|] eqn:S; [|constructor|constructor].
  destruct (step_ok w o ds w1 I S) as (Gd & I1). specialize (IH w1 I1).
  destruct (run w1 ops) as [[ds' w2] st]. cbn [fst] in *. apply Forall_app. auto.
Qed.


Lemma fresh_Inv cs : NoDup (map fst cs) -> Inv (fresh_world cs).
Proof.
  intros N. unfold fresh_world. split; [|split; [|split]].
  - unfold uniq. rewrite map_map. cbn. exact N.
  - intros c Hc. exists c. split; [exact Hc|]. apply in_map_iff in Hc as (x & <- & _). auto.
  - intros c Hc e He. apply in_map_iff in Hc as (x & <- & _). contradiction.
  - intros c Hc _ _ n ch l Hl. apply in_map_iff in Hc as (x & <- & _). discriminate.
Qed.

(* C01, for every history: each delivery went to exactly the handlers that
   match in the world as it was at the moment of the dispatch, once each *)
Theorem delivery_exact cs ops d : NoDup (map fst cs) ->
  In d (fst (fst (run (fresh_world cs) ops))) ->
  NoDup (d_invoked d) /\
  forall h, In h (d_invoked d) <-> delivers (d_world d) (d_root d) (d_name d) (d_chan d) h.
Proof.
  intros N Hd. pose proof (run_good ops _ (fresh_Inv cs N)) as G.
  rewrite Forall_forall in G. destruct (G d Hd) as ((_ & _ & Gl & _) & E).
  rewrite E. split; [apply get_handlers_NoDup|]. intros h. now apply get_handlers_spec.
Qed.
