(* Proofs about Model/Feedback.v (property C04). *)
From Coq Require Import List ZArith Bool Arith Lia.
From Circ Require Import Model.Feedback.
Import ListNotations.

(* ------------------------------------------------------------------ Value.setValue vs. pack *)

Lemma accum_from_list : forall r l0, accum_from (PList l0) true r = PList (l0 ++ r).
Proof.
  induction r as [|x r IH]; intros l0; simpl.
  - now rewrite app_nil_r.
  - rewrite IH. now rewrite <- app_assoc.
Qed.

(* a fresh Value that receives the results l holds pack l, provided the first result is not itself a list *)
Lemma accum_pack : forall l, (match l with x :: _ :: _ => is_list x = false | _ => True end) -> accum l = pack l.
Proof.
  intros [|x [|y r]] H; try reflexivity.
  unfold accum. simpl. destruct x; simpl in *; try discriminate; now rewrite accum_from_list.
Qed.

(* ... and merges them into that list otherwise *)
Lemma accum_merged : forall l0 y r, accum (PList l0 :: y :: r) = PList (l0 ++ y :: r).
Proof. intros. unfold accum. simpl. rewrite accum_from_list. now rewrite <- app_assoc. Qed.
