(* Proofs about Model/Feedback.v (property C04). *)
From Coq Require Import List ZArith Bool Arith Lia.
From Circ Require Import Model.Feedback.
Import ListNotations.

Arguments set_value : simpl never.
Arguments propagate : simpl never.

(* ------------------------------------------------------------------ Value.setValue vs. pack *)

Lemma accum_from_coll : forall r l0, accum_from (PList l0, true) r = (PList (l0 ++ r), true).
Proof.
  induction r as [|x r IH]; intros l0; simpl.
  - now rewrite app_nil_r.
  - rewrite IH. now rewrite <- app_assoc.
Qed.

(* a fresh Value that receives the non-None results l holds pack l and is collecting iff there are several:
   a single result is stored as such (also when it is a list), several as the list of them in order *)
Lemma accum_from_pack : forall l, Forall (fun x => is_none x = false) l ->
  accum_from (PNone, false) l = (pack l, match l with _ :: _ :: _ => true | _ => false end).
Proof.
  intros [|x [|y r]] H; try reflexivity.
  inversion H; subst.
  change (accum_from (PNone, false) (x :: y :: r)) with (accum_from (set_slot (x, false) y) r).
  assert (E : set_slot (x, false) y = (PList [x; y], true))
    by (destruct x; try discriminate; reflexivity).
  rewrite E, accum_from_coll. reflexivity.
Qed.

Lemma accum_pack : forall l, Forall (fun x => is_none x = false) l -> accum l = pack l.
Proof. intros l H. unfold accum. now rewrite accum_from_pack. Qed.

(* ------------------------------------------------------------------ basics *)

Lemma upd_same : forall A (f : nat -> A) i v, upd f i v i = v.
Proof. intros. unfold upd. now rewrite Nat.eqb_refl. Qed.
Lemma upd_other : forall A (f : nat -> A) i j v, j <> i -> upd f i v j = f j.
Proof. intros. unfold upd. destruct (Nat.eqb j i) eqn:E; auto. apply Nat.eqb_eq in E. contradiction. Qed.

Ltac upds :=
  repeat (rewrite upd_same in * || (rewrite upd_other in * by lia)).

(* [ext l s s']: s' extends s by newly allocated (queued) events and the log entries l; nothing that
   existed in s is changed *)
Record ext (l : list entry) (s s' : st) : Prop := {
  x_next : next s <= next s';
  x_old : forall d, d < next s ->
          spec s' d = spec s d /\ kind s' d = kind s d /\ val s' d = val s d /\
          waiting s' d = waiting s d /\ phase s' d = phase s d;
  x_new : forall d, next s <= d < next s' -> phase s' d = PQueued /\ waiting s' d = 0 /\ val s' d = vinit;
  x_tasks : tasks s' = tasks s;
  x_queue : queue s' = queue s ++ seq (next s) (next s' - next s);
  x_log : log s' = l ++ log s
}.

Lemma ext_refl : forall s, ext [] s s.
Proof.
  intros s. split.
  - lia.
  - auto.
  - intros d Hd. exfalso. lia.
  - reflexivity.
  - rewrite Nat.sub_diag. simpl. now rewrite app_nil_r.
  - reflexivity.
Qed.

Lemma seq_split2 : forall a b c, a <= b -> b <= c -> seq a (c - a) = seq a (b - a) ++ seq b (c - b).
Proof.
  intros. replace (c - a) with ((b - a) + (c - b)) by lia.
  rewrite seq_app. f_equal. f_equal. lia.
Qed.

Lemma ext_trans : forall l1 l2 s s1 s2, ext l1 s s1 -> ext l2 s1 s2 -> ext (l2 ++ l1) s s2.
Proof.
  intros l1 l2 s s1 s2 [n1 o1 w1 t1 q1 g1] [n2 o2 w2 t2 q2 g2]. split.
  - lia.
  - intros d Hd. destruct (o1 d Hd) as (a1 & a2 & a3 & a4 & a5).
    destruct (o2 d ltac:(lia)) as (b1 & b2 & b3 & b4 & b5).
    repeat split; congruence.
  - intros d Hd. destruct (Nat.lt_ge_cases d (next s1)) as [Hlt|Hge].
    + destruct (w1 d ltac:(lia)) as (a1 & a2 & a3).
      destruct (o2 d Hlt) as (b1 & b2 & b3 & b4 & b5). repeat split; congruence.
    + apply w2. lia.
  - congruence.
  - rewrite q2, q1, <- app_assoc. f_equal. symmetry. apply seq_split2; lia.
  - rewrite g2, g1. now rewrite app_assoc.
Qed.

Lemma ext_alloc : forall x k sp s, ext [x] s (alloc k sp (add_log x s)).
Proof.
  intros. split.
  - simpl. lia.
  - intros d Hd. simpl. upds. auto.
  - intros d Hd. simpl in *. assert (d = next s) by lia. subst. upds. auto.
  - reflexivity.
  - cbn [alloc add_log queue next]. replace (S (next s) - next s) with 1 by lia. reflexivity.
  - reflexivity.
Qed.

Lemma ext_fire_user : forall sp s, ext [LF (next s)] s (fire_user sp s).
Proof. intros. apply ext_alloc. Qed.

Definition is_LF_from (n : nat) (x : entry) : Prop := exists d, x = LF d /\ n <= d.

Lemma ext_fire_all : forall kids s, exists l, ext l s (fire_all kids s) /\ Forall (is_LF_from (next s)) l.
Proof.
  induction kids as [|sp r IH]; intros s; simpl.
  - exists []. split; [apply ext_refl | constructor].
  - destruct (IH (fire_user sp s)) as (l & Hl & Fl).
    exists (l ++ [LF (next s)]). split.
    + eapply ext_trans; [apply ext_fire_user | exact Hl].
    + apply Forall_app. split.
      * eapply Forall_impl; [|exact Fl]. intros x (d & -> & Hd). exists d. split; auto. simpl in Hd. lia.
      * constructor; [|constructor]. exists (next s). split; auto.
Qed.

Lemma ext_fire_der : forall k e s, ext [LFD k e] s (fire_der k e s).
Proof. intros. unfold fire_der. destruct (der_chans k (spec s e)). apply ext_alloc. Qed.

Lemma ext_inform : forall f e s, exists l, ext l s (inform f e s) /\ (l = [] \/ l = [LFD DVC e]).
Proof.
  intros. unfold inform. destruct (vpromise (val s e) && negb f).
  - exists []. split; [apply ext_refl | auto].
  - destruct (ev_notify (spec s e)).
    + exists [LFD DVC e]. split; [apply ext_fire_der | auto].
    + exists []. split; [apply ext_refl | auto].
Qed.

Definition fb_log (fl : bool) (e : nat) : list entry :=
  LFD DExc e :: (if fl then [LFD DFail e] else []).

Lemma ext_raise_feedback : forall e s, ext (fb_log (ev_fail (spec s e)) e) s (raise_feedback e s).
Proof.
  intros. unfold raise_feedback, fb_log. destruct (ev_fail (spec s e)).
  - change [LFD DExc e; LFD DFail e] with ([LFD DExc e] ++ [LFD DFail e]).
    eapply ext_trans; apply ext_fire_der.
  - apply ext_fire_der.
Qed.

Lemma ext_spec : forall l s s' d, ext l s s' -> d < next s -> spec s' d = spec s d.
Proof. intros l s s' d H Hd. now destruct (x_old _ _ _ H d Hd) as (? & ? & ? & ? & ?). Qed.
Lemma ext_kind : forall l s s' d, ext l s s' -> d < next s -> kind s' d = kind s d.
Proof. intros l s s' d H Hd. now destruct (x_old _ _ _ H d Hd) as (? & ? & ? & ? & ?). Qed.
Lemma ext_val : forall l s s' d, ext l s s' -> d < next s -> val s' d = val s d.
Proof. intros l s s' d H Hd. now destruct (x_old _ _ _ H d Hd) as (? & ? & ? & ? & ?). Qed.
Lemma ext_wait : forall l s s' d, ext l s s' -> d < next s -> waiting s' d = waiting s d.
Proof. intros l s s' d H Hd. now destruct (x_old _ _ _ H d Hd) as (? & ? & ? & ? & ?). Qed.
Lemma ext_phase : forall l s s' d, ext l s s' -> d < next s -> phase s' d = phase s d.
Proof. intros l s s' d H Hd. now destruct (x_old _ _ _ H d Hd) as (? & ? & ? & ? & ?). Qed.

(* ------------------------------------------------------------------ frames *)

(* entry x is not about any event other than e0 *)
Definition about (e0 : nat) (x : entry) : Prop :=
  match x with LH e _ | LG e _ _ | LFD _ e => e = e0 | _ => True end.

(* [fr e0 l s s']: like ext, but value / waitingHandlers / phase of the event e0 being processed and
   the task list may have changed *)
Record fr (e0 : nat) (l : list entry) (s s' : st) : Prop := {
  f_next : next s <= next s';
  f_spec : forall d, d < next s -> spec s' d = spec s d /\ kind s' d = kind s d;
  f_old : forall d, d < next s -> d <> e0 ->
          val s' d = val s d /\ waiting s' d = waiting s d /\ phase s' d = phase s d;
  f_new : forall d, next s <= d < next s' -> phase s' d = PQueued /\ waiting s' d = 0 /\ val s' d = vinit;
  f_queue : queue s' = queue s ++ seq (next s) (next s' - next s);
  f_log : log s' = l ++ log s;
  f_about : Forall (about e0) l
}.

Lemma ext_fr : forall e0 l s s', ext l s s' -> Forall (about e0) l -> fr e0 l s s'.
Proof.
  intros e0 l s s' [n o w t q g] Ha. split; auto.
  - intros d Hd. destruct (o d Hd) as (? & ? & ? & ? & ?). auto.
  - intros d Hd _. destruct (o d Hd) as (? & ? & ? & ? & ?). auto.
Qed.

Lemma fr_trans : forall e0 l1 l2 s s1 s2,
  e0 < next s -> fr e0 l1 s s1 -> fr e0 l2 s1 s2 -> fr e0 (l2 ++ l1) s s2.
Proof.
  intros e0 l1 l2 s s1 s2 He [n1 p1 o1 w1 q1 g1 a1] [n2 p2 o2 w2 q2 g2 a2]. split.
  - lia.
  - intros d Hd. destruct (p1 d Hd). destruct (p2 d ltac:(lia)). split; congruence.
  - intros d Hd Hne. destruct (o1 d Hd Hne) as (? & ? & ?).
    destruct (o2 d ltac:(lia) Hne) as (? & ? & ?). repeat split; congruence.
  - intros d Hd. destruct (Nat.lt_ge_cases d (next s1)) as [Hlt|Hge].
    + destruct (w1 d ltac:(lia)) as (? & ? & ?).
      destruct (o2 d Hlt ltac:(lia)) as (? & ? & ?). repeat split; congruence.
    + apply w2. lia.
  - rewrite q2, q1, <- app_assoc. f_equal. symmetry. apply seq_split2; lia.
  - rewrite g2, g1. now rewrite app_assoc.
  - apply Forall_app. auto.
Qed.

Lemma fr_refl : forall e0 s, fr e0 [] s s.
Proof. intros. apply ext_fr; [apply ext_refl | constructor]. Qed.

Lemma fr_set_val : forall e0 v s, fr e0 [] s (set_val e0 v s).
Proof.
  intros. split; simpl; auto.
  - intros d Hd Hne. upds. auto.
  - intros d Hd. exfalso. lia.
  - rewrite Nat.sub_diag. simpl. now rewrite app_nil_r.
Qed.
Lemma fr_set_wait : forall e0 n s, fr e0 [] s (set_wait e0 n s).
Proof.
  intros. split; simpl; auto.
  - intros d Hd Hne. upds. auto.
  - intros d Hd. exfalso. lia.
  - rewrite Nat.sub_diag. simpl. now rewrite app_nil_r.
Qed.
Lemma fr_set_phase : forall e0 p s, fr e0 [] s (set_phase e0 p s).
Proof.
  intros. split; simpl; auto.
  - intros d Hd Hne. upds. auto.
  - intros d Hd. exfalso. lia.
  - rewrite Nat.sub_diag. simpl. now rewrite app_nil_r.
Qed.
Lemma fr_set_tasks : forall e0 t s, fr e0 [] s (set_tasks t s).
Proof.
  intros. split; simpl; auto.
  - intros d Hd. exfalso. lia.
  - rewrite Nat.sub_diag. simpl. now rewrite app_nil_r.
Qed.
Lemma fr_add_log : forall e0 x s, about e0 x -> fr e0 [x] s (add_log x s).
Proof.
  intros. split; simpl; auto.
  - intros d Hd. exfalso. lia.
  - rewrite Nat.sub_diag. simpl. now rewrite app_nil_r.
Qed.

(* ------------------------------------------------------------------ results / feedback bookkeeping *)

Definition nonempty {A} (l : list A) : bool := match l with [] => false | _ => true end.

Lemma accum_from_app : forall l1 l2 (c : pyval * bool),
  accum_from c (l1 ++ l2) = accum_from (accum_from c l1) l2.
Proof. induction l1 as [|x l1 IH]; intros; simpl; auto. Qed.

Lemma produced_app : forall sp e l lg, produced sp e (l ++ lg) = produced sp e lg ++ produced sp e l.
Proof. intros. unfold produced. now rewrite rev_app_distr, flat_map_app. Qed.

Lemma produced_one : forall sp e x, produced sp e [x] = contrib sp e x.
Proof. intros. unfold produced. simpl. now rewrite app_nil_r. Qed.

Lemma produced_cons : forall sp e x lg, produced sp e (x :: lg) = produced sp e lg ++ contrib sp e x.
Proof. intros. change (x :: lg) with ([x] ++ lg). now rewrite produced_app, produced_one. Qed.

Lemma contrib_sp : forall sp sp' e x, sp' e = sp e -> contrib sp' e x = contrib sp e x.
Proof. intros. destruct x; simpl; now rewrite ?H. Qed.
Lemma raises_sp : forall sp sp' e x, sp' e = sp e -> raises sp' e x = raises sp e x.
Proof. intros. destruct x; simpl; now rewrite ?H. Qed.

Lemma produced_sp : forall sp sp' e l, sp' e = sp e -> produced sp' e l = produced sp e l.
Proof.
  intros. unfold produced. induction (rev l) as [|x r IH]; simpl; auto.
  now rewrite IH, (contrib_sp sp sp').
Qed.
Lemma nraised_sp : forall sp sp' e l, sp' e = sp e -> nraised sp' e l = nraised sp e l.
Proof.
  intros. unfold nraised. induction l as [|x r IH]; simpl; auto.
  rewrite (raises_sp sp sp') by auto. destruct (raises sp e x); simpl; now rewrite IH.
Qed.

Lemma nraised_app : forall sp e l1 l2, nraised sp e (l1 ++ l2) = nraised sp e l1 + nraised sp e l2.
Proof. intros. unfold nraised. now rewrite filter_app, app_length. Qed.

Lemma count_der_app : forall k e l1 l2, count_der k e (l1 ++ l2) = count_der k e l1 + count_der k e l2.
Proof.
  induction l1 as [|x l1 IH]; intros; simpl; auto.
  destruct x; auto. rewrite IH. lia.
Qed.

Lemma nonempty_app : forall A (a b : list A), nonempty (a ++ b) = nonempty a || nonempty b.
Proof. intros. destruct a; simpl; auto. Qed.

Lemma produced_no_none : forall sp e lg, Forall (fun x => is_none x = false) (produced sp e lg).
Proof.
  intros. unfold produced. induction (rev lg) as [|x r IH]; simpl; [constructor|].
  apply Forall_app. split; auto.
  assert (Hnn : forall v, Forall (fun x => is_none x = false) (nonnone v))
    by (intros v; unfold nonnone; destruct (is_none v) eqn:E; repeat constructor; auto).
  destruct x; simpl; try constructor.
  - destruct (Nat.eqb e0 e); [|constructor].
    destruct (nth_error (ev_hs (sp e)) i) as [[kids rr|]|]; try constructor.
    destruct (unstop rr); auto; repeat constructor.
  - destruct (Nat.eqb e0 e); [|constructor].
    destruct (nth_error (ev_hs (sp e)) i) as [[|ys lk gr]|]; try constructor.
    destruct (nth_error ys k) as [[kk y]|]; auto. destruct gr; repeat constructor.
Qed.

(* the Value of event e, its errors flag and the feedback events fired about e agree with the
   handler activity recorded in the log *)
Record VC (s : st) (e : nat) : Prop := {
  vc_val : (vv (val s e), vcoll (val s e)) = accum_from (PNone, false) (produced (spec s) e (log s));
  vc_res : vresult (val s e) = nonempty (produced (spec s) e (log s));
  vc_err : verrors (val s e) = (0 <? nraised (spec s) e (log s));
  vc_exc : count_der DExc e (log s) = nraised (spec s) e (log s);
  vc_fail : count_der DFail e (log s) = if ev_fail (spec s e) then nraised (spec s) e (log s) else 0
}.

Lemma VC_step : forall s s' e l,
  VC s e -> spec s' e = spec s e -> log s' = l ++ log s ->
  (vv (val s' e), vcoll (val s' e)) = accum_from (vv (val s e), vcoll (val s e)) (produced (spec s) e l) ->
  vresult (val s' e) = vresult (val s e) || nonempty (produced (spec s) e l) ->
  verrors (val s' e) = verrors (val s e) || (0 <? nraised (spec s) e l) ->
  count_der DExc e l = nraised (spec s) e l ->
  count_der DFail e l = (if ev_fail (spec s e) then nraised (spec s) e l else 0) ->
  VC s' e.
Proof.
  intros s s' e l [v1 v2 v3 v4 v5] Hsp Hlog H1 H2 H3 H4 H5.
  assert (Hp : produced (spec s') e (log s') = produced (spec s) e (log s) ++ produced (spec s) e l).
  { rewrite Hlog, (produced_sp (spec s) (spec s')) by auto. apply produced_app. }
  assert (Hn : nraised (spec s') e (log s') = nraised (spec s) e l + nraised (spec s) e (log s)).
  { rewrite Hlog, (nraised_sp (spec s) (spec s')) by auto. apply nraised_app. }
  split.
  - rewrite Hp, H1, accum_from_app. now rewrite v1.
  - rewrite Hp, H2, nonempty_app. now rewrite v2.
  - rewrite Hn, H3, v3.
    destruct (nraised (spec s) e l), (nraised (spec s) e (log s)); simpl; auto.
  - rewrite Hn, Hlog, count_der_app. lia.
  - rewrite Hn, Hlog, count_der_app, Hsp, H5, v5. destruct (ev_fail (spec s e)); lia.
Qed.

(* an entry that says nothing about the results / raises / failure feedback of event d *)
Definition irrel (sp : nat -> ev) (d : nat) (x : entry) : Prop :=
  contrib sp d x = [] /\ raises sp d x = false /\ count_der DExc d [x] = 0 /\ count_der DFail d [x] = 0.

Lemma irrel_list : forall sp d l, Forall (irrel sp d) l ->
  produced sp d l = [] /\ nraised sp d l = 0 /\ count_der DExc d l = 0 /\ count_der DFail d l = 0.
Proof.
  induction 1 as [|x l (a & b & c & d') _ (IH1 & IH2 & IH3 & IH4)].
  - repeat split; reflexivity.
  - assert (E1 : count_der DExc d (x :: l) = 0)
      by (change (x :: l) with ([x] ++ l); rewrite count_der_app; lia).
    assert (E2 : count_der DFail d (x :: l) = 0)
      by (change (x :: l) with ([x] ++ l); rewrite count_der_app; lia).
    rewrite produced_cons, IH1, a. repeat split; auto.
    unfold nraised in *. simpl. rewrite b. exact IH2.
Qed.

Lemma VC_irrel : forall s s' d l,
  VC s d -> spec s' d = spec s d -> val s' d = val s d -> log s' = l ++ log s ->
  Forall (irrel (spec s) d) l -> VC s' d.
Proof.
  intros s s' d l Hv Hsp Hval Hlog Hl.
  destruct (irrel_list _ _ _ Hl) as (a & b & c & e).
  eapply VC_step; eauto; rewrite ?a, ?b, ?Hval; simpl; auto.
  - now rewrite orb_false_r.
  - now rewrite orb_false_r.
  - rewrite e. now destruct (ev_fail (spec s d)).
Qed.

Definition silent (x : entry) : Prop :=
  match x with LH _ _ | LG _ _ _ | LFD DExc _ | LFD DFail _ => False | _ => True end.

Lemma silent_irrel : forall sp d x, silent x -> irrel sp d x.
Proof. intros sp d [ | | |[] ?| | ]; simpl; intros H; try contradiction; repeat split; auto. Qed.

Lemma about_irrel : forall sp e0 d x, about e0 x -> d <> e0 -> irrel sp d x.
Proof.
  intros sp e0 d x Ha Hne. destruct x; simpl in *; subst;
    repeat split; simpl; auto;
    try (destruct (Nat.eqb e0 d) eqn:E; [apply Nat.eqb_eq in E; congruence | auto]).
  all: rewrite ?andb_false_r; auto.
Qed.

Lemma LF_silent : forall n l, Forall (is_LF_from n) l -> Forall silent l.
Proof. intros n l H. eapply Forall_impl; [|exact H]. intros x (d & -> & _). exact I. Qed.

(* ------------------------------------------------------------------ operations on the event being processed *)

(* [vop e l s s']: a frame step that leaves phase / waitingHandlers of e and the task list alone
   (only e's Value, the log and newly fired events change) *)
Record vop (e : nat) (l : list entry) (s s' : st) : Prop := {
  v_fr : fr e l s s';
  v_phase : phase s' e = phase s e;
  v_wait : waiting s' e = waiting s e;
  v_tasks : tasks s' = tasks s
}.

Lemma vop_trans : forall e l1 l2 s s1 s2,
  e < next s -> vop e l1 s s1 -> vop e l2 s1 s2 -> vop e (l2 ++ l1) s s2.
Proof.
  intros e l1 l2 s s1 s2 He [f1 p1 w1 t1] [f2 p2 w2 t2]. split; try congruence.
  eapply fr_trans; eauto.
Qed.

Lemma vop_ext : forall e l s s', e < next s -> ext l s s' -> Forall (about e) l -> vop e l s s'.
Proof.
  intros e l s s' He Hx Ha. split.
  - now apply ext_fr.
  - eapply ext_phase; eauto.
  - eapply ext_wait; eauto.
  - eapply x_tasks; eauto.
Qed.

Lemma vop_set_val : forall e v s, vop e [] s (set_val e v s).
Proof. intros. split; auto. apply fr_set_val. Qed.

Lemma vop_add_log : forall e x s, about e x -> vop e [x] s (add_log x s).
Proof. intros. split; auto. now apply fr_add_log. Qed.

Lemma fr_spec : forall e l s s' d, fr e l s s' -> d < next s -> spec s' d = spec s d.
Proof. intros e l s s' d H Hd. now destruct (f_spec _ _ _ _ H d Hd). Qed.

Lemma LF_about : forall e n l, Forall (is_LF_from n) l -> Forall (about e) l.
Proof. intros e n l H. eapply Forall_impl; [|exact H]. intros x (d & -> & _). exact I. Qed.

Definition nosucc (x : entry) : Prop := match x with LFD DSucc _ => False | _ => True end.

Lemma LF_nosucc : forall n l, Forall (is_LF_from n) l -> Forall nosucc l.
Proof. intros n l H. eapply Forall_impl; [|exact H]. intros x (d & -> & _). exact I. Qed.

(* log entry + fired children: the common prefix of a plain handler and of a generator segment *)
Lemma enter_vop : forall e x kids s,
  e < next s -> about e x ->
  exists lk, vop e (lk ++ [x]) s (fire_all kids (add_log x s)) /\ Forall (is_LF_from (next s)) lk /\
             val (fire_all kids (add_log x s)) e = val s e /\
             next s <= next (fire_all kids (add_log x s)).
Proof.
  intros e x kids s He Ha.
  destruct (ext_fire_all kids (add_log x s)) as (lk & Hx & Hl).
  exists lk. split; [|split; [|split]].
  - eapply vop_trans; [exact He | apply vop_add_log; exact Ha |].
    apply vop_ext; auto. eapply LF_about; eauto.
  - exact Hl.
  - now rewrite (ext_val _ _ _ e Hx).
  - apply (x_next _ _ _ Hx).
Qed.

Definition setv (v : value) (x : pyval) : value :=
  {| vv := fst (set_slot (vv v, vcoll v) x); vcoll := snd (set_slot (vv v, vcoll v) x);
     vresult := vresult v || negb (is_none x); verrors := verrors v; vpromise := vpromise v |}.
Definition seterr (v : value) : value :=
  {| vv := vv v; vcoll := vcoll v; vresult := vresult v; verrors := true; vpromise := vpromise v |}.

Lemma inform_vop : forall f e s, e < next s ->
  exists li, vop e li s (inform f e s) /\ (li = [] \/ li = [LFD DVC e]) /\ val (inform f e s) e = val s e.
Proof.
  intros f e s He. destruct (ext_inform f e s) as (li & Hx & Hli).
  exists li. split; [|split]; auto.
  - apply vop_ext; auto. destruct Hli as [-> | ->]; repeat constructor.
  - eapply ext_val; eauto.
Qed.

(* ---- the parent links of Values: only a handler that returns a nested Value sets one *)

Lemma vpar_fire_all : forall kids s, vpar (fire_all kids s) = vpar s.
Proof. induction kids as [|sp r IH]; intros s; simpl; auto. now rewrite IH. Qed.
Lemma vpar_fire_der : forall k e s, vpar (fire_der k e s) = vpar s.
Proof. intros. unfold fire_der. now destruct (der_chans k (spec s e)). Qed.
Lemma vpar_inform : forall f e s, vpar (inform f e s) = vpar s.
Proof.
  intros. unfold inform. destruct (vpromise (val s e) && negb f); auto.
  destruct (ev_notify (spec s e)); auto using vpar_fire_der.
Qed.
Lemma vpar_raise_feedback : forall e s, vpar (raise_feedback e s) = vpar s.
Proof.
  intros. unfold raise_feedback. rewrite vpar_fire_der. destruct (ev_fail (spec s e)); auto using vpar_fire_der.
Qed.
Lemma vpar_event_done : forall e err s, vpar (event_done e err s) = vpar s.
Proof.
  intros. unfold event_done. destruct (Nat.eqb (waiting s e) 0); auto. cbv zeta.
  match goal with |- context [if ?c then _ else _] => destruct c end; auto. now rewrite vpar_fire_der.
Qed.
Lemma vpar_log_all : forall xs s, vpar (log_all xs s) = vpar s.
Proof. induction xs as [|x r IH]; intros s; simpl; auto. now rewrite IH. Qed.
Lemma vpar_set_value_local : forall e x s, vpar (set_value_local e x s) = vpar s.
Proof. intros. unfold set_value_local. destruct (is_none x); auto. now rewrite vpar_inform. Qed.

Lemma propagate_none : forall f o x s, vpar s o = None -> propagate f o x s = s.
Proof. intros f o x s H. destruct f; unfold propagate; auto. now rewrite H. Qed.

(* without a parent link, setValue of a non-Value argument is the local update *)
Lemma set_value_eq : forall e x s,
  vpar s e = None -> is_ref x = false -> set_value e x s = set_value_local e x s.
Proof.
  intros e x s Hp Hx. unfold set_value.
  destruct x; try discriminate; apply propagate_none; now rewrite vpar_set_value_local.
Qed.

Lemma set_value_local_vop : forall e x s, e < next s -> is_none x = false ->
  exists li, vop e li s (set_value_local e x s) /\ (li = [] \/ li = [LFD DVC e]) /\
             val (set_value_local e x s) e = setv (val s e) x.
Proof.
  intros e x s He Hx. unfold set_value_local. rewrite Hx.
  match goal with |- context [inform false e ?s1] => set (s1' := s1) end.
  destruct (inform_vop false e s1' He) as (li & Hv & Hli & Hval).
  exists li. split; [|split]; auto.
  - rewrite <- (app_nil_r li). eapply vop_trans; [exact He | apply vop_set_val | exact Hv].
  - rewrite Hval. unfold s1', setv. simpl. rewrite upd_same, Hx. reflexivity.
Qed.

Lemma set_value_vop : forall e x s, e < next s -> is_none x = false ->
  vpar s e = None -> is_ref x = false ->
  exists li, vop e li s (set_value e x s) /\ (li = [] \/ li = [LFD DVC e]) /\
             val (set_value e x s) e = setv (val s e) x /\ vpar (set_value e x s) = vpar s.
Proof.
  intros e x s He Hx Hp Hr. rewrite (set_value_eq e x s Hp Hr).
  destruct (set_value_local_vop e x s He Hx) as (li & a & b & c).
  exists li. split; [exact a|]. split; [exact b|]. split; [exact c|]. apply vpar_set_value_local.
Qed.

Definition nonh (x : entry) : Prop := match x with LH _ _ | LG _ _ _ => False | _ => True end.

Lemma nonh_list : forall sp e l, Forall nonh l -> produced sp e l = [] /\ nraised sp e l = 0.
Proof.
  induction 1 as [|x l Hx _ (IH1 & IH2)]; [split; reflexivity|].
  rewrite produced_cons, IH1. unfold nraised in *. simpl.
  destruct x; simpl in *; try contradiction; auto.
Qed.

Lemma delta_one : forall sp e A x, Forall nonh A ->
  produced sp e (A ++ [x]) = contrib sp e x /\
  nraised sp e (A ++ [x]) = (if raises sp e x then 1 else 0).
Proof.
  intros sp e A x HA. destruct (nonh_list sp e A HA) as (a & b).
  rewrite produced_app, produced_one, a, app_nil_r, nraised_app, b. split; auto.
  unfold nraised. simpl. now destruct (raises sp e x).
Qed.

Lemma LF_nonh : forall n l, Forall (is_LF_from n) l -> Forall nonh l.
Proof. intros n l H. eapply Forall_impl; [|exact H]. intros x (d & -> & _). exact I. Qed.

Lemma count_der_LF : forall k e n l, Forall (is_LF_from n) l -> count_der k e l = 0.
Proof. induction 1 as [|x l (d & -> & _) _ IH]; simpl; auto. Qed.

Lemma li_facts : forall e li, li = [] \/ li = [LFD DVC e] ->
  Forall nonh li /\ Forall nosucc li /\ Forall (about e) li /\
  count_der DExc e li = 0 /\ count_der DFail e li = 0 /\ count_der DSucc e li = 0.
Proof. intros e li [-> | ->]; repeat split; repeat constructor. Qed.

Lemma fb_facts : forall e fl,
  Forall nonh (fb_log fl e) /\ Forall nosucc (fb_log fl e) /\ Forall (about e) (fb_log fl e) /\
  count_der DExc e (fb_log fl e) = 1 /\ count_der DFail e (fb_log fl e) = (if fl then 1 else 0) /\
  count_der DSucc e (fb_log fl e) = 0.
Proof.
  intros e []; unfold fb_log; simpl; rewrite ?Nat.eqb_refl; repeat split; repeat constructor.
Qed.

(* ------------------------------------------------------------------ one plain handler of the dispatcher pass *)

Ltac fa := repeat (apply Forall_app; split); auto.

Lemma plain_unit : forall e i kids r err s,
  e < next s -> nth_error (ev_hs (spec s e)) i = Some (HP kids r) ->
  vpar s e = None -> plain_hdl (HP kids r) = true ->
  exists l, vop e l s (fst (run_handler e i (HP kids r) err s)) /\ Forall nosucc l /\ In (LH e i) l /\
    (VC s e -> VC (fst (run_handler e i (HP kids r) err s)) e) /\
    ((err = true -> verrors (val s e) = true) ->
     snd (run_handler e i (HP kids r) err s) = true ->
     verrors (val (fst (run_handler e i (HP kids r) err s)) e) = true) /\
    (verrors (val s e) = true -> verrors (val (fst (run_handler e i (HP kids r) err s)) e) = true) /\
    vpar (fst (run_handler e i (HP kids r) err s)) = vpar s.
Proof.
  intros e i kids r err s He Hnth Hnp Hpl.
  destruct (enter_vop e (LH e i) kids s He eq_refl) as (lk & Hv1 & Hlk & Hval1 & Hn1).
  set (s2 := fire_all kids (add_log (LH e i) s)) in *.
  assert (He2 : e < next s2) by lia.
  assert (Hc : contrib (spec s) e (LH e i) = match unstop r with RRet v => nonnone v | RRaise => [PErr] | _ => [] end).
  { simpl. now rewrite Nat.eqb_refl, Hnth. }
  assert (Hr : raises (spec s) e (LH e i) = match unstop r with RRaise => true | _ => false end).
  { simpl. now rewrite Nat.eqb_refl, Hnth. }
  pose proof (LF_nonh _ _ Hlk) as Hlk1. pose proof (LF_nosucc _ _ Hlk) as Hlk2.
  pose proof (count_der_LF DExc e _ _ Hlk) as Hlk3. pose proof (count_der_LF DFail e _ _ Hlk) as Hlk4.
  assert (Hp2 : vpar s2 = vpar s) by (unfold s2; now rewrite vpar_fire_all).
  destruct r as [v| |sp|r']; simpl unstop in Hc, Hr; simpl run_handler;
    [| | simpl in Hpl; rewrite andb_false_r in Hpl; discriminate
       | simpl in Hpl; rewrite andb_false_r in Hpl; discriminate].
  - destruct (is_none v) eqn:Hnone; simpl fst; simpl snd; fold s2.
    + (* return None *)
      exists (lk ++ [LH e i]). split; [exact Hv1|]. split; [fa; repeat constructor|].
      split; [apply in_or_app; right; left; reflexivity|]. split; [|split].
      * intros Hvc. destruct (delta_one (spec s) e lk (LH e i) Hlk1) as (a & b).
        eapply VC_step with (l := lk ++ [LH e i]); eauto.
        -- apply (fr_spec _ _ _ _ e (v_fr _ _ _ _ Hv1) He).
        -- apply (f_log _ _ _ _ (v_fr _ _ _ _ Hv1)).
        -- rewrite a, Hc, Hval1. unfold nonnone. now rewrite Hnone.
        -- rewrite a, Hc, Hval1. unfold nonnone. rewrite Hnone. simpl. now rewrite orb_false_r.
        -- rewrite b, Hr, Hval1. simpl. now rewrite orb_false_r.
        -- rewrite b, Hr, count_der_app, Hlk3. reflexivity.
        -- rewrite b, Hr, count_der_app, Hlk4. simpl. now destruct (ev_fail (spec s e)).
      * intros Herr E. rewrite Hval1. auto.
      * split; [rewrite Hval1; auto | exact Hp2].
    + (* return a value *)
      assert (Hrv : is_ref v = false).
      { simpl in Hpl. apply andb_prop in Hpl. destruct Hpl as (_ & Hpl). now apply negb_true_iff in Hpl. }
      destruct (set_value_vop e v s2 He2 Hnone ltac:(rewrite Hp2; exact Hnp) Hrv) as (li & Hv2 & Hli & Hval2 & Hp3).
      destruct (li_facts e li Hli) as (q1 & q2 & q3 & q4 & q5 & q6).
      exists (li ++ lk ++ [LH e i]). split; [eapply vop_trans; eauto|].
      split; [fa; repeat constructor|].
      split; [apply in_or_app; right; apply in_or_app; right; left; reflexivity|]. split; [|split].
      * intros Hvc.
        destruct (delta_one (spec s) e (li ++ lk) (LH e i) ltac:(fa)) as (a & b).
        assert (Hvt : vop e ((li ++ lk) ++ [LH e i]) s (set_value e v s2))
          by (rewrite <- app_assoc; eapply vop_trans; eauto).
        eapply VC_step with (l := (li ++ lk) ++ [LH e i]); eauto.
        -- apply (fr_spec _ _ _ _ e (v_fr _ _ _ _ Hvt) He).
        -- apply (f_log _ _ _ _ (v_fr _ _ _ _ Hvt)).
        -- rewrite a, Hc, Hval2, Hval1. unfold nonnone. rewrite Hnone. simpl. symmetry. apply surjective_pairing.
        -- rewrite a, Hc, Hval2, Hval1. unfold nonnone. rewrite Hnone. simpl. now rewrite Hnone.
        -- rewrite b, Hr, Hval2, Hval1. simpl. now rewrite orb_false_r.
        -- rewrite b, Hr, !count_der_app, Hlk3, q4. reflexivity.
        -- rewrite b, Hr, !count_der_app, Hlk4, q5. simpl. now destruct (ev_fail (spec s e)).
      * intros Herr E. rewrite Hval2, Hval1. simpl. auto.
      * split; [rewrite Hval2, Hval1; simpl; auto | now rewrite Hp3].
  - (* raise *)
    simpl fst; simpl snd; fold s2.
    set (s3 := set_errors e s2).
    assert (Hv3 : vop e [] s2 s3) by apply vop_set_val.
    assert (Hval3 : val s3 e = seterr (val s e)).
    { unfold s3, set_errors. simpl. rewrite upd_same, Hval1. reflexivity. }
    assert (He3 : e < next s3) by (simpl; lia).
    assert (Hsp3 : spec s3 e = spec s e).
    { simpl. apply (fr_spec _ _ _ _ e (v_fr _ _ _ _ Hv1) He). }
    pose proof (ext_raise_feedback e s3) as Hx4. rewrite Hsp3 in Hx4.
    set (s4 := raise_feedback e s3) in *.
    destruct (fb_facts e (ev_fail (spec s e))) as (b1 & b2 & b3 & b4 & b5 & b6).
    assert (Hv4 : vop e (fb_log (ev_fail (spec s e)) e) s3 s4) by (apply vop_ext; auto).
    assert (Hval4 : val s4 e = seterr (val s e)) by (rewrite (ext_val _ _ _ e Hx4 He3); auto).
    assert (He4 : e < next s4) by (pose proof (x_next _ _ _ Hx4); lia).
    assert (Hp4 : vpar s4 = vpar s).
    { unfold s4. rewrite vpar_raise_feedback. unfold s3, set_errors. simpl. exact Hp2. }
    destruct (set_value_vop e PErr s4 He4 eq_refl ltac:(rewrite Hp4; exact Hnp) eq_refl) as (li & Hv5 & Hli & Hval5 & Hp5).
    destruct (li_facts e li Hli) as (q1 & q2 & q3 & q4 & q5 & q6).
    assert (Hvt : vop e (((li ++ fb_log (ev_fail (spec s e)) e) ++ lk) ++ [LH e i]) s (set_value e PErr s4)).
    { rewrite <- !app_assoc.
      eapply vop_trans; [exact He | | exact Hv5].
      eapply vop_trans; [exact He | | exact Hv4].
      change (lk ++ [LH e i]) with ([] ++ lk ++ [LH e i]).
      eapply vop_trans; [exact He | exact Hv1 | exact Hv3]. }
    eexists. split; [exact Hvt|]. split; [fa; repeat constructor|].
    split; [apply in_or_app; right; left; reflexivity|]. split; [|split].
    + intros Hvc.
      destruct (delta_one (spec s) e ((li ++ fb_log (ev_fail (spec s e)) e) ++ lk) (LH e i) ltac:(fa)) as (a & b).
      eapply VC_step; eauto.
      * apply (fr_spec _ _ _ _ e (v_fr _ _ _ _ Hvt) He).
      * apply (f_log _ _ _ _ (v_fr _ _ _ _ Hvt)).
      * rewrite a, Hc, Hval5, Hval4. simpl. symmetry. apply surjective_pairing.
      * rewrite a, Hc, Hval5, Hval4. reflexivity.
      * rewrite b, Hr, Hval5, Hval4. simpl. now rewrite orb_true_r.
      * rewrite b, Hr, !count_der_app, Hlk3, q4, b4. reflexivity.
      * rewrite b, Hr, !count_der_app, Hlk4, q5, b5. simpl. destruct (ev_fail (spec s e)); reflexivity.
    + intros _ _. rewrite Hval5, Hval4. reflexivity.
    + split; [intros _; rewrite Hval5, Hval4; reflexivity | now rewrite Hp5].
Qed.

(* ------------------------------------------------------------------ summaries of handler activity on e *)

Record dsum (e : nat) (l : list entry) (tnew : list task) (s s' : st) : Prop := {
  d_fr : fr e l s s';
  d_nosucc : Forall nosucc l;
  d_phase : phase s' e = phase s e;
  d_tasks : tasks s' = tasks s ++ tnew;
  d_wait : waiting s' e = waiting s e + length tnew;
  d_tev : Forall (fun t => tev t = e) tnew;
  d_vc : VC s e -> VC s' e;
  d_mono : verrors (val s e) = true -> verrors (val s' e) = true
}.

Lemma dsum_trans : forall e l1 l2 t1 t2 s s1 s2,
  e < next s -> dsum e l1 t1 s s1 -> dsum e l2 t2 s1 s2 -> dsum e (l2 ++ l1) (t1 ++ t2) s s2.
Proof.
  intros e l1 l2 t1 t2 s s1 s2 He [a1 a2 a3 a4 a5 a6 a7 a8] [b1 b2 b3 b4 b5 b6 b7 b8]. split; auto.
  - eapply fr_trans; eauto.
  - apply Forall_app; auto.
  - congruence.
  - rewrite b4, a4. now rewrite app_assoc.
  - rewrite b5, a5, app_length. lia.
  - apply Forall_app; auto.
Qed.

Lemma dsum_vop : forall e l s s',
  vop e l s s' -> Forall nosucc l -> (VC s e -> VC s' e) ->
  (verrors (val s e) = true -> verrors (val s' e) = true) -> dsum e l [] s s'.
Proof.
  intros e l s s' [f p w t] Hn Hvc Hm. split; auto; try (now rewrite app_nil_r); try (simpl; lia).
Qed.

Lemma dsum_refl : forall e s, dsum e [] [] s s.
Proof.
  intros. split; auto; try apply fr_refl; try (now rewrite app_nil_r); try (simpl; lia).
Qed.

Lemma VC_same : forall s s' e,
  spec s' e = spec s e -> log s' = log s -> vv (val s' e) = vv (val s e) ->
  vcoll (val s' e) = vcoll (val s e) ->
  vresult (val s' e) = vresult (val s e) -> verrors (val s' e) = verrors (val s e) -> VC s e -> VC s' e.
Proof.
  intros s s' e Hsp Hl H1 H1c H2 H3 [v1 v2 v3 v4 v5]. split; rewrite ?Hl, ?H1, ?H1c, ?H2, ?H3, ?Hsp; auto;
    rewrite ?(produced_sp (spec s) (spec s')), ?(nraised_sp (spec s) (spec s')); auto.
Qed.

Lemma add_task_dsum : forall e i s,
  dsum e [] [{| tev := e; thd := i; tk := 0 |}] s (add_task e i s).
Proof.
  intros. unfold add_task, set_promise. split.
  - split; simpl; auto.
    + intros d Hd Hne. upds. auto.
    + intros d Hd. exfalso. lia.
    + rewrite Nat.sub_diag. simpl. now rewrite app_nil_r.
  - constructor.
  - reflexivity.
  - reflexivity.
  - simpl. rewrite upd_same. lia.
  - repeat constructor.
  - intros Hvc. apply (VC_same s); auto; simpl; rewrite ?upd_same; reflexivity.
  - simpl. now rewrite !upd_same.
Qed.

Lemma plain_stops : forall h, plain_hdl h = true -> stops h = false.
Proof.
  intros [kids r|ys lk gr] H; auto. destruct r; auto. simpl in H. rewrite andb_false_r in H. discriminate.
Qed.

Lemma plain_no_stop : forall hs, forallb plain_hdl hs = true -> existsb stops hs = false.
Proof.
  induction hs as [|h r IH]; intros H; simpl; auto. simpl in H. apply andb_prop in H. destruct H as (H1 & H2).
  now rewrite (plain_stops _ H1), IH.
Qed.

Lemma run_handlers_sum : forall e hs i err s pre,
  e < next s -> ev_hs (spec s e) = pre ++ hs -> length pre = i ->
  vpar s e = None -> forallb plain_hdl hs = true ->
  exists l tnew, dsum e l tnew s (fst (run_handlers e i hs err s)) /\
    ((err = true -> verrors (val s e) = true) ->
     snd (run_handlers e i hs err s) = true -> verrors (val (fst (run_handlers e i hs err s)) e) = true) /\
    vpar (fst (run_handlers e i hs err s)) = vpar s.
Proof.
  intros e hs. induction hs as [|h r IH]; intros i err s pre He Hpre Hlen Hnp Hpl.
  - exists [], []. split; [apply dsum_refl | simpl; auto].
  - assert (Hnth : nth_error (ev_hs (spec s e)) i = Some h).
    { rewrite Hpre, nth_error_app2 by lia. now rewrite <- Hlen, Nat.sub_diag. }
    simpl in Hpl. apply andb_prop in Hpl. destruct Hpl as (Hph & Hpr).
    simpl run_handlers. rewrite (plain_stops _ Hph).
    destruct (run_handler e i h err s) as [s1 err1] eqn:Hrun.
    assert (Hunit : exists l1 t1, dsum e l1 t1 s s1 /\
              ((err = true -> verrors (val s e) = true) -> err1 = true -> verrors (val s1 e) = true) /\
              vpar s1 = vpar s).
    { destruct h as [kids rr | ys lk gr].
      - destruct (plain_unit e i kids rr err s He Hnth Hnp Hph) as (l & Hv & Hn & _ & Hvc & Herr & Hm & Hp).
        rewrite Hrun in *. simpl in *. exists l, []. split; [|split]; auto. now apply dsum_vop.
      - simpl in Hrun. inversion Hrun; subst. eexists _, _. split; [apply add_task_dsum|]. split; [|reflexivity].
        intros Herr E. specialize (Herr E). unfold add_task, set_promise. simpl. now rewrite !upd_same. }
    destruct Hunit as (l1 & t1 & Hd1 & Herr1 & Hp1).
    assert (He1 : e < next s1) by (pose proof (f_next _ _ _ _ (d_fr _ _ _ _ _ Hd1)); lia).
    assert (Hsp1 : spec s1 e = spec s e) by (apply (fr_spec _ _ _ _ e (d_fr _ _ _ _ _ Hd1) He)).
    destruct (IH (S i) err1 s1 (pre ++ [h]) He1) as (l2 & t2 & Hd2 & Herr2 & Hp2); auto.
    { rewrite Hsp1, Hpre, <- app_assoc. reflexivity. }
    { rewrite app_length. simpl. lia. }
    { now rewrite Hp1. }
    exists (l2 ++ l1), (t1 ++ t2). split; [|split].
    + eapply dsum_trans; eauto.
    + intros Herr E. apply Herr2; auto.
    + now rewrite Hp2.
Qed.

(* ------------------------------------------------------------------ _eventDone, observers *)

Lemma vop_refl : forall e s, vop e [] s s.
Proof. intros. split; auto. apply fr_refl. Qed.

Lemma log_all_vop : forall e xs s, e < next s -> Forall (about e) xs -> Forall silent xs -> Forall nosucc xs ->
  exists l, vop e l s (log_all xs s) /\ Forall silent l /\ Forall nosucc l /\ val (log_all xs s) e = val s e.
Proof.
  intros e xs. induction xs as [|x r IH]; intros s He Ha Hs Hn; simpl.
  - exists []. split; [apply vop_refl | auto].
  - inversion Ha; inversion Hs; inversion Hn; subst.
    destruct (IH (add_log x s)) as (l & Hv & Hsl & Hnl & Hval); auto.
    exists (l ++ [x]). split; [|split; [|split]]; auto.
    + eapply vop_trans; [exact He | apply vop_add_log; auto | exact Hv].
    + apply Forall_app; auto.
    + apply Forall_app; auto.
Qed.

Definition succ_log (e : nat) (b : bool) : list entry := if b then [LFD DSucc e] else [].

Lemma event_done_sum : forall e err s,
  e < next s -> (err = true -> verrors (val s e) = true) ->
  fr e (succ_log e (Nat.eqb (waiting s e) 0 && negb (verrors (val s e)) && ev_succ (spec s e)))
     s (event_done e err s) /\
  val (event_done e err s) e = val s e /\
  waiting (event_done e err s) e = waiting s e /\
  tasks (event_done e err s) = tasks s /\
  phase (event_done e err s) e = (if Nat.eqb (waiting s e) 0 then PFin else phase s e).
Proof.
  intros e err s He Herr. unfold event_done. cbv zeta.
  destruct (Nat.eqb (waiting s e) 0) eqn:Hw; rewrite ?andb_true_l, ?andb_false_l.
  - assert (Hc : negb err && negb (verrors (val (set_phase e PFin s) e)) && ev_succ (spec (set_phase e PFin s) e)
                 = negb (verrors (val s e)) && ev_succ (spec s e)).
    { simpl. destruct err; simpl; auto. now rewrite Herr. }
    rewrite Hc. destruct (negb (verrors (val s e)) && ev_succ (spec s e)); unfold succ_log.
    + pose proof (ext_fire_der DSucc e (set_phase e PFin s)) as Hx.
      assert (He' : e < next (set_phase e PFin s)) by (simpl; lia).
      split; [|split; [|split; [|split]]].
      * change [LFD DSucc e] with ([LFD DSucc e] ++ []).
        eapply fr_trans; [exact He | apply fr_set_phase | apply ext_fr; [exact Hx | repeat constructor]].
      * rewrite (ext_val _ _ _ e Hx He'). reflexivity.
      * rewrite (ext_wait _ _ _ e Hx He'). reflexivity.
      * rewrite (x_tasks _ _ _ Hx). reflexivity.
      * rewrite (ext_phase _ _ _ e Hx He'). simpl. now rewrite upd_same.
    + split; [apply fr_set_phase|]. simpl. rewrite upd_same. auto.
  - unfold succ_log. split; [apply fr_refl | auto].
Qed.

(* ------------------------------------------------------------------ the invariant *)

Definition ctasks (d : nat) (ts : list task) : nat := length (filter (fun t => Nat.eqb (tev t) d) ts).
Definition is_fin (p : phaseT) : bool := match p with PFin => true | _ => false end.

Definition lbound (n : nat) (x : entry) : Prop :=
  match x with LH e _ | LG e _ _ | LFD _ e => e < n | _ => True end.

Definition succ_formula (s : st) (d : nat) : bool :=
  is_fin (phase s d) && negb (verrors (val s d)) && ev_succ (spec s d).

(* [PInv None] is the invariant between steps; [PInv (Some e)] is its form while event e is being
   dispatched (e has left the queue but is still marked queued) *)
Record PInv (cur : option nat) (s : st) : Prop := {
  i_q1 : forall d, In d (queue s) -> d < next s /\ phase s d = PQueued;
  i_q2 : NoDup (queue s);
  i_q3 : forall d, d < next s -> Some d <> cur -> phase s d = PQueued -> In d (queue s);
  i_t : forall t, In t (tasks s) -> tev t < next s /\ phase s (tev t) = PActive;
  i_w : forall d, d < next s -> waiting s d = ctasks d (tasks s);
  i_a : forall d, d < next s -> phase s d = PActive -> 0 < waiting s d;
  i_lb : Forall (lbound (next s)) (log s);
  i_vc : forall d, d < next s -> VC s d;
  i_s : forall d, d < next s -> kind s d = KUser ->
        count_der DSucc d (log s) = (if succ_formula s d then 1 else 0);
  i_sl : forall d l1 l2, d < next s -> kind s d = KUser -> log s = l1 ++ LFD DSucc d :: l2 ->
         forall x, In x l1 -> ~ hentry x d
}.
Definition Inv := PInv None.

(* what one step does to the event e it works on *)
Definition ssum (e : nat) (s s' : st) : Prop :=
  exists l0 b,
    fr e (succ_log e b ++ l0) s s' /\ Forall nosucc l0 /\
    (kind s e = KUser -> b = succ_formula s' e) /\
    (VC s e -> VC s' e) /\
    waiting s' e = ctasks e (tasks s') /\
    (forall d, d <> e -> ctasks d (tasks s') = ctasks d (tasks s)) /\
    (forall t, In t (tasks s') -> tev t = e \/ In t (tasks s)) /\
    phase s' e = (if Nat.eqb (waiting s' e) 0 then PFin else PActive).

Lemma nosucc_count : forall d l, Forall nosucc l -> count_der DSucc d l = 0.
Proof.
  induction 1 as [|x l Hx _ IH]; simpl; auto.
  destruct x; auto. destruct k; simpl in *; try contradiction; auto.
Qed.

Lemma about_count : forall k e0 d l, Forall (about e0) l -> d <> e0 -> count_der k d l = 0.
Proof.
  induction 1 as [|x l Hx _ IH]; intros Hne; simpl; auto.
  destruct x; auto. simpl in Hx. subst.
  destruct (Nat.eqb e0 d) eqn:E; [apply Nat.eqb_eq in E; congruence|].
  rewrite andb_false_r. simpl. auto.
Qed.

Lemma succ_log_about : forall e b, Forall (about e) (succ_log e b).
Proof. intros e []; repeat constructor. Qed.

Lemma ctasks_pos : forall d t ts, In t ts -> tev t = d -> 0 < ctasks d ts.
Proof.
  intros d t ts Hin Ht. unfold ctasks.
  assert (In t (filter (fun t => Nat.eqb (tev t) d) ts)).
  { apply filter_In. split; auto. now apply Nat.eqb_eq. }
  destruct (filter _ ts); simpl in *; [contradiction | lia].
Qed.

Lemma in_split_app : forall (x : entry) l a l1 l2,
  l ++ a = l1 ++ x :: l2 -> ~ In x l ->
  exists l1', l1 = l ++ l1' /\ a = l1' ++ x :: l2.
Proof.
  induction l as [|y l IH]; intros a l1 l2 H Hn; simpl in *.
  - exists l1. auto.
  - destruct l1 as [|z l1]; simpl in H; inversion H; subst.
    + exfalso. apply Hn. auto.
    + destruct (IH a l1 l2 H2) as (l1' & -> & ->); [intros Hi; apply Hn; auto|].
      exists l1'. auto.
Qed.

Lemma ctasks_zero : forall d ts, (forall t, In t ts -> tev t <> d) -> ctasks d ts = 0.
Proof.
  intros d ts. unfold ctasks. induction ts as [|t0 ts IH]; intros H; simpl; auto.
  destruct (Nat.eqb (tev t0) d) eqn:E.
  - apply Nat.eqb_eq in E. exfalso. apply (H t0); simpl; auto.
  - apply IH. intros t1 H1. apply H. simpl; auto.
Qed.

Lemma nodup_app : forall (a b : list nat),
  NoDup a -> NoDup b -> (forall x, In x a -> ~ In x b) -> NoDup (a ++ b).
Proof.
  induction a as [|x a IH]; intros b Ha Hb H; simpl; auto.
  inversion Ha; subst. constructor.
  - intros Hi. apply in_app_or in Hi. destruct Hi; [contradiction | apply (H x); simpl; auto].
  - apply IH; auto. intros y Hy. apply H. simpl; auto.
Qed.

Lemma step_inv : forall e s s',
  PInv (Some e) s -> e < next s -> ~ In e (queue s) -> phase s e <> PFin ->
  ssum e s s' -> Inv s'.
Proof.
  intros e s s' [q1 q2 q3 t w a lb vc sc sl] He Hnq Hnf
         (l0 & b & Hfr & Hns & Hb & Hvc & Hw & Hct & Htk & Hph).
  pose proof Hfr as [f1 f2 f3 f4 f5 f6 f7].
  assert (Hab0 : Forall (about e) l0) by (apply Forall_app in f7; tauto).
  assert (Hwpos : forall t0, In t0 (tasks s') -> tev t0 = e -> phase s' e = PActive).
  { intros t0 Hin Ht. rewrite Hph, Hw. pose proof (ctasks_pos e t0 _ Hin Ht).
    destruct (Nat.eqb (ctasks e (tasks s')) 0) eqn:E; auto. apply Nat.eqb_eq in E. lia. }
  split.
  - (* q1 *) intros d Hd. rewrite f5 in Hd. apply in_app_or in Hd. destruct Hd as [Hd|Hd].
    + destruct (q1 d Hd) as (Hlt & Hp). assert (d <> e) by (intros ->; contradiction).
      destruct (f3 d Hlt H) as (_ & _ & Hp'). split; [lia | congruence].
    + apply in_seq in Hd. split; [lia|]. apply f4. lia.
  - (* q2 *) rewrite f5. apply nodup_app; auto; [apply seq_NoDup|].
    intros x Hx Hs. apply in_seq in Hs. destruct (q1 x Hx). lia.
  - (* q3 *) intros d Hd _ Hp. rewrite f5. apply in_or_app.
    destruct (Nat.lt_ge_cases d (next s)) as [Hlt|Hge].
    + left. destruct (Nat.eq_dec d e) as [->|Hne].
      * exfalso. rewrite Hph in Hp. destruct (Nat.eqb (waiting s' e) 0); discriminate.
      * destruct (f3 d Hlt Hne) as (_ & _ & Hp'). apply q3; auto; congruence.
    + right. apply in_seq. lia.
  - (* t *) intros t0 Hin. destruct (Htk t0 Hin) as [Ht|Hold].
    + split; [lia|]. rewrite Ht. eapply Hwpos; eauto.
    + destruct (t t0 Hold) as (Hlt & Hp). split; [lia|].
      destruct (Nat.eq_dec (tev t0) e) as [Ht|Hne]; [rewrite Ht; eapply Hwpos; eauto|].
      destruct (f3 _ Hlt Hne) as (_ & _ & Hp'). congruence.
  - (* w *) intros d Hd. destruct (Nat.eq_dec d e) as [->|Hne]; auto.
    rewrite (Hct d Hne). destruct (Nat.lt_ge_cases d (next s)) as [Hlt|Hge].
    + destruct (f3 d Hlt Hne) as (_ & Hw' & _). rewrite Hw'. auto.
    + destruct (f4 d ltac:(lia)) as (_ & Hw' & _). rewrite Hw'.
      symmetry. apply ctasks_zero. intros t0 Hin Heq. destruct (t t0 Hin). lia.
  - (* a *) intros d Hd Hp. destruct (Nat.eq_dec d e) as [->|Hne].
    + rewrite Hph in Hp. destruct (Nat.eqb (waiting s' e) 0) eqn:E; [discriminate|].
      apply Nat.eqb_neq in E. lia.
    + destruct (Nat.lt_ge_cases d (next s)) as [Hlt|Hge].
      * destruct (f3 d Hlt Hne) as (_ & Hw' & Hp'). rewrite Hw'. apply a; auto. congruence.
      * destruct (f4 d ltac:(lia)) as (Hq & _ & _). congruence.
  - (* lb *) rewrite f6. apply Forall_app. split.
    + eapply Forall_impl; [|exact f7]. intros x Hx. destruct x; simpl in *; subst; auto; lia.
    + eapply Forall_impl; [|exact lb]. intros x Hx. destruct x; simpl in *; auto; lia.
  - (* vc *) intros d Hd. destruct (Nat.eq_dec d e) as [->|Hne]; auto.
    destruct (Nat.lt_ge_cases d (next s)) as [Hlt|Hge].
    + destruct (f3 d Hlt Hne) as (Hv' & _ & _). destruct (f2 d Hlt) as (Hsp & _).
      eapply VC_irrel; eauto.
      eapply Forall_impl; [|exact f7]. intros x Hx. eapply about_irrel; eauto.
    + destruct (f4 d ltac:(lia)) as (_ & _ & Hv').
      assert (Hl : Forall (irrel (spec s') d) (log s')).
      { rewrite f6. apply Forall_app. split.
        - eapply Forall_impl; [|exact f7]. intros x Hx. eapply about_irrel; eauto.
        - eapply Forall_impl; [|exact lb]. intros x Hx.
          destruct x; simpl in Hx; try (apply silent_irrel; exact I);
            apply (about_irrel _ e0); simpl; auto; lia. }
      destruct (irrel_list _ _ _ Hl) as (p1 & p2 & p3 & p4).
      split; rewrite ?Hv', ?p1, ?p2, ?p3, ?p4; simpl; auto. now destruct (ev_fail (spec s' d)).
  - (* s *) intros d Hd Hk. rewrite f6, !count_der_app, (nosucc_count d l0 Hns).
    destruct (Nat.eq_dec d e) as [->|Hne].
    + destruct (f2 e He) as (Hsp & Hk'). rewrite Hk' in Hk. specialize (Hb Hk).
      rewrite (sc e He Hk), <- Hb.
      assert (Hz : succ_formula s e = false)
        by (unfold succ_formula; destruct (phase s e); try congruence; reflexivity).
      rewrite Hz. destruct b; simpl; rewrite ?Nat.eqb_refl; reflexivity.
    + rewrite (about_count DSucc e d _ (succ_log_about e b) Hne). simpl.
      destruct (Nat.lt_ge_cases d (next s)) as [Hlt|Hge].
      * destruct (f3 d Hlt Hne) as (Hv' & _ & Hp'). destruct (f2 d Hlt) as (Hsp & Hk').
        rewrite (sc d Hlt ltac:(congruence)). unfold succ_formula. now rewrite Hv', Hp', Hsp.
      * destruct (f4 d ltac:(lia)) as (Hp' & _ & _). unfold succ_formula. rewrite Hp'. simpl.
        assert (Hz : forall l, Forall (lbound (next s)) l -> count_der DSucc d l = 0).
        { induction 1 as [|x l Hx _ IH]; simpl; auto. destruct x; auto. simpl in Hx.
          destruct (Nat.eqb e0 d) eqn:E; [apply Nat.eqb_eq in E; lia|]. rewrite andb_false_r. auto. }
        apply Hz; auto.
  - (* sl *) intros d l1 l2 Hd Hk Hlog x Hx Hh. rewrite f6 in Hlog.
    destruct (Nat.lt_ge_cases d (next s)) as [Hlt|Hge].
    2:{ (* a new event has no success entry yet *)
      assert (Hin : In (LFD DSucc d) (log s')) by (rewrite f6, Hlog; apply in_or_app; right; left; auto).
      rewrite f6 in Hin. apply in_app_or in Hin. destruct Hin as [Hin|Hin].
      - rewrite Forall_forall in f7. specialize (f7 _ Hin). simpl in f7. lia.
      - rewrite Forall_forall in lb. specialize (lb _ Hin). simpl in lb. lia. }
    destruct (f2 d Hlt) as (Hsp & Hk').
    destruct (Nat.eq_dec d e) as [->|Hne].
    + (* the event worked on: its success entry, if any, is the newest entry *)
      assert (Hz : count_der DSucc e (log s) = 0).
      { rewrite (sc e He ltac:(congruence)). unfold succ_formula.
        destruct (phase s e); try congruence; reflexivity. }
      assert (Hnot : ~ In (LFD DSucc e) (l0 ++ log s)).
      { intros Hi. apply in_app_or in Hi. destruct Hi as [Hi|Hi].
        - rewrite Forall_forall in Hns. apply (Hns _ Hi).
        - clear - Hi Hz. induction (log s) as [|y r IH]; simpl in *; [contradiction|].
          destruct Hi as [->|Hi]; [simpl in Hz; rewrite Nat.eqb_refl in Hz; simpl in Hz; lia|].
          apply IH; auto. destruct y; auto. lia. }
      destruct b; unfold succ_log in Hlog; simpl in Hlog.
      * destruct l1 as [|z l1]; [contradiction|]. simpl in Hlog. inversion Hlog; subst.
        apply Hnot. rewrite H1. apply in_or_app. right. left. auto.
      * apply Hnot. rewrite Hlog. apply in_or_app. right. left. auto.
    + (* another event: the new entries are not about it *)
      rewrite <- app_assoc in Hlog.
      assert (Hnin : ~ In (LFD DSucc d) (succ_log e b ++ l0)).
      { intros Hi. rewrite Forall_forall in f7. specialize (f7 _ Hi). simpl in f7. congruence. }
      rewrite app_assoc in Hlog.
      destruct (in_split_app _ _ _ _ _ Hlog Hnin) as (l1' & -> & Hlog').
      apply in_app_or in Hx. destruct Hx as [Hx|Hx].
      * rewrite Forall_forall in f7. specialize (f7 _ Hx).
        destruct x; simpl in *; try contradiction; congruence.
      * eapply (sl d l1' l2); eauto. congruence.
Qed.

(* ------------------------------------------------------------------ the steps *)

Lemma ctasks_app : forall d a b, ctasks d (a ++ b) = ctasks d a + ctasks d b.
Proof. intros. unfold ctasks. now rewrite filter_app, app_length. Qed.

Lemma ctasks_all : forall e ts, Forall (fun t => tev t = e) ts ->
  ctasks e ts = length ts /\ forall d, d <> e -> ctasks d ts = 0.
Proof.
  induction 1 as [|t ts Ht _ (IH1 & IH2)]; [split; auto|]. unfold ctasks in *. simpl. rewrite Ht.
  rewrite Nat.eqb_refl. simpl. split; [now rewrite IH1|].
  intros d Hne. destruct (Nat.eqb e d) eqn:E; [apply Nat.eqb_eq in E; congruence | auto].
Qed.

Lemma VC_fr_silent : forall e l s s',
  e < next s -> fr e l s s' -> val s' e = val s e -> Forall silent l -> VC s e -> VC s' e.
Proof.
  intros e l s s' He Hfr Hval Hs Hvc. apply (VC_irrel s s' e l); auto.
  - eapply fr_spec; eauto.
  - apply (f_log _ _ _ _ Hfr).
  - eapply Forall_impl; [|exact Hs]. intros x Hx. now apply silent_irrel.
Qed.

Lemma succ_log_silent : forall e b, Forall silent (succ_log e b).
Proof. intros e []; repeat constructor. Qed.

Lemma plain_ev_hs : forall sp, plain_ev sp = forallb plain_hdl (ev_hs sp).
Proof. intros []. reflexivity. Qed.

Lemma forallb_nth : forall A (f : A -> bool) l i x, forallb f l = true -> nth_error l i = Some x -> f x = true.
Proof.
  intros A f l i x H Hn. rewrite forallb_forall in H. apply H. eapply nth_error_In; eauto.
Qed.

Lemma dispatch_user_ssum : forall e s,
  e < next s -> kind s e = KUser -> waiting s e = ctasks e (tasks s) ->
  vpar s e = None -> plain_ev (spec s e) = true ->
  ssum e s (dispatch e s).
Proof.
  intros e s He Hk Hw Hnp Hpl. unfold dispatch. rewrite Hk.
  rewrite plain_ev_hs in Hpl.
  assert (Hns : existsb stops (ev_hs (spec (set_phase e PActive s) e)) = false) by (apply plain_no_stop; exact Hpl).
  rewrite Hns.
  set (s0 := set_phase e PActive s).
  assert (He0 : e < next s0) by (simpl; lia).
  destruct (run_handlers_sum e (ev_hs (spec s0 e)) 0 false s0 [] He0 eq_refl eq_refl Hnp Hpl)
    as (l1 & t1 & Hd1 & Herr1 & _).
  destruct (run_handlers e 0 (ev_hs (spec s0 e)) false s0) as [s1 err] eqn:Hrun. simpl fst in *. simpl snd in *.
  pose proof (d_fr _ _ _ _ _ Hd1) as Hf1.
  assert (He1 : e < next s1) by (pose proof (f_next _ _ _ _ Hf1); lia).
  set (xs := map (LDU e) (observers true (ev_both (spec s1 e)))).
  assert (Hxs : Forall (about e) xs /\ Forall silent xs /\ Forall nosucc xs).
  { unfold xs, observers. destruct (ev_both (spec s1 e)); simpl; repeat split; repeat constructor. }
  destruct Hxs as (x1 & x2 & x3).
  destruct (log_all_vop e xs s1 He1 x1 x2 x3) as (l2 & Hv2 & Hs2 & Hn2 & Hval2).
  set (s2 := log_all xs s1) in *.
  pose proof (v_fr _ _ _ _ Hv2) as Hf2.
  assert (He2 : e < next s2) by (pose proof (f_next _ _ _ _ Hf2); lia).
  assert (Herr2 : err = true -> verrors (val s2 e) = true).
  { intros E. rewrite Hval2. apply Herr1; auto. discriminate. }
  destruct (event_done_sum e err s2 He2 Herr2) as (Hf3 & Hval3 & Hw3 & Ht3 & Hp3).
  set (s' := event_done e err s2) in *.
  set (b := Nat.eqb (waiting s2 e) 0 && negb (verrors (val s2 e)) && ev_succ (spec s2 e)) in *.
  assert (Hf0 : fr e [] s s0) by apply fr_set_phase.
  assert (Hfa : fr e (succ_log e b ++ (l2 ++ l1 ++ [])) s s').
  { eapply fr_trans; [exact He | | exact Hf3].
    eapply fr_trans; [exact He | | exact Hf2].
    eapply fr_trans; [exact He | exact Hf0 | exact Hf1]. }
  assert (Htasks : tasks s' = tasks s ++ t1).
  { rewrite Ht3. rewrite (v_tasks _ _ _ _ Hv2), (d_tasks _ _ _ _ _ Hd1). reflexivity. }
  assert (Hwait : waiting s' e = waiting s e + length t1).
  { rewrite Hw3. rewrite (v_wait _ _ _ _ Hv2), (d_wait _ _ _ _ _ Hd1). reflexivity. }
  destruct (ctasks_all e t1 (d_tev _ _ _ _ _ Hd1)) as (Hc1 & Hc2).
  exists (l2 ++ l1 ++ []), b. split; [exact Hfa|]. split.
  { rewrite app_nil_r. apply Forall_app. split; auto. apply (d_nosucc _ _ _ _ _ Hd1). }
  split.
  { intros _. unfold b, succ_formula. rewrite Hp3, Hval3, (fr_spec _ _ _ _ e Hf3 He2).
    assert (Hp2 : phase s2 e = PActive).
    { rewrite (v_phase _ _ _ _ Hv2), (d_phase _ _ _ _ _ Hd1). simpl. now rewrite upd_same. }
    rewrite Hp2. destruct (Nat.eqb (waiting s2 e) 0); reflexivity. }
  split.
  { intros Hvc. eapply (VC_fr_silent e _ s2 s'); eauto; [apply succ_log_silent|].
    eapply (VC_fr_silent e _ s1 s2); eauto.
    apply (d_vc _ _ _ _ _ Hd1). apply (VC_same s); auto. }
  split; [rewrite Hwait, Htasks, ctasks_app, Hc1, Hw; reflexivity|].
  split; [intros d Hne; rewrite Htasks, ctasks_app, (Hc2 d Hne); lia|].
  split.
  { intros t Hin. rewrite Htasks in Hin. apply in_app_or in Hin. destruct Hin as [Hin|Hin]; auto.
    left. pose proof (d_tev _ _ _ _ _ Hd1) as Ht. rewrite Forall_forall in Ht. auto. }
  rewrite Hp3, Hw3. rewrite (v_phase _ _ _ _ Hv2), (d_phase _ _ _ _ _ Hd1). simpl.
  rewrite upd_same. reflexivity.
Qed.

(* a generator segment that yields: log entry, fired children, optional value *)
Lemma yield_unit : forall e i k kids y s,
  e < next s -> contrib (spec s) e (LG e i k) = nonnone y -> raises (spec s) e (LG e i k) = false ->
  vpar s e = None -> is_ref y = false ->
  let s2 := fire_all kids (add_log (LG e i k) s) in
  let s' := if is_none y then s2 else set_value e y s2 in
  exists l, vop e l s s' /\ Forall nosucc l /\ In (LG e i k) l /\ (VC s e -> VC s' e) /\ vpar s' = vpar s.
Proof.
  intros e i k kids y s He Hc Hr Hnp Hry s2 s'.
  assert (Hp2 : vpar s2 = vpar s) by (unfold s2; now rewrite vpar_fire_all).
  destruct (enter_vop e (LG e i k) kids s He eq_refl) as (lk & Hv1 & Hlk & Hval1 & Hn1).
  fold s2 in Hv1, Hval1, Hn1.
  assert (He2 : e < next s2) by lia.
  pose proof (LF_nonh _ _ Hlk) as Hlk1. pose proof (LF_nosucc _ _ Hlk) as Hlk2.
  pose proof (count_der_LF DExc e _ _ Hlk) as Hlk3. pose proof (count_der_LF DFail e _ _ Hlk) as Hlk4.
  unfold s'. destruct (is_none y) eqn:Hnone.
  - exists (lk ++ [LG e i k]). split; [exact Hv1|]. split; [fa; repeat constructor|].
    split; [apply in_or_app; right; left; reflexivity|].
    split; [|exact Hp2].
    intros Hvc. destruct (delta_one (spec s) e lk (LG e i k) Hlk1) as (a & b).
    eapply VC_step with (l := lk ++ [LG e i k]); eauto.
    + apply (fr_spec _ _ _ _ e (v_fr _ _ _ _ Hv1) He).
    + apply (f_log _ _ _ _ (v_fr _ _ _ _ Hv1)).
    + rewrite a, Hc, Hval1. unfold nonnone. now rewrite Hnone.
    + rewrite a, Hc, Hval1. unfold nonnone. rewrite Hnone. simpl. now rewrite orb_false_r.
    + rewrite b, Hr, Hval1. simpl. now rewrite orb_false_r.
    + rewrite b, Hr, count_der_app, Hlk3. reflexivity.
    + rewrite b, Hr, count_der_app, Hlk4. simpl. now destruct (ev_fail (spec s e)).
  - destruct (set_value_vop e y s2 He2 Hnone ltac:(rewrite Hp2; exact Hnp) Hry) as (li & Hv2 & Hli & Hval2 & Hp3).
    destruct (li_facts e li Hli) as (q1 & q2 & q3 & q4 & q5 & q6).
    exists (li ++ lk ++ [LG e i k]). split; [eapply vop_trans; eauto|].
    split; [fa; repeat constructor|].
    split; [apply in_or_app; right; apply in_or_app; right; left; reflexivity|].
    split; [|now rewrite Hp3].
    intros Hvc.
    destruct (delta_one (spec s) e (li ++ lk) (LG e i k) ltac:(fa)) as (a & b).
    assert (Hvt : vop e ((li ++ lk) ++ [LG e i k]) s (set_value e y s2))
      by (rewrite <- app_assoc; eapply vop_trans; eauto).
    eapply VC_step with (l := (li ++ lk) ++ [LG e i k]); eauto.
    + apply (fr_spec _ _ _ _ e (v_fr _ _ _ _ Hvt) He).
    + apply (f_log _ _ _ _ (v_fr _ _ _ _ Hvt)).
    + rewrite a, Hc, Hval2, Hval1. unfold nonnone. rewrite Hnone. simpl. symmetry. apply surjective_pairing.
    + rewrite a, Hc, Hval2, Hval1. unfold nonnone. rewrite Hnone. simpl. now rewrite Hnone.
    + rewrite b, Hr, Hval2, Hval1. simpl. now rewrite orb_false_r.
    + rewrite b, Hr, !count_der_app, Hlk3, q4. reflexivity.
    + rewrite b, Hr, !count_der_app, Hlk4, q5. simpl. now destruct (ev_fail (spec s e)).
Qed.

(* task list surgery *)
Lemma in_replace_nth : forall (x v : task) p ts, In x (replace_nth p v ts) -> x = v \/ In x ts.
Proof.
  intros x v p ts. revert p. induction ts as [|t ts IH]; intros p H; destruct p; simpl in *;
    try contradiction.
  - destruct H; auto.
  - destruct H; auto. destruct (IH p H); auto.
Qed.
Lemma in_remove_nth : forall (x : task) p ts, In x (remove_nth p ts) -> In x ts.
Proof.
  intros x p ts. revert p. induction ts as [|t ts IH]; intros p H; destruct p; simpl in *;
    try contradiction; auto.
  destruct H; auto. right. eapply IH; eauto.
Qed.
Lemma ctasks_replace_nth : forall d p t v ts,
  nth_error ts p = Some t -> tev v = tev t -> ctasks d (replace_nth p v ts) = ctasks d ts.
Proof.
  intros d p t v ts. revert p. unfold ctasks.
  induction ts as [|t0 ts IH]; intros p Hn Hv; destruct p; simpl in *; try discriminate.
  - inversion Hn; subst. rewrite Hv. destruct (Nat.eqb (tev t) d); reflexivity.
  - destruct (Nat.eqb (tev t0) d); simpl; rewrite (IH p); auto.
Qed.
Lemma ctasks_remove_nth : forall d p t ts,
  nth_error ts p = Some t ->
  ctasks d ts = ctasks d (remove_nth p ts) + (if Nat.eqb (tev t) d then 1 else 0).
Proof.
  intros d p t ts. revert p. unfold ctasks.
  induction ts as [|t0 ts IH]; intros p Hn; destruct p; simpl in *; try discriminate.
  - inversion Hn; subst. destruct (Nat.eqb (tev t) d); simpl; lia.
  - destruct (Nat.eqb (tev t0) d); simpl; rewrite (IH p Hn); lia.
Qed.

Lemma val_set_errors : forall e s, val (set_errors e s) e = seterr (val s e).
Proof. intros. unfold set_errors. simpl. now rewrite upd_same. Qed.

Lemma dispatch_der_ssum : forall e k x a o s,
  e < next s -> kind s e = KDer k x a o -> waiting s e = 0 -> ctasks e (tasks s) = 0 ->
  ssum e s (dispatch e s).
Proof.
  intros e k x a o s He Hk Hw Hc. unfold dispatch. rewrite Hk.
  set (xs := map (LDD k x) (observers a o)).
  assert (Hxs : Forall (about e) xs /\ Forall silent xs /\ Forall nosucc xs).
  { unfold xs, observers. destruct a, o; simpl; repeat split; repeat constructor. }
  destruct Hxs as (x1 & x2 & x3).
  destruct (log_all_vop e xs s He x1 x2 x3) as (l & Hv & Hs & Hn & Hval).
  set (s1 := log_all xs s) in *.
  pose proof (v_fr _ _ _ _ Hv) as Hf.
  assert (He1 : e < next s1) by (pose proof (f_next _ _ _ _ Hf); lia).
  assert (Hfa : fr e ([] ++ l) s (set_phase e PFin s1)).
  { eapply fr_trans; [exact He | exact Hf | apply fr_set_phase]. }
  exists l, false. split; [exact Hfa|]. split; [exact Hn|]. split; [intros E; congruence|].
  split.
  { intros Hvc. eapply (VC_fr_silent e _ s); eauto. }
  simpl. rewrite (v_wait _ _ _ _ Hv), (v_tasks _ _ _ _ Hv), Hw, Hc, upd_same. simpl. auto.
Qed.

Lemma step_task_ssum : forall p t s,
  nth_error (tasks s) p = Some t -> tev t < next s -> phase s (tev t) = PActive ->
  waiting s (tev t) = ctasks (tev t) (tasks s) ->
  vpar s (tev t) = None -> plain_ev (spec s (tev t)) = true ->
  step_task p s = s \/ ssum (tev t) s (step_task p s).
Proof.
  intros p t s Hn He Hph Hw Hnp Hpl. unfold step_task. rewrite Hn. rewrite plain_ev_hs in Hpl.
  set (e := tev t) in *.
  assert (Hpos : 0 < waiting s e).
  { rewrite Hw. eapply ctasks_pos; [eapply nth_error_In; eauto | reflexivity]. }
  destruct (nth_error (ev_hs (spec s e)) (thd t)) as [[kids r | ys lk gr]|] eqn:Hh; auto.
  right.
  assert (Hrm : ctasks e (tasks s) = ctasks e (remove_nth p (tasks s)) + 1).
  { rewrite (ctasks_remove_nth e p t _ Hn). fold e. now rewrite Nat.eqb_refl. }
  assert (Hrm' : forall d, d <> e -> ctasks d (remove_nth p (tasks s)) = ctasks d (tasks s)).
  { intros d Hne. rewrite (ctasks_remove_nth d p t _ Hn). fold e.
    destruct (Nat.eqb e d) eqn:E; [apply Nat.eqb_eq in E; congruence | lia]. }
  destruct (nth_error ys (tk t)) as [[kids y]|] eqn:Hy.
  - (* a yielding segment *)
    assert (Hc : contrib (spec s) e (LG e (thd t) (tk t)) = nonnone y)
      by (simpl; now rewrite Nat.eqb_refl, Hh, Hy).
    assert (Hr : raises (spec s) e (LG e (thd t) (tk t)) = false)
      by (simpl; now rewrite Nat.eqb_refl, Hh, Hy).
    assert (Hry : is_ref y = false).
    { pose proof (forallb_nth _ _ _ _ _ Hpl Hh) as H1. simpl in H1. apply andb_prop in H1. destruct H1 as (H1 & _).
      pose proof (forallb_nth _ _ _ _ _ H1 Hy) as H2. simpl in H2. apply andb_prop in H2.
      destruct H2 as (_ & H2). now apply negb_true_iff in H2. }
    destruct (yield_unit e (thd t) (tk t) kids y s He Hc Hr Hnp Hry) as (l & Hv & Hns & _ & Hvc & _).
    cbv zeta in Hv, Hvc.
    set (s3 := if is_none y then fire_all kids (add_log (LG e (thd t) (tk t)) s)
               else set_value e y (fire_all kids (add_log (LG e (thd t) (tk t)) s))) in *.
    set (t' := {| tev := e; thd := thd t; tk := S (tk t) |}).
    exists l, false. simpl succ_log. simpl app.
    rewrite (v_tasks _ _ _ _ Hv).
    split.
    { rewrite <- (app_nil_l l). eapply fr_trans; [exact He | apply (v_fr _ _ _ _ Hv) | apply fr_set_tasks]. }
    split; [exact Hns|]. simpl.
    rewrite (v_phase _ _ _ _ Hv), (v_wait _ _ _ _ Hv), Hph.
    split.
    { intros _. unfold succ_formula. simpl. rewrite (v_phase _ _ _ _ Hv), Hph. reflexivity. }
    split.
    { intros H. apply Hvc in H. destruct H as [v1 v2 v3 v4 v5]. split; simpl; auto. }
    split; [rewrite (ctasks_replace_nth e p t t' _ Hn eq_refl); exact Hw|].
    split; [intros d _; apply (ctasks_replace_nth d p t t' _ Hn eq_refl)|].
    split.
    { intros t0 Hin. apply in_replace_nth in Hin. destruct Hin as [->|Hin]; auto. }
    destruct (Nat.eqb (waiting s e) 0) eqn:E; auto. apply Nat.eqb_eq in E. lia.
  - (* the terminal segment *)
    destruct gr.
    + (* ... raises *)
      destruct (enter_vop e (LG e (thd t) (tk t)) lk s He eq_refl) as (lk' & Hv1 & Hlk & Hval1 & Hn1).
      set (s2 := fire_all lk (add_log (LG e (thd t) (tk t)) s)) in *.
      assert (He2 : e < next s2) by lia.
      pose proof (v_fr _ _ _ _ Hv1) as F1.
      unfold task_raise.
      set (s3 := set_tasks (remove_nth p (tasks s2)) s2).
      assert (He3 : e < next s3) by (simpl; lia).
      assert (Hnp3 : vpar s3 e = None).
      { change (vpar s3) with (vpar s2). unfold s2. now rewrite vpar_fire_all. }
      destruct (set_value_vop e PErr s3 He3 eq_refl Hnp3 eq_refl) as (li1 & Hv4 & Hli1 & Hval4 & _).
      set (s4 := set_value e PErr s3) in *.
      pose proof (v_fr _ _ _ _ Hv4) as F4.
      assert (He4 : e < next s4) by (pose proof (f_next _ _ _ _ F4); lia).
      set (s5 := set_errors e s4).
      assert (He5 : e < next s5) by (simpl; lia).
      destruct (inform_vop true e s5 He5) as (li2 & Hv6 & Hli2 & Hval6).
      set (s6 := inform true e s5) in *.
      pose proof (v_fr _ _ _ _ Hv6) as F6.
      assert (He6 : e < next s6) by (pose proof (f_next _ _ _ _ F6); lia).
      pose proof (ext_raise_feedback e s6) as X7.
      set (s7 := raise_feedback e s6) in *.
      assert (He7 : e < next s7) by (pose proof (x_next _ _ _ X7); lia).
      assert (Hsp6 : spec s6 e = spec s e).
      { rewrite (fr_spec _ _ _ _ e F6 He5). change (spec s5 e) with (spec s4 e).
        rewrite (fr_spec _ _ _ _ e F4 He3). change (spec s3 e) with (spec s2 e).
        apply (fr_spec _ _ _ _ e F1 He). }
      rewrite Hsp6 in X7. set (fb := fb_log (ev_fail (spec s e)) e) in *.
      destruct (fb_facts e (ev_fail (spec s e))) as (b1 & b2 & b3 & b4 & b5 & b6). fold fb in b1, b2, b3, b4, b5, b6.
      destruct (li_facts e li1 Hli1) as (p1 & p2 & p3 & p4 & p5 & p6).
      destruct (li_facts e li2 Hli2) as (q1 & q2 & q3 & q4 & q5 & q6).
      set (s8 := set_wait e (pred (waiting s7 e)) s7).
      assert (He8 : e < next s8) by exact He7.
      assert (Hval8 : val s8 e = seterr (setv (val s e) PErr)).
      { change (val s8 e) with (val s7 e). rewrite (ext_val _ _ _ e X7 He6), Hval6.
        unfold s5. rewrite val_set_errors, Hval4. change (val s3 e) with (val s2 e).
        rewrite Hval1. reflexivity. }
      assert (Herr8 : true = true -> verrors (val s8 e) = true) by (intros _; rewrite Hval8; reflexivity).
      destruct (event_done_sum e true s8 He8 Herr8) as (F9 & Hval9 & Hw9 & Ht9 & Hp9).
      set (s' := event_done e true s8) in *.
      assert (Hcond : Nat.eqb (waiting s8 e) 0 && negb (verrors (val s8 e)) && ev_succ (spec s8 e) = false).
      { rewrite Hval8. simpl. now rewrite andb_false_r. }
      rewrite Hcond in F9.
      assert (Hw8 : waiting s8 e = pred (waiting s e)).
      { change (waiting s8 e) with (upd (waiting s7) e (pred (waiting s7 e)) e).
        rewrite upd_same, (ext_wait _ _ _ e X7 He6), (v_wait _ _ _ _ Hv6).
        change (waiting s5 e) with (waiting s4 e). rewrite (v_wait _ _ _ _ Hv4).
        change (waiting s3 e) with (waiting s2 e). rewrite (v_wait _ _ _ _ Hv1). reflexivity. }
      assert (Ht8 : tasks s8 = remove_nth p (tasks s)).
      { change (tasks s8) with (tasks s7). rewrite (x_tasks _ _ _ X7), (v_tasks _ _ _ _ Hv6).
        change (tasks s5) with (tasks s4). rewrite (v_tasks _ _ _ _ Hv4).
        change (tasks s3) with (remove_nth p (tasks s2)). rewrite (v_tasks _ _ _ _ Hv1). reflexivity. }
      assert (Hp8 : phase s8 e = PActive).
      { change (phase s8 e) with (phase s7 e). rewrite (ext_phase _ _ _ e X7 He6), (v_phase _ _ _ _ Hv6).
        change (phase s5 e) with (phase s4 e). rewrite (v_phase _ _ _ _ Hv4).
        change (phase s3 e) with (phase s2 e). rewrite (v_phase _ _ _ _ Hv1). exact Hph. }
      set (A := fb ++ li2 ++ li1 ++ lk').
      assert (Fa : fr e (A ++ [LG e (thd t) (tk t)]) s s').
      { unfold A. rewrite <- !app_assoc.
        change (fb ++ li2 ++ li1 ++ lk' ++ [LG e (thd t) (tk t)])
          with (succ_log e false ++ [] ++ fb ++ li2 ++ [] ++ li1 ++ [] ++ lk' ++ [LG e (thd t) (tk t)]).
        eapply fr_trans; [exact He | | exact F9].
        eapply fr_trans; [exact He | | apply fr_set_wait].
        eapply fr_trans; [exact He | | apply ext_fr; [exact X7 | exact b3]].
        eapply fr_trans; [exact He | | exact F6].
        eapply fr_trans; [exact He | | apply fr_set_val].
        eapply fr_trans; [exact He | | exact F4].
        eapply fr_trans; [exact He | exact F1 | apply fr_set_tasks]. }
      pose proof (LF_nonh _ _ Hlk) as Hlk1. pose proof (LF_nosucc _ _ Hlk) as Hlk2.
      pose proof (count_der_LF DExc e _ _ Hlk) as Hlk3. pose proof (count_der_LF DFail e _ _ Hlk) as Hlk4.
      exists (A ++ [LG e (thd t) (tk t)]), false. split; [exact Fa|].
      split; [unfold A; fa; repeat constructor|].
      split.
      { intros _. unfold succ_formula. rewrite Hval9, Hval8. simpl. now rewrite andb_false_r. }
      split.
      { intros Hvc.
        destruct (delta_one (spec s) e A (LG e (thd t) (tk t)) ltac:(unfold A; fa)) as (a & b).
        assert (Hc : contrib (spec s) e (LG e (thd t) (tk t)) = [PErr])
          by (simpl; now rewrite Nat.eqb_refl, Hh, Hy).
        assert (Hr : raises (spec s) e (LG e (thd t) (tk t)) = true)
          by (simpl; now rewrite Nat.eqb_refl, Hh, Hy).
        eapply VC_step with (l := A ++ [LG e (thd t) (tk t)]); eauto.
        - apply (fr_spec _ _ _ _ e Fa He).
        - apply (f_log _ _ _ _ Fa).
        - rewrite a, Hc, Hval9, Hval8. simpl. symmetry. apply surjective_pairing.
        - rewrite a, Hc, Hval9, Hval8. reflexivity.
        - rewrite b, Hr, Hval9, Hval8. simpl. now rewrite orb_true_r.
        - rewrite b, Hr. unfold A. rewrite !count_der_app, Hlk3, p4, q4, b4. reflexivity.
        - rewrite b, Hr. unfold A. rewrite !count_der_app, Hlk4, p5, q5, b5. simpl.
          destruct (ev_fail (spec s e)); reflexivity. }
      rewrite Hp9, Hp8, Hw9, Ht9, Ht8, Hw8.
      split; [lia|]. split; [exact Hrm'|].
      split; [intros t0 Hin; right; eapply in_remove_nth; eauto|]. reflexivity.
    + (* ... returns *)
      assert (Hc : contrib (spec s) e (LG e (thd t) (tk t)) = nonnone PNone)
        by (simpl; now rewrite Nat.eqb_refl, Hh, Hy).
      assert (Hr : raises (spec s) e (LG e (thd t) (tk t)) = false)
        by (simpl; now rewrite Nat.eqb_refl, Hh, Hy).
      destruct (yield_unit e (thd t) (tk t) lk PNone s He Hc Hr Hnp eq_refl) as (l & Hv & Hns & _ & Hvc & _).
      cbv zeta in Hv, Hvc. simpl is_none in Hv, Hvc. cbv iota in Hv, Hvc.
      set (s2 := fire_all lk (add_log (LG e (thd t) (tk t)) s)) in *.
      pose proof (v_fr _ _ _ _ Hv) as F1.
      assert (He2 : e < next s2) by (pose proof (f_next _ _ _ _ F1); lia).
      unfold task_stop.
      set (s3 := set_tasks (remove_nth p (tasks s2)) (set_wait e (pred (waiting s2 e)) s2)).
      assert (He3 : e < next s3) by (simpl; lia).
      assert (F3 : fr e l s s3).
      { rewrite <- (app_nil_l l). eapply fr_trans; [exact He | exact F1 |].
        change (@nil entry) with (@nil entry ++ []).
        eapply fr_trans; [exact He2 | apply fr_set_wait | apply fr_set_tasks]. }
      assert (Hw3 : waiting s3 e = pred (waiting s e)).
      { simpl. rewrite upd_same, (v_wait _ _ _ _ Hv). reflexivity. }
      assert (Ht3 : tasks s3 = remove_nth p (tasks s)).
      { simpl. rewrite (v_tasks _ _ _ _ Hv). reflexivity. }
      assert (Hp3 : phase s3 e = PActive).
      { simpl. rewrite (v_phase _ _ _ _ Hv). exact Hph. }
      assert (Hvc3 : VC s e -> VC s3 e).
      { intros H. apply Hvc in H. destruct H as [v1 v2 v3 v4 v5]. split; simpl; auto. }
      assert (Hval3 : val s3 e = val s2 e) by reflexivity.
      fold s3.
      destruct (Nat.eqb (waiting s3 e) 0) eqn:E.
      * destruct (inform_vop true e s3 He3) as (li & Hv4 & Hli & Hval4).
        set (s4 := inform true e s3) in *.
        pose proof (v_fr _ _ _ _ Hv4) as F4.
        assert (He4 : e < next s4) by (pose proof (f_next _ _ _ _ F4); lia).
        destruct (li_facts e li Hli) as (q1 & q2 & q3 & q4 & q5 & q6).
        destruct (event_done_sum e false s4 He4 ltac:(discriminate)) as (F5 & Hval5 & Hw5 & Ht5 & Hp5).
        set (s' := event_done e false s4) in *.
        assert (Hw4 : waiting s4 e = 0).
        { rewrite (v_wait _ _ _ _ Hv4). now apply Nat.eqb_eq. }
        rewrite Hw4 in Hp5, F5. simpl Nat.eqb in Hp5, F5. rewrite andb_true_l in F5.
        set (b := negb (verrors (val s4 e)) && ev_succ (spec s4 e)) in *.
        exists (li ++ l), b. split.
        { eapply fr_trans; [exact He | | exact F5]. eapply fr_trans; [exact He | exact F3 | exact F4]. }
        split; [fa|].
        split.
        { intros _. unfold b, succ_formula. rewrite Hp5, Hval5, (fr_spec _ _ _ _ e F5 He4). reflexivity. }
        split.
        { intros H. eapply (VC_fr_silent e _ s4 s'); eauto; [apply succ_log_silent|].
          eapply (VC_fr_silent e _ s3 s4); eauto.
          destruct Hli as [-> | ->]; repeat constructor. }
        rewrite Hw5, Hw4, Ht5, (v_tasks _ _ _ _ Hv4), Ht3, Hp5.
        apply Nat.eqb_eq in E. rewrite Hw3 in E.
        split; [lia|]. split; [exact Hrm'|].
        split; [intros t0 Hin; right; eapply in_remove_nth; eauto|]. reflexivity.
      * exists l, false. split; [exact F3|]. split; [exact Hns|].
        split.
        { intros _. unfold succ_formula. rewrite Hp3. reflexivity. }
        split; [exact Hvc3|].
        rewrite Ht3, Hp3, E. apply Nat.eqb_neq in E. rewrite Hw3 in *.
        split; [lia|]. split; [exact Hrm'|].
        split; [intros t0 Hin; right; eapply in_remove_nth; eauto|]. reflexivity.
Qed.

(* ------------------------------------------------------------------ the invariant holds in every reachable state *)

Lemma inv_start : forall roots, Inv (start roots).
Proof.
  intros roots. unfold start.
  destruct (ext_fire_all roots init) as (l & [x1 x2 x3 x4 x5 x6] & Hl).
  set (s := fire_all roots init) in *. simpl in x1, x3, x4, x5, x6.
  rewrite Nat.sub_0_r in x5. rewrite app_nil_r in x6.
  pose proof (LF_nonh _ _ Hl) as Hnh.
  split.
  - intros d Hd. rewrite x5 in Hd. apply in_seq in Hd. split; [lia|]. apply x3. lia.
  - rewrite x5. apply seq_NoDup.
  - intros d Hd _ _. rewrite x5. apply in_seq. lia.
  - intros t Hin. rewrite x4 in Hin. contradiction.
  - intros d Hd. rewrite x4. destruct (x3 d ltac:(lia)) as (_ & Hw & _). rewrite Hw. reflexivity.
  - intros d Hd Hp. destruct (x3 d ltac:(lia)) as (Hq & _ & _). congruence.
  - rewrite x6. eapply Forall_impl; [|exact Hl]. intros x (d & -> & _). exact I.
  - intros d Hd. destruct (x3 d ltac:(lia)) as (_ & _ & Hv).
    destruct (nonh_list (spec s) d l Hnh) as (a & b).
    split; rewrite ?Hv, x6, ?a, ?b, ?(count_der_LF _ _ _ _ Hl); simpl; auto.
    now destruct (ev_fail (spec s d)).
  - intros d Hd Hk. rewrite x6, (count_der_LF _ _ _ _ Hl). unfold succ_formula.
    destruct (x3 d ltac:(lia)) as (Hq & _ & _). now rewrite Hq.
  - intros d l1 l2 Hd Hk Hlog. exfalso. rewrite x6 in Hlog.
    rewrite Forall_forall in Hl. destruct (Hl (LFD DSucc d)) as (d' & Hx & _); [|discriminate].
    rewrite Hlog. apply in_or_app. right. left. reflexivity.
Qed.

(* ------------------------------------------------------------------ programs of the original grammar stay in it *)

(* no Value has a parent link and every event's script is plain (no nested-Value returns) *)
Definition OKs (s : st) : Prop := (forall d, vpar s d = None) /\ (forall d, plain_ev (spec s d) = true).

Lemma oks_alloc : forall k sp s, OKs s -> plain_ev sp = true -> OKs (alloc k sp s).
Proof.
  intros k sp s (H1 & H2) Hp. split; simpl; auto.
  intros d. unfold upd. destruct (Nat.eqb d (next s)); auto.
Qed.
Lemma oks_fire_all : forall kids s, OKs s -> forallb plain_ev kids = true -> OKs (fire_all kids s).
Proof.
  induction kids as [|sp r IH]; intros s H Hp; simpl; auto.
  simpl in Hp. apply andb_prop in Hp. destruct Hp as (Hp1 & Hp2).
  apply IH; auto. unfold fire_user. apply oks_alloc; auto.
Qed.
Lemma oks_fire_der : forall k e s, OKs s -> OKs (fire_der k e s).
Proof. intros. unfold fire_der. destruct (der_chans k (spec s e)). apply oks_alloc; auto. Qed.
Lemma oks_inform : forall f e s, OKs s -> OKs (inform f e s).
Proof.
  intros. unfold inform. destruct (vpromise (val s e) && negb f); auto.
  destruct (ev_notify (spec s e)); auto using oks_fire_der.
Qed.
Lemma oks_raise_feedback : forall e s, OKs s -> OKs (raise_feedback e s).
Proof.
  intros. unfold raise_feedback. apply oks_fire_der. destruct (ev_fail (spec s e)); auto using oks_fire_der.
Qed.
Lemma oks_event_done : forall e err s, OKs s -> OKs (event_done e err s).
Proof.
  intros. unfold event_done. destruct (Nat.eqb (waiting s e) 0); auto. cbv zeta.
  match goal with |- context [if ?c then _ else _] => destruct c end; auto.
  apply oks_fire_der. exact H.
Qed.
Lemma oks_log_all : forall xs s, OKs s -> OKs (log_all xs s).
Proof. induction xs as [|x r IH]; intros s H; simpl; auto. Qed.
Lemma oks_set_value : forall e x s, OKs s -> is_ref x = false -> OKs (set_value e x s).
Proof.
  intros e x s H Hx. rewrite set_value_eq; auto; [|apply H]. unfold set_value_local.
  destruct (is_none x); [exact H|]. apply oks_inform. exact H.
Qed.

Lemma oks_run_handler : forall e i h err s,
  OKs s -> plain_hdl h = true -> OKs (fst (run_handler e i h err s)).
Proof.
  intros e i h err s H Hp. destruct h as [kids r | ys lk gr]; simpl.
  - simpl in Hp. apply andb_prop in Hp. destruct Hp as (Hk & Hr).
    assert (H1 : OKs (fire_all kids (add_log (LH e i) s))) by (apply oks_fire_all; auto).
    destruct r as [v| |sp|r']; simpl; try discriminate.
    + destruct (is_none v); auto. apply oks_set_value; auto. now apply negb_true_iff in Hr.
    + apply oks_set_value; auto. apply oks_raise_feedback. exact H1.
  - exact H.
Qed.

Lemma oks_run_handlers : forall e hs i err s,
  OKs s -> forallb plain_hdl hs = true -> OKs (fst (run_handlers e i hs err s)).
Proof.
  intros e hs. induction hs as [|h r IH]; intros i err s H Hp; simpl; auto.
  simpl in Hp. apply andb_prop in Hp. destruct Hp as (Hp1 & Hp2).
  pose proof (oks_run_handler e i h err s H Hp1) as H1.
  destruct (run_handler e i h err s) as [s1 err1]. simpl in *. rewrite (plain_stops _ Hp1). apply IH; auto.
Qed.

Lemma oks_dispatch : forall e s, OKs s -> OKs (dispatch e s).
Proof.
  intros e s H. unfold dispatch. destruct (kind s e).
  - set (s0 := set_phase e PActive s).
    assert (H0 : OKs s0) by exact H.
    assert (Hp : forallb plain_hdl (ev_hs (spec s0 e)) = true) by (rewrite <- plain_ev_hs; apply H0).
    pose proof (oks_run_handlers e _ 0 false s0 H0 Hp) as H1.
    destruct (run_handlers e 0 (ev_hs (spec s0 e)) false s0) as [s1 err]. simpl in H1.
    apply oks_event_done. apply oks_log_all. exact H1.
  - assert (H1 : OKs (log_all (map (LDD k of) (observers toApp toOther)) s)) by (apply oks_log_all; exact H).
    exact H1.
Qed.

Lemma oks_task_stop : forall p e s, OKs s -> OKs (task_stop p e s).
Proof.
  intros p e s H. unfold task_stop. cbv zeta.
  match goal with |- context [if ?c then _ else _] => destruct c end; [|exact H].
  apply oks_event_done. apply oks_inform. exact H.
Qed.
Lemma oks_task_raise : forall p e s, OKs s -> OKs (task_raise p e s).
Proof.
  intros p e s H. unfold task_raise. cbv zeta. apply oks_event_done.
  assert (H1 : OKs (set_value e PErr (set_tasks (remove_nth p (tasks s)) s))) by (apply oks_set_value; auto; exact H).
  assert (H2 : OKs (inform true e (set_errors e (set_value e PErr (set_tasks (remove_nth p (tasks s)) s)))))
    by (apply oks_inform; exact H1).
  exact (oks_raise_feedback e _ H2).
Qed.

Lemma oks_step : forall lb s, OKs s -> OKs (step lb s).
Proof.
  intros lb s H. destruct lb as [|p]; simpl.
  - destruct (queue s) as [|e q]; auto. apply oks_dispatch. exact H.
  - unfold step_task. destruct (nth_error (tasks s) p) as [t|]; auto.
    destruct (nth_error (ev_hs (spec s (tev t))) (thd t)) as [[kids r | ys lk gr]|] eqn:Hh; auto.
    assert (Hp : plain_hdl (HG ys lk gr) = true).
    { eapply forallb_nth; [|exact Hh]. rewrite <- plain_ev_hs. apply H. }
    simpl in Hp. apply andb_prop in Hp. destruct Hp as (Hys & Hlk).
    destruct (nth_error ys (tk t)) as [[kids y]|] eqn:Hy.
    + pose proof (forallb_nth _ _ _ _ _ Hys Hy) as Hs. simpl in Hs. apply andb_prop in Hs. destruct Hs as (Hk & Hr).
      assert (H1 : OKs (fire_all kids (add_log (LG (tev t) (thd t) (tk t)) s))) by (apply oks_fire_all; auto).
      destruct (is_none y); [exact H1|].
      assert (H2 : OKs (set_value (tev t) y (fire_all kids (add_log (LG (tev t) (thd t) (tk t)) s))))
        by (apply oks_set_value; auto; now apply negb_true_iff in Hr).
      exact H2.
    + assert (H1 : OKs (fire_all lk (add_log (LG (tev t) (thd t) (tk t)) s))) by (apply oks_fire_all; auto).
      destruct gr; [apply oks_task_raise | apply oks_task_stop]; exact H1.
Qed.

Lemma oks_start : forall roots, forallb plain_ev roots = true -> OKs (start roots).
Proof. intros roots H. unfold start. apply oks_fire_all; auto. split; reflexivity. Qed.

Lemma inv_step : forall lb s, OKs s -> Inv s -> Inv (step lb s).
Proof.
  intros lb s (Hnp & Hsp) HI. pose proof HI as [q1 q2 q3 t w a lbd vc sc sl]. destruct lb as [|p]; simpl.
  - destruct (queue s) as [|e q] eqn:Hq; auto.
    assert (He : e < next s /\ phase s e = PQueued) by (apply q1; simpl; auto).
    destruct He as (He & Hpe). inversion q2; subst.
    set (s0 := set_queue q s).
    assert (HP : PInv (Some e) s0).
    { split; simpl; auto.
      - intros d Hd. apply q1. simpl; auto.
      - intros d Hd Hne Hp. destruct (q3 d Hd ltac:(discriminate) Hp) as [->|]; auto. congruence.
      - intros d Hd. apply (VC_same s); auto. }
    apply (step_inv e s0); auto; try (simpl; congruence).
    assert (Hz : ctasks e (tasks s) = 0).
    { apply ctasks_zero. intros t0 Hin Heq. destruct (t t0 Hin) as (_ & Hp). congruence. }
    destruct (kind s e) eqn:Hk.
    + apply dispatch_user_ssum; auto; simpl; auto.
    + eapply dispatch_der_ssum; simpl; eauto. rewrite (w e He). exact Hz.
  - destruct (nth_error (tasks s) p) as [t0|] eqn:Hn.
    2:{ unfold step_task. now rewrite Hn. }
    destruct (t t0 (nth_error_In _ _ Hn)) as (He & Hp).
    destruct (step_task_ssum p t0 s Hn He Hp (w _ He) (Hnp _) (Hsp _)) as [-> | Hs]; auto.
    apply (step_inv (tev t0) s); auto.
    + split; auto. intros d Hd _ Hpd. apply q3; auto. discriminate.
    + intros Hin. destruct (q1 _ Hin). congruence.
    + congruence.
Qed.

Lemma inv_exec : forall ls s, OKs s -> Inv s -> OKs (exec ls s) /\ Inv (exec ls s).
Proof.
  induction ls as [|lb ls IH]; intros s H0 H; simpl; auto. apply IH; [now apply oks_step | now apply inv_step].
Qed.

Theorem reachable_inv : forall s, reachable_plain s -> Inv s.
Proof. intros s (roots & ls & Hp & ->). apply inv_exec; [now apply oks_start | apply inv_start]. Qed.

(* ------------------------------------------------------------------ the property theorems *)

(* the Value of every event always holds what Value.setValue makes of the results produced so far
   (in production order), its errors flag says whether a handler has raised *)
Theorem value_tracks : forall s e, reachable_plain s -> e < next s ->
  vv (val s e) = accum (produced (spec s) e (log s)) /\
  vresult (val s e) = nonempty (produced (spec s) e (log s)) /\
  verrors (val s e) = (0 <? nraised (spec s) e (log s)).
Proof.
  intros s e Hr He. destruct (i_vc _ _ (reachable_inv s Hr) e He) as [v1 v2 v3 _ _].
  unfold accum. rewrite <- v1. auto.
Qed.

(* full strength: none / the single result stored as such (also when it is a list) / the list of the
   results in production order; the Value is collecting iff there are several *)
Theorem value_packed : forall s e, reachable_plain s -> e < next s ->
  vv (val s e) = pack (produced (spec s) e (log s)) /\
  vcoll (val s e) = (match produced (spec s) e (log s) with _ :: _ :: _ => true | _ => false end).
Proof.
  intros s e Hr He. destruct (i_vc _ _ (reachable_inv s Hr) e He) as [v1 _ _ _ _].
  rewrite (accum_from_pack _ (produced_no_none (spec s) e (log s))) in v1. inversion v1. auto.
Qed.

(* one exception event per raise; one <name>_failure per raise iff failure feedback was requested *)
Theorem feedback_counts : forall s e, reachable_plain s -> e < next s ->
  count_der DExc e (log s) = nraised (spec s) e (log s) /\
  count_der DFail e (log s) = (if ev_fail (spec s e) then nraised (spec s) e (log s) else 0).
Proof. intros s e Hr He. destruct (i_vc _ _ (reachable_inv s Hr) e He). auto. Qed.

(* <name>_success: exactly once iff the event has finished, asked for it and no handler raised *)
Theorem success_count : forall s e, reachable_plain s -> e < next s -> kind s e = KUser ->
  count_der DSucc e (log s) =
  (if is_fin (phase s e) && Nat.eqb (nraised (spec s) e (log s)) 0 && ev_succ (spec s e) then 1 else 0).
Proof.
  intros s e Hr He Hk. pose proof (reachable_inv s Hr) as HI.
  rewrite (i_s _ _ HI e He Hk). unfold succ_formula.
  destruct (i_vc _ _ HI e He) as [_ _ v3 _ _]. rewrite v3.
  destruct (nraised (spec s) e (log s)); reflexivity.
Qed.

(* ... and no handler activity of the event follows it *)
Theorem success_last : forall s e l1 l2, reachable_plain s -> e < next s -> kind s e = KUser ->
  log s = l1 ++ LFD DSucc e :: l2 -> forall x, In x l1 -> ~ hentry x e.
Proof. intros s e l1 l2 Hr He Hk. apply (i_sl _ _ (reachable_inv s Hr)); auto. Qed.

(* nothing is lost or stuck: once queue and task set are empty every event that was ever fired
   (also by handlers that raised, also the feedback events) has been dispatched and has finished *)
Theorem progress : forall s, reachable_plain s -> quiet s = true ->
  forall d, d < next s -> phase s d = PFin /\ waiting s d = 0.
Proof.
  intros s Hr Hq d Hd. pose proof (reachable_inv s Hr) as HI.
  unfold quiet in Hq. destruct (queue s) eqn:Eq; [|discriminate]. destruct (tasks s) eqn:Et; [|discriminate].
  assert (Hw : waiting s d = 0) by (rewrite (i_w _ _ HI d Hd), Et; reflexivity).
  split; auto. destruct (phase s d) eqn:Ep; auto.
  - pose proof (i_q3 _ _ HI d Hd ltac:(discriminate) Ep) as Hin. rewrite Eq in Hin. contradiction.
  - pose proof (i_a _ _ HI d Hd Ep). lia.
Qed.

(* ------------------------------------------------------------------ a raise does not end the dispatcher pass *)

Lemma run_handlers_all : forall e hs i err s pre,
  e < next s -> ev_hs (spec s e) = pre ++ hs -> length pre = i ->
  vpar s e = None -> forallb plain_hdl hs = true ->
  forall j h, nth_error hs j = Some h ->
  match h with
  | HP _ _ => In (LH e (i + j)) (log (fst (run_handlers e i hs err s)))
  | HG _ _ _ => In {| tev := e; thd := i + j; tk := 0 |} (tasks (fst (run_handlers e i hs err s)))
  end.
Proof.
  intros e hs. induction hs as [|h0 r IH]; intros i err s pre He Hpre Hlen Hnp Hpl j h Hj.
  - destruct j; discriminate.
  - assert (Hnth : nth_error (ev_hs (spec s e)) i = Some h0).
    { rewrite Hpre, nth_error_app2 by lia. now rewrite <- Hlen, Nat.sub_diag. }
    simpl in Hpl. apply andb_prop in Hpl. destruct Hpl as (Hph & Hpr).
    simpl run_handlers. rewrite (plain_stops _ Hph). destruct (run_handler e i h0 err s) as [s1 err1] eqn:Hrun.
    assert (Hu : exists l1 t1, dsum e l1 t1 s s1 /\
              match h0 with HP _ _ => In (LH e i) l1 | HG _ _ _ => In {| tev := e; thd := i; tk := 0 |} t1 end /\
              vpar s1 = vpar s).
    { destruct h0 as [kids rr | ys lk gr].
      - destruct (plain_unit e i kids rr err s He Hnth Hnp Hph) as (l & Hv & Hn & Hin & Hvc & _ & Hm & Hp).
        rewrite Hrun in *. simpl in *. exists l, []. split; [|split]; auto. now apply dsum_vop.
      - simpl in Hrun. inversion Hrun; subst. eexists _, _. split; [apply add_task_dsum|]. simpl; auto. }
    destruct Hu as (l1 & t1 & Hd1 & Hin1 & Hp1).
    assert (Hnp1 : vpar s1 e = None) by (now rewrite Hp1).
    assert (He1 : e < next s1) by (pose proof (f_next _ _ _ _ (d_fr _ _ _ _ _ Hd1)); lia).
    assert (Hsp1 : spec s1 e = spec s e) by (apply (fr_spec _ _ _ _ e (d_fr _ _ _ _ _ Hd1) He)).
    assert (Hpre1 : ev_hs (spec s1 e) = (pre ++ [h0]) ++ r) by (rewrite Hsp1, Hpre, <- app_assoc; reflexivity).
    assert (Hlen1 : length (pre ++ [h0]) = S i) by (rewrite app_length; simpl; lia).
    destruct j as [|j].
    + simpl in Hj. inversion Hj; subst h. rewrite Nat.add_0_r.
      destruct (run_handlers_sum e r (S i) err1 s1 (pre ++ [h0]) He1 Hpre1 Hlen1 Hnp1 Hpr) as (l2 & t2 & Hd2 & _).
      destruct h0.
      * rewrite (f_log _ _ _ _ (d_fr _ _ _ _ _ Hd2)), (f_log _ _ _ _ (d_fr _ _ _ _ _ Hd1)).
        apply in_or_app. right. apply in_or_app. left. exact Hin1.
      * rewrite (d_tasks _ _ _ _ _ Hd2), (d_tasks _ _ _ _ _ Hd1).
        apply in_or_app. left. apply in_or_app. right. exact Hin1.
    + simpl in Hj. replace (i + S j) with (S i + j) by lia.
      apply (IH (S i) err1 s1 (pre ++ [h0]) He1 Hpre1 Hlen1 Hnp1 Hpr j h Hj).
Qed.

(* the dispatcher pass of a user event invokes every plain handler and registers every generator
   handler of the event, whichever of them raise *)
Theorem dispatch_runs_all : forall s e j h,
  e < next s -> kind s e = KUser -> nth_error (ev_hs (spec s e)) j = Some h ->
  vpar s e = None -> plain_ev (spec s e) = true ->
  match h with
  | HP _ _ => In (LH e j) (log (dispatch e s))
  | HG _ _ _ => In {| tev := e; thd := j; tk := 0 |} (tasks (dispatch e s))
  end.
Proof.
  intros s e j h He Hk Hj Hnp Hpl. unfold dispatch. rewrite Hk. rewrite plain_ev_hs in Hpl.
  assert (Hns : existsb stops (ev_hs (spec (set_phase e PActive s) e)) = false) by (apply plain_no_stop; exact Hpl).
  rewrite Hns.
  set (s0 := set_phase e PActive s).
  assert (He0 : e < next s0) by (simpl; lia).
  pose proof (run_handlers_all e (ev_hs (spec s0 e)) 0 false s0 [] He0 eq_refl eq_refl Hnp Hpl j h Hj) as Hall.
  destruct (run_handlers_sum e (ev_hs (spec s0 e)) 0 false s0 [] He0 eq_refl eq_refl Hnp Hpl)
    as (l1 & t1 & Hd1 & Herr1 & _).
  destruct (run_handlers e 0 (ev_hs (spec s0 e)) false s0) as [s1 err] eqn:Hrun. simpl fst in *. simpl snd in *.
  assert (He1 : e < next s1) by (pose proof (f_next _ _ _ _ (d_fr _ _ _ _ _ Hd1)); lia).
  set (xs := map (LDU e) (observers true (ev_both (spec s1 e)))).
  assert (Hxs : Forall (about e) xs /\ Forall silent xs /\ Forall nosucc xs).
  { unfold xs, observers. destruct (ev_both (spec s1 e)); simpl; repeat split; repeat constructor. }
  destruct Hxs as (x1 & x2 & x3).
  destruct (log_all_vop e xs s1 He1 x1 x2 x3) as (l2 & Hv2 & Hs2 & Hn2 & Hval2).
  set (s2 := log_all xs s1) in *.
  assert (He2 : e < next s2) by (pose proof (f_next _ _ _ _ (v_fr _ _ _ _ Hv2)); lia).
  assert (Herr2 : err = true -> verrors (val s2 e) = true).
  { intros E. rewrite Hval2. apply Herr1; auto. discriminate. }
  destruct (event_done_sum e err s2 He2 Herr2) as (Hf3 & _ & _ & Ht3 & _).
  destruct h; simpl in Hall.
  - rewrite (f_log _ _ _ _ Hf3), (f_log _ _ _ _ (v_fr _ _ _ _ Hv2)).
    apply in_or_app. right. apply in_or_app. right. exact Hall.
  - rewrite Ht3, (v_tasks _ _ _ _ Hv2). exact Hall.
Qed.

(* ------------------------------------------------------------------ every handler runs to its end *)

(* [mono s s']: the task list is untouched and the log only grows *)
Definition mono (s s' : st) : Prop :=
  tasks s' = tasks s /\ next s <= next s' /\ exists l, log s' = l ++ log s.

Lemma mono_refl : forall s, mono s s.
Proof. intros. split; [|split]; auto. exists []. reflexivity. Qed.
Lemma mono_trans : forall s s1 s2, mono s s1 -> mono s1 s2 -> mono s s2.
Proof.
  intros s s1 s2 (a1 & a2 & l1 & a3) (b1 & b2 & l2 & b3). split; [congruence|]. split; [lia|].
  exists (l2 ++ l1). rewrite b3, a3. now rewrite app_assoc.
Qed.
Lemma mono_vop : forall e l s s', vop e l s s' -> mono s s'.
Proof.
  intros e l s s' [f p w t]. split; auto. split; [apply (f_next _ _ _ _ f)|].
  exists l. apply (f_log _ _ _ _ f).
Qed.
Lemma mono_ext : forall l s s', ext l s s' -> mono s s'.
Proof. intros l s s' [a b c d e f]. split; auto. split; auto. exists l. auto. Qed.
Lemma mono_fr : forall e l s s', fr e l s s' -> tasks s' = tasks s -> mono s s'.
Proof. intros e l s s' f Ht. split; auto. split; [apply (f_next _ _ _ _ f)|]. exists l. apply (f_log _ _ _ _ f). Qed.
Lemma mono_in : forall s s' x, mono s s' -> In x (log s) -> In x (log s').
Proof. intros s s' x (_ & _ & l & Hl) H. rewrite Hl. apply in_or_app. auto. Qed.

Lemma task_stop_shape : forall p e s, e < next s ->
  tasks (task_stop p e s) = remove_nth p (tasks s) /\
  (forall x, In x (log s) -> In x (log (task_stop p e s))).
Proof.
  intros p e s He. unfold task_stop.
  set (s1 := set_tasks (remove_nth p (tasks s)) (set_wait e (pred (waiting s e)) s)).
  assert (He1 : e < next s1) by exact He.
  destruct (Nat.eqb (waiting s1 e) 0).
  - destruct (inform_vop true e s1 He1) as (li & Hv & _ & _).
    pose proof (mono_vop _ _ _ _ Hv) as M1.
    assert (He2 : e < next (inform true e s1)) by (destruct M1 as (_ & ? & _); lia).
    destruct (event_done_sum e false (inform true e s1) He2 ltac:(discriminate)) as (F & _ & _ & Ht & _).
    pose proof (mono_fr _ _ _ _ F Ht) as M2.
    pose proof (mono_trans _ _ _ M1 M2) as M. split.
    + destruct M as (-> & _). reflexivity.
    + intros x Hx. apply (mono_in s1); auto.
  - split; auto.
Qed.

Lemma task_raise_shape : forall p e s, e < next s -> vpar s e = None ->
  tasks (task_raise p e s) = remove_nth p (tasks s) /\
  (forall x, In x (log s) -> In x (log (task_raise p e s))).
Proof.
  intros p e s He Hnp. unfold task_raise.
  set (s1 := set_tasks (remove_nth p (tasks s)) s).
  assert (He1 : e < next s1) by exact He.
  destruct (set_value_vop e PErr s1 He1 eq_refl Hnp eq_refl) as (li1 & Hv2 & _ & _).
  pose proof (mono_vop _ _ _ _ Hv2) as M2.
  set (s2 := set_value e PErr s1) in *.
  assert (He2 : e < next s2) by (destruct M2 as (_ & ? & _); lia).
  set (s3 := set_errors e s2).
  assert (M3 : mono s2 s3) by (split; [|split]; auto; exists []; reflexivity).
  assert (He3 : e < next s3) by exact He2.
  destruct (inform_vop true e s3 He3) as (li2 & Hv4 & _ & _).
  pose proof (mono_vop _ _ _ _ Hv4) as M4.
  set (s4 := inform true e s3) in *.
  assert (He4 : e < next s4) by (destruct M4 as (_ & ? & _); lia).
  pose proof (mono_ext _ _ _ (ext_raise_feedback e s4)) as M5.
  set (s5 := raise_feedback e s4) in *.
  assert (He5 : e < next s5) by (destruct M5 as (_ & ? & _); lia).
  set (s6 := set_wait e (pred (waiting s5 e)) s5).
  assert (M6 : mono s5 s6) by (split; [|split]; auto; exists []; reflexivity).
  assert (He6 : e < next s6) by exact He5.
  assert (Herr : true = true -> verrors (val s6 e) = true).
  { intros _. change (val s6 e) with (val s5 e). unfold s5.
    rewrite (ext_val _ _ _ e (ext_raise_feedback e s4) He4). unfold s4.
    destruct (inform_vop true e s3 He3) as (? & _ & _ & ->). unfold s3. rewrite val_set_errors. reflexivity. }
  destruct (event_done_sum e true s6 He6 Herr) as (F & _ & _ & Ht & _).
  pose proof (mono_fr _ _ _ _ F Ht) as M7.
  pose proof (mono_trans _ _ _ M2 (mono_trans _ _ _ M3 (mono_trans _ _ _ M4
               (mono_trans _ _ _ M5 (mono_trans _ _ _ M6 M7))))) as M.
  split.
  - destruct M as (-> & _). reflexivity.
  - intros x Hx. apply (mono_in s1); auto.
Qed.

Lemma in_replace_nth_other : forall (x t0 v : task) p ts,
  nth_error ts p = Some t0 -> In x ts -> x <> t0 -> In x (replace_nth p v ts).
Proof.
  intros x t0 v p ts. revert p. induction ts as [|t ts IH]; intros p Hn Hin Hne; destruct p; simpl in *;
    try discriminate.
  - inversion Hn; subst. destruct Hin; [congruence | auto].
  - destruct Hin; auto; right; eapply IH; eauto.
Qed.
Lemma in_replace_nth_self : forall (t0 v : task) p ts,
  nth_error ts p = Some t0 -> In v (replace_nth p v ts).
Proof.
  intros t0 v p ts. revert p. induction ts as [|t ts IH]; intros p Hn; destruct p; simpl in *;
    try discriminate; auto; right; eapply IH; eauto.
Qed.
Lemma in_remove_nth_other : forall (x t0 : task) p ts,
  nth_error ts p = Some t0 -> In x ts -> x <> t0 -> In x (remove_nth p ts).
Proof.
  intros x t0 p ts. revert p. induction ts as [|t ts IH]; intros p Hn Hin Hne; destruct p; simpl in *;
    try discriminate.
  - inversion Hn; subst. destruct Hin; [congruence | auto].
  - destruct Hin; auto; right; eapply IH; eauto.
Qed.

Lemma step_task_shape : forall p t0 s ys lk gr,
  nth_error (tasks s) p = Some t0 -> tev t0 < next s ->
  nth_error (ev_hs (spec s (tev t0))) (thd t0) = Some (HG ys lk gr) ->
  vpar s (tev t0) = None -> plain_hdl (HG ys lk gr) = true ->
  (forall t', In t' (tasks s) -> t' <> t0 -> In t' (tasks (step_task p s))) /\
  (forall x, In x (log s) -> In x (log (step_task p s))) /\
  In (LG (tev t0) (thd t0) (tk t0)) (log (step_task p s)) /\
  (nth_error ys (tk t0) <> None ->
   In {| tev := tev t0; thd := thd t0; tk := S (tk t0) |} (tasks (step_task p s))).
Proof.
  intros p t0 s ys lk gr Hn He Hh Hnp Hpl. unfold step_task. rewrite Hn, Hh.
  set (e := tev t0) in *.
  destruct (nth_error ys (tk t0)) as [[kids y]|] eqn:Hy.
  - destruct (enter_vop e (LG e (thd t0) (tk t0)) kids s He eq_refl) as (lk' & Hv1 & _ & _ & Hn1).
    set (s2 := fire_all kids (add_log (LG e (thd t0) (tk t0)) s)) in *.
    pose proof (mono_vop _ _ _ _ Hv1) as M1.
    assert (Hin2 : In (LG e (thd t0) (tk t0)) (log s2)).
    { rewrite (f_log _ _ _ _ (v_fr _ _ _ _ Hv1)). apply in_or_app. left. apply in_or_app. right. left. auto. }
    assert (M2 : mono s2 (if is_none y then s2 else set_value e y s2)).
    { destruct (is_none y) eqn:Hnone; [apply mono_refl|].
      assert (Hry : is_ref y = false).
      { simpl in Hpl. apply andb_prop in Hpl. destruct Hpl as (H1 & _).
        pose proof (forallb_nth _ _ _ _ _ H1 Hy) as H2. simpl in H2. apply andb_prop in H2.
        destruct H2 as (_ & H2). now apply negb_true_iff in H2. }
      assert (Hnp2 : vpar s2 e = None) by (unfold s2; now rewrite vpar_fire_all).
      destruct (set_value_vop e y s2 ltac:(lia) Hnone Hnp2 Hry) as (li & Hv & _ & _). eapply mono_vop; eauto. }
    set (s3 := if is_none y then s2 else set_value e y s2) in *.
    pose proof (mono_trans _ _ _ M1 M2) as M. destruct M as (Ht & _ & l & Hl).
    simpl. rewrite Ht. split; [|split; [|split]].
    + intros t' Hin Hne. eapply in_replace_nth_other; eauto.
    + intros x Hx. rewrite Hl. apply in_or_app. auto.
    + apply (mono_in s2); auto.
    + intros _. eapply in_replace_nth_self; eauto.
  - destruct (enter_vop e (LG e (thd t0) (tk t0)) lk s He eq_refl) as (lk' & Hv1 & _ & _ & Hn1).
    set (s2 := fire_all lk (add_log (LG e (thd t0) (tk t0)) s)) in *.
    pose proof (mono_vop _ _ _ _ Hv1) as M1.
    assert (Hin2 : In (LG e (thd t0) (tk t0)) (log s2)).
    { rewrite (f_log _ _ _ _ (v_fr _ _ _ _ Hv1)). apply in_or_app. left. apply in_or_app. right. left. auto. }
    assert (He2 : e < next s2) by lia.
    assert (Hsh : tasks (if gr then task_raise p e s2 else task_stop p e s2) = remove_nth p (tasks s2) /\
                  (forall x, In x (log s2) -> In x (log (if gr then task_raise p e s2 else task_stop p e s2)))).
    { destruct gr; [apply task_raise_shape | apply task_stop_shape]; auto.
      unfold s2. now rewrite vpar_fire_all. }
    destruct Hsh as (Ht & Hl). destruct M1 as (Ht1 & _ & l1 & Hl1).
    assert (Hgoal : forall s', tasks s' = remove_nth p (tasks s2) ->
              (forall x, In x (log s2) -> In x (log s')) ->
              (forall t', In t' (tasks s) -> t' <> t0 -> In t' (tasks s')) /\
              (forall x, In x (log s) -> In x (log s')) /\ In (LG e (thd t0) (tk t0)) (log s') /\
              (@None (list ev * pyval) <> None -> In {| tev := e; thd := thd t0; tk := S (tk t0) |} (tasks s'))).
    { intros s' Ht' Hl'. split; [|split; [|split]].
      - intros t' Hin Hne. rewrite Ht', Ht1. eapply in_remove_nth_other; eauto.
      - intros x Hx. apply Hl'. rewrite Hl1. apply in_or_app. auto.
      - apply Hl'. auto.
      - intros H. congruence. }
    destruct gr; apply Hgoal; auto.
Qed.

Lemma dispatch_shape : forall e s, e < next s -> vpar s e = None -> plain_ev (spec s e) = true ->
  (forall t, In t (tasks s) -> In t (tasks (dispatch e s))) /\
  (forall x, In x (log s) -> In x (log (dispatch e s))).
Proof.
  intros e s He Hnp Hpl. unfold dispatch. rewrite plain_ev_hs in Hpl.
  assert (Hns : existsb stops (ev_hs (spec (set_phase e PActive s) e)) = false) by (apply plain_no_stop; exact Hpl).
  destruct (kind s e) as [|k x a o] eqn:Hk; [rewrite Hns|].
  - set (s0 := set_phase e PActive s).
    assert (He0 : e < next s0) by exact He.
    destruct (run_handlers_sum e (ev_hs (spec s0 e)) 0 false s0 [] He0 eq_refl eq_refl Hnp Hpl)
      as (l1 & t1 & Hd1 & Herr1 & _).
    destruct (run_handlers e 0 (ev_hs (spec s0 e)) false s0) as [s1 err] eqn:Hrun. simpl fst in *. simpl snd in *.
    assert (He1 : e < next s1) by (pose proof (f_next _ _ _ _ (d_fr _ _ _ _ _ Hd1)); lia).
    set (xs := map (LDU e) (observers true (ev_both (spec s1 e)))).
    assert (Hxs : Forall (about e) xs /\ Forall silent xs /\ Forall nosucc xs).
    { unfold xs, observers. destruct (ev_both (spec s1 e)); simpl; repeat split; repeat constructor. }
    destruct Hxs as (x1 & x2 & x3).
    destruct (log_all_vop e xs s1 He1 x1 x2 x3) as (l2 & Hv2 & Hs2 & Hn2 & Hval2).
    set (s2 := log_all xs s1) in *.
    pose proof (mono_vop _ _ _ _ Hv2) as M2.
    assert (He2 : e < next s2) by (destruct M2 as (_ & ? & _); lia).
    assert (Herr2 : err = true -> verrors (val s2 e) = true).
    { intros E. rewrite Hval2. apply Herr1; auto. discriminate. }
    destruct (event_done_sum e err s2 He2 Herr2) as (Hf3 & _ & _ & Ht3 & _).
    pose proof (mono_trans _ _ _ M2 (mono_fr _ _ _ _ Hf3 Ht3)) as (Ht & _ & l & Hl).
    split.
    + intros t Hin. rewrite Ht, (d_tasks _ _ _ _ _ Hd1). apply in_or_app. left. exact Hin.
    + intros x Hx. rewrite Hl, (f_log _ _ _ _ (d_fr _ _ _ _ _ Hd1)).
      apply in_or_app. right. apply in_or_app. right. exact Hx.
  - set (xs := map (LDD k x) (observers a o)).
    assert (Hxs : Forall (about e) xs /\ Forall silent xs /\ Forall nosucc xs).
    { unfold xs, observers. destruct a, o; simpl; repeat split; repeat constructor. }
    destruct Hxs as (x1 & x2 & x3).
    destruct (log_all_vop e xs s He x1 x2 x3) as (l & Hv & _ & _ & _).
    destruct (mono_vop _ _ _ _ Hv) as (Ht & _ & l' & Hl). simpl. rewrite Ht, Hl. split; auto.
    intros y Hy. apply in_or_app. auto.
Qed.

(* handler i of event d (script h): it has been invoked (plain) / it is a registered task that has
   run its first segments, or has run all its segments (generator) *)
Definition hdone (s : st) (d i : nat) (h : hdl) : Prop :=
  match h with
  | HP _ _ => In (LH d i) (log s)
  | HG ys _ _ =>
      (exists t, In t (tasks s) /\ tev t = d /\ thd t = i /\ tk t <= length ys /\
                 forall k, k < tk t -> In (LG d i k) (log s))
      \/ (forall k, k <= length ys -> In (LG d i k) (log s))
  end.

Definition HInv (s : st) : Prop :=
  forall d i h, d < next s -> kind s d = KUser -> phase s d <> PQueued ->
    nth_error (ev_hs (spec s d)) i = Some h -> hdone s d i h.

Lemma task_eq_dec : forall a b : task, {a = b} + {a <> b}.
Proof. decide equality; apply Nat.eq_dec. Qed.

Lemma hdone_mono : forall s s' d i h,
  (forall t, In t (tasks s) -> tev t = d -> In t (tasks s')) ->
  (forall x, In x (log s) -> In x (log s')) -> hdone s d i h -> hdone s' d i h.
Proof.
  intros s s' d i h Ht Hl H. destruct h as [|ys lk gr]; simpl in *; auto.
  destruct H as [(t & Hin & Hd & Hi & Hk & Hlg)|H]; [left | right; auto].
  exists t. repeat split; auto.
Qed.

Lemma hinv_start : forall roots, HInv (start roots).
Proof.
  intros roots d i h Hd Hk Hp. exfalso. apply Hp. unfold start in *.
  destruct (ext_fire_all roots init) as (l & Hx & _).
  apply (x_new _ _ _ Hx d). simpl. lia.
Qed.

Lemma hinv_step : forall lb s, OKs s -> Inv s -> HInv s -> HInv (step lb s).
Proof.
  intros lb s (Hnp & Hsp0) HI HH. pose proof HI as [q1 q2 q3 t w a lbd vc sc sl]. destruct lb as [|p]; simpl.
  - destruct (queue s) as [|e q] eqn:Hq; auto.
    assert (He : e < next s /\ phase s e = PQueued) by (apply q1; simpl; auto).
    destruct He as (He & Hpe).
    set (s0 := set_queue q s).
    assert (Hss : ssum e s0 (dispatch e s0)).
    { assert (Hz : ctasks e (tasks s) = 0).
      { apply ctasks_zero. intros t0 Hin Heq. destruct (t t0 Hin) as (_ & Hp). congruence. }
      destruct (kind s e) eqn:Hk.
      - apply dispatch_user_ssum; auto; simpl; auto.
      - eapply dispatch_der_ssum; simpl; eauto. rewrite (w e He). exact Hz. }
    destruct Hss as (l0 & b & Hfr & _).
    destruct (dispatch_shape e s0 He (Hnp e) (Hsp0 e)) as (Htk & Hlg).
    intros d i h Hd Hk Hp Hnth.
    destruct (Nat.lt_ge_cases d (next s)) as [Hlt|Hge].
    2:{ exfalso. apply Hp. apply (f_new _ _ _ _ Hfr d). simpl. lia. }
    destruct (f_spec _ _ _ _ Hfr d Hlt) as (Hsp & Hkd). simpl in Hsp, Hkd.
    rewrite Hsp in Hnth. rewrite Hkd in Hk.
    destruct (Nat.eq_dec d e) as [->|Hne].
    + pose proof (dispatch_runs_all s0 e i h He Hk Hnth (Hnp e) (Hsp0 e)) as Hall.
      destruct h as [|ys lk gr]; simpl; auto. left.
      eexists. split; [exact Hall|]. simpl. repeat split; auto; try lia; intros k Hk0; lia.
    + destruct (f_old _ _ _ _ Hfr d Hlt Hne) as (_ & _ & Hph). simpl in Hph.
      apply (hdone_mono s0); auto. apply (HH d i h); auto. congruence.
  - destruct (nth_error (tasks s) p) as [t0|] eqn:Hn.
    2:{ unfold step_task. now rewrite Hn. }
    destruct (t t0 (nth_error_In _ _ Hn)) as (He & Hp0).
    destruct (step_task_ssum p t0 s Hn He Hp0 (w _ He) (Hnp _) (Hsp0 _)) as [-> | Hs]; auto.
    destruct Hs as (l0 & b & Hfr & _).
    destruct (nth_error (ev_hs (spec s (tev t0))) (thd t0)) as [[kids r | ys lk gr]|] eqn:Hh;
      try (unfold step_task; rewrite Hn, Hh; exact HH).
    assert (Hplh : plain_hdl (HG ys lk gr) = true).
    { eapply forallb_nth; [|exact Hh]. rewrite <- plain_ev_hs. apply Hsp0. }
    destruct (step_task_shape p t0 s ys lk gr Hn He Hh (Hnp _) Hplh) as (B2 & Hlg & Hnew & Hnext).
    set (s' := step_task p s) in *.
    intros d i h Hd Hk Hp Hnth.
    destruct (Nat.lt_ge_cases d (next s)) as [Hlt|Hge].
    2:{ exfalso. apply Hp. apply (f_new _ _ _ _ Hfr d). lia. }
    destruct (f_spec _ _ _ _ Hfr d Hlt) as (Hsp & Hkd).
    rewrite Hsp in Hnth. rewrite Hkd in Hk.
    destruct (Nat.eq_dec d (tev t0)) as [->|Hne].
    + assert (Hold : hdone s (tev t0) i h) by (apply HH; auto; congruence).
      destruct h as [|ys' lk' gr']; [simpl in *; auto|].
      destruct (Nat.eq_dec i (thd t0)) as [->|Hni].
      * rewrite Hh in Hnth. inversion Hnth; subst ys' lk' gr'.
        simpl in Hold. destruct Hold as [(t1 & Hin & Hd1 & Hi1 & Hk1 & Hlg1)|Hall].
        -- destruct (task_eq_dec t1 t0) as [->|Hnt].
           ++ destruct (nth_error ys (tk t0)) as [seg|] eqn:Hy.
              ** left. eexists. split; [apply Hnext; discriminate|]. simpl.
                 repeat split; auto.
                 --- assert (tk t0 < length ys) by (apply nth_error_Some; congruence). lia.
                 --- intros k Hk0. destruct (Nat.eq_dec k (tk t0)) as [->|]; auto. apply Hlg, Hlg1. lia.
              ** right. apply nth_error_None in Hy. intros k Hk0.
                 destruct (Nat.eq_dec k (tk t0)) as [->|]; auto. apply Hlg, Hlg1. lia.
           ++ left. exists t1. repeat split; auto.
        -- right. auto.
      * simpl in Hold. simpl. destruct Hold as [(t1 & Hin & Hd1 & Hi1 & Hk1 & Hlg1)|Hall].
        -- left. exists t1. repeat split; auto. apply B2; auto. intros ->. congruence.
        -- right. auto.
    + destruct (f_old _ _ _ _ Hfr d Hlt Hne) as (_ & _ & Hph).
      apply (hdone_mono s); auto.
      * intros t1 Hin Ht1. apply B2; auto. intros ->. congruence.
      * apply (HH d i h); auto. congruence.
Qed.

Lemma both_exec : forall ls s, OKs s -> Inv s -> HInv s -> Inv (exec ls s) /\ HInv (exec ls s).
Proof.
  induction ls as [|lb ls IH]; intros s H0 HI HH; simpl; auto.
  apply IH; [apply oks_step | apply inv_step | apply hinv_step]; auto.
Qed.

(* when an event has passed the _eventDone gate, every one of its handlers has run to its end:
   every plain handler was invoked, every segment of every generator handler (up to and including the
   one that returns or raises) was entered — whichever handlers raised *)
Theorem finished_complete : forall s e i h,
  reachable_plain s -> e < next s -> kind s e = KUser -> phase s e = PFin ->
  nth_error (ev_hs (spec s e)) i = Some h -> handler_finished (log s) e i h.
Proof.
  intros s e i h (roots & ls & Hpl & ->) He Hk Hp Hnth.
  destruct (both_exec ls (start roots) (oks_start roots Hpl) (inv_start roots) (hinv_start roots)) as (HI & HH).
  pose proof (HH e i h He Hk ltac:(congruence) Hnth) as Hd.
  destruct h as [|ys lk gr]; simpl in *; auto.
  destruct Hd as [(t & Hin & Ht & _)|Hall]; auto.
  exfalso. destruct (i_t _ _ HI t Hin) as (_ & Hpa). rewrite Ht in Hpa. congruence.
Qed.

(* ------------------------------------------------------------------ all programs, including nested-Value returns:
   a raise in the dispatcher pass blocks <name>_success of that pass *)

(* [lext s s']: the log only grows, by entries that are not <name>_success firings *)
Definition lext (s s' : st) : Prop := exists l, log s' = l ++ log s /\ Forall nosucc l.

Lemma lext_refl : forall s, lext s s.
Proof. intros. exists []. split; auto. Qed.
Lemma lext_trans : forall s s1 s2, lext s s1 -> lext s1 s2 -> lext s s2.
Proof.
  intros s s1 s2 (l1 & a1 & b1) (l2 & a2 & b2). exists (l2 ++ l1). split.
  - rewrite a2, a1. now rewrite app_assoc.
  - apply Forall_app; auto.
Qed.
Lemma lext_same : forall s s', log s' = log s -> lext s s'.
Proof. intros s s' H. exists []. split; auto. Qed.
Lemma lext_ext : forall l s s', ext l s s' -> Forall nosucc l -> lext s s'.
Proof. intros l s s' H Hn. exists l. split; auto. apply (x_log _ _ _ H). Qed.

Lemma lext_fire_all : forall kids s, lext s (fire_all kids s).
Proof.
  intros. destruct (ext_fire_all kids s) as (l & Hx & Hl). eapply lext_ext; eauto. eapply LF_nosucc; eauto.
Qed.
Lemma lext_inform : forall f e s, lext s (inform f e s).
Proof.
  intros. destruct (ext_inform f e s) as (l & Hx & Hl). eapply lext_ext; eauto.
  destruct Hl as [-> | ->]; repeat constructor.
Qed.
Lemma lext_raise_feedback : forall e s, lext s (raise_feedback e s).
Proof.
  intros. eapply lext_ext; [apply ext_raise_feedback|]. apply (fb_facts e (ev_fail (spec s e))).
Qed.

Lemma lext_propagate : forall f o x s, lext s (propagate f o x s).
Proof.
  induction f as [|f IH]; intros o x s; unfold propagate; fold propagate; [apply lext_refl|].
  destruct (vpar s o) as [p|]; [|apply lext_refl].
  eapply lext_trans; [|apply IH].
  destruct x; try (apply lext_same; reflexivity);
    (eapply lext_trans; [|apply lext_inform]; apply lext_same; reflexivity).
Qed.

Lemma lext_set_value : forall e x s, lext s (set_value e x s).
Proof.
  intros e x s. unfold set_value.
  assert (Hl : lext s (set_value_local e x s)).
  { unfold set_value_local. destruct (is_none x); [apply lext_same; reflexivity|].
    eapply lext_trans; [|apply lext_inform]. apply lext_same. reflexivity. }
  destruct x; try (eapply lext_trans; [exact Hl | apply lext_propagate]).
  eapply lext_trans; [|apply lext_propagate]. apply lext_same. reflexivity.
Qed.


Lemma lext_run_handler : forall e i h err s,
  lext s (fst (run_handler e i h err s)) /\ snd (run_handler e i h err s) = err || raising h.
Proof.
  intros e i h err s. destruct h as [kids r | ys lk gr]; simpl.
  - assert (H1 : lext s (fire_all kids (add_log (LH e i) s))).
    { eapply lext_trans; [|apply lext_fire_all]. exists [LH e i]. split; auto. repeat constructor. }
    destruct (unstop r) as [v| |sp|r']; simpl.
    + split; [|now rewrite orb_false_r]. destruct (is_none v); auto.
      eapply lext_trans; [exact H1 | apply lext_set_value].
    + split; [|now rewrite orb_true_r].
      eapply lext_trans; [exact H1|]. eapply lext_trans; [|apply lext_set_value].
      eapply lext_trans; [|apply lext_raise_feedback]. apply lext_same. reflexivity.
    + split; [|now rewrite orb_false_r].
      eapply lext_trans; [exact H1|]. eapply lext_trans; [|apply lext_set_value].
      eapply lext_ext; [apply ext_fire_user | repeat constructor].
    + split; [exact H1 | now rewrite orb_false_r].
  - split; [apply lext_same; reflexivity | now rewrite orb_false_r].
Qed.

Lemma lext_run_handlers : forall e hs i err s,
  lext s (fst (run_handlers e i hs err s)) /\
  snd (run_handlers e i hs err s) = err || existsb raising (upto_stop hs).
Proof.
  intros e hs. induction hs as [|h r IH]; intros i err s; simpl.
  - split; [apply lext_refl | now rewrite orb_false_r].
  - destruct (lext_run_handler e i h err s) as (H1 & H2).
    destruct (run_handler e i h err s) as [s1 err1]. simpl in *. subst err1.
    destruct (stops h); simpl.
    + split; auto. now rewrite orb_false_r.
    + destruct (IH (S i) (err || raising h) s1) as (H3 & H4). split.
      * eapply lext_trans; eauto.
      * rewrite H4. now rewrite orb_assoc.
Qed.

Lemma lext_log_all : forall xs s, Forall nosucc xs -> lext s (log_all xs s).
Proof.
  induction xs as [|x r IH]; intros s H; simpl; [apply lext_refl|]. inversion H; subst.
  eapply lext_trans; [|apply IH; auto]. exists [x]. split; auto.
Qed.

(* whatever else its handlers do (return Values of nested events, fire events, register generators):
   if a plain handler of e raises, the dispatcher pass of e fires no <name>_success at all *)
Theorem pass_failure_blocks_success : forall s e d,
  kind s e = KUser -> existsb raising (upto_stop (ev_hs (spec s e))) = true ->
  count_der DSucc d (log (dispatch e s)) = count_der DSucc d (log s).
Proof.
  intros s e d Hk Hr. unfold dispatch. rewrite Hk.
  set (s0 := set_phase e PActive s).
  destruct (lext_run_handlers e (ev_hs (spec s0 e)) 0 false s0) as (H1 & H2).
  destruct (run_handlers e 0 (ev_hs (spec s0 e)) false s0) as [s1 err]. simpl in H1, H2.
  change (spec s0 e) with (spec s e) in H2. rewrite Hr in H2. simpl in H2. subst err.
  set (xs := if existsb stops (ev_hs (spec s0 e)) then [] else map (LDU e) (observers true (ev_both (spec s1 e)))).
  assert (Hxs : Forall nosucc xs).
  { unfold xs, observers. destruct (existsb stops (ev_hs (spec s0 e))); [constructor|].
    destruct (ev_both (spec s1 e)); simpl; repeat constructor. }
  pose proof (lext_log_all xs s1 Hxs) as H3.
  assert (H4 : log (event_done e true (log_all xs s1)) = log (log_all xs s1)).
  { unfold event_done. destruct (Nat.eqb (waiting (log_all xs s1) e) 0); reflexivity. }
  rewrite H4.
  destruct (lext_trans _ _ _ (lext_trans s s0 s1 (lext_same _ _ eq_refl) H1) H3) as (l & Hl & Hn).
  rewrite Hl, count_der_app, (nosucc_count d l Hn). reflexivity.
Qed.

(* ------------------------------------------------------------------ ALL programs (nested Values, event.stop()):
   every handler is invoked at most once, generator segments are entered in order, at most once each *)


Lemma hpart_app : forall a b, hpart (a ++ b) = hpart a ++ hpart b.
Proof. intros. apply filter_app. Qed.
Lemma hpart_nonh : forall l, Forall nonh l -> hpart l = [].
Proof. induction 1 as [|x l Hx _ IH]; simpl; auto. destruct x; simpl in *; try contradiction; auto. Qed.

(* [wfr e h s s']: a step working on event e; h = the handler-activity entries it logged (newest first).
   Nothing is said about Values. *)
Record wfr (e : nat) (h : list entry) (s s' : st) : Prop := {
  w_next : next s <= next s';
  w_old : forall d, d < next s -> d <> e -> phase s' d = phase s d;
  w_e : phase s e <> PQueued -> phase s' e <> PQueued;
  w_new : forall d, next s <= d < next s' -> phase s' d = PQueued;
  w_queue : queue s' = queue s ++ seq (next s) (next s' - next s);
  w_log : exists l, log s' = l ++ log s /\ hpart l = h
}.

Lemma wfr_trans : forall e h1 h2 s s1 s2,
  e < next s -> wfr e h1 s s1 -> wfr e h2 s1 s2 -> wfr e (h2 ++ h1) s s2.
Proof.
  intros e h1 h2 s s1 s2 He [n1 o1 e1 w1 q1 (l1 & g1 & p1)] [n2 o2 e2 w2 q2 (l2 & g2 & p2)]. split.
  - lia.
  - intros d Hd Hne. rewrite o2 by lia. auto.
  - auto.
  - intros d Hd. destruct (Nat.lt_ge_cases d (next s1)) as [Hlt|Hge].
    + rewrite o2 by lia. apply w1. lia.
    + apply w2. lia.
  - rewrite q2, q1, <- app_assoc. f_equal. symmetry. apply seq_split2; lia.
  - exists (l2 ++ l1). split; [rewrite g2, g1; now rewrite app_assoc | rewrite hpart_app; congruence].
Qed.

(* a step that touches neither phases (of existing events) nor tasks and logs no handler activity *)
Record wext (s s' : st) : Prop := {
  y_next : next s <= next s';
  y_old : forall d, d < next s -> phase s' d = phase s d;
  y_new : forall d, next s <= d < next s' -> phase s' d = PQueued;
  y_queue : queue s' = queue s ++ seq (next s) (next s' - next s);
  y_tasks : tasks s' = tasks s;
  y_log : exists l, log s' = l ++ log s /\ Forall nonh l
}.

Lemma wext_refl : forall s, wext s s.
Proof.
  intros. split; auto.
  - intros d Hd. exfalso. lia.
  - rewrite Nat.sub_diag. simpl. now rewrite app_nil_r.
  - exists []. split; auto.
Qed.
Lemma wext_trans : forall s s1 s2, wext s s1 -> wext s1 s2 -> wext s s2.
Proof.
  intros s s1 s2 [n1 o1 w1 q1 t1 (l1 & g1 & p1)] [n2 o2 w2 q2 t2 (l2 & g2 & p2)]. split.
  - lia.
  - intros d Hd. rewrite o2 by lia. auto.
  - intros d Hd. destruct (Nat.lt_ge_cases d (next s1)) as [Hlt|Hge].
    + rewrite o2 by lia. apply w1. lia.
    + apply w2. lia.
  - rewrite q2, q1, <- app_assoc. f_equal. symmetry. apply seq_split2; lia.
  - congruence.
  - exists (l2 ++ l1). split; [rewrite g2, g1; now rewrite app_assoc | apply Forall_app; auto].
Qed.
Lemma wext_ext : forall l s s', ext l s s' -> Forall nonh l -> wext s s'.
Proof.
  intros l s s' [n o w t q g] Hl. split; auto.
  - intros d Hd. now destruct (o d Hd) as (_ & _ & _ & _ & ?).
  - intros d Hd. now destruct (w d Hd) as (? & _ & _).
  - exists l. auto.
Qed.
Lemma wext_same : forall s s',
  next s' = next s -> phase s' = phase s -> queue s' = queue s -> tasks s' = tasks s -> log s' = log s ->
  wext s s'.
Proof.
  intros s s' Hn Hp Hq Ht Hl. split.
  - lia.
  - intros. now rewrite Hp.
  - intros d Hd. exfalso. lia.
  - rewrite Hn, Nat.sub_diag, Hq. simpl. now rewrite app_nil_r.
  - exact Ht.
  - exists []. split; auto.
Qed.

Lemma wext_fire_all : forall kids s, wext s (fire_all kids s).
Proof. intros. destruct (ext_fire_all kids s) as (l & Hx & Hl). eapply wext_ext; eauto. eapply LF_nonh; eauto. Qed.
Lemma wext_fire_der : forall k e s, wext s (fire_der k e s).
Proof. intros. eapply wext_ext; [apply ext_fire_der|]. repeat constructor. Qed.
Lemma wext_inform : forall f e s, wext s (inform f e s).
Proof.
  intros. destruct (ext_inform f e s) as (l & Hx & Hl). eapply wext_ext; eauto.
  destruct Hl as [-> | ->]; repeat constructor.
Qed.
Lemma wext_raise_feedback : forall e s, wext s (raise_feedback e s).
Proof. intros. eapply wext_ext; [apply ext_raise_feedback|]. apply (fb_facts e (ev_fail (spec s e))). Qed.

Lemma wext_propagate : forall f o x s, wext s (propagate f o x s).
Proof.
  induction f as [|f IH]; intros o x s; unfold propagate; fold propagate; [apply wext_refl|].
  destruct (vpar s o) as [p|]; [|apply wext_refl].
  eapply wext_trans; [|apply IH].
  destruct x; try (apply wext_same; reflexivity);
    (eapply wext_trans; [|apply wext_inform]; apply wext_same; reflexivity).
Qed.

Lemma wext_set_value : forall e x s, wext s (set_value e x s).
Proof.
  intros e x s. unfold set_value.
  assert (Hl : wext s (set_value_local e x s)).
  { unfold set_value_local. destruct (is_none x); [apply wext_same; reflexivity|].
    eapply wext_trans; [|apply wext_inform]. apply wext_same; reflexivity. }
  destruct x; try (eapply wext_trans; [exact Hl | apply wext_propagate]).
  eapply wext_trans; [|apply wext_propagate]. apply wext_same; reflexivity.
Qed.

Lemma wfr_wext : forall e s s', e < next s -> wext s s' -> wfr e [] s s'.
Proof.
  intros e s s' He [n o w q t (l & g & p)]. split; auto.
  - now rewrite o.
  - exists l. split; auto. now apply hpart_nonh.
Qed.

(* a unit of handler activity on e: frame, new tasks, phase of e untouched *)
Record wu (e : nat) (h : list entry) (tn : list task) (s s' : st) : Prop := {
  wu_fr : wfr e h s s';
  wu_tasks : tasks s' = tasks s ++ tn;
  wu_ph : phase s' e = phase s e
}.

Lemma wu_trans : forall e h1 h2 t1 t2 s s1 s2,
  e < next s -> wu e h1 t1 s s1 -> wu e h2 t2 s1 s2 -> wu e (h2 ++ h1) (t1 ++ t2) s s2.
Proof.
  intros e h1 h2 t1 t2 s s1 s2 He [f1 a1 p1] [f2 a2 p2]. split.
  - eapply wfr_trans; eauto.
  - rewrite a2, a1. now rewrite app_assoc.
  - congruence.
Qed.
Lemma wu_wext : forall e s s', e < next s -> wext s s' -> wu e [] [] s s'.
Proof.
  intros e s s' He Hx. split.
  - now apply wfr_wext.
  - rewrite (y_tasks _ _ Hx). now rewrite app_nil_r.
  - apply (y_old _ _ Hx). exact He.
Qed.
Lemma wu_same : forall e s s', e < next s ->
  next s' = next s -> phase s' = phase s -> queue s' = queue s -> tasks s' = tasks s -> log s' = log s ->
  wu e [] [] s s'.
Proof. intros. apply wu_wext; auto. now apply wext_same. Qed.
Lemma wu_add_log : forall e x s, wu e (hpart [x]) [] s (add_log x s).
Proof.
  intros. split; simpl; auto; [|now rewrite app_nil_r]. split; simpl; auto.
  - intros d Hd. exfalso. lia.
  - rewrite Nat.sub_diag. simpl. now rewrite app_nil_r.
  - exists [x]. split; auto.
Qed.
Lemma wu_next : forall e h t s s', wu e h t s s' -> next s <= next s'.
Proof. intros e h t s s' H. apply (w_next _ _ _ _ (wu_fr _ _ _ _ _ H)). Qed.

Lemma wrun_handler : forall e i h err s, e < next s ->
  wu e (match h with HP _ _ => [LH e i] | HG _ _ _ => [] end)
       (match h with HG _ _ _ => [{| tev := e; thd := i; tk := 0 |}] | _ => [] end)
     s (fst (run_handler e i h err s)).
Proof.
  intros e i h err s He. destruct h as [kids r | ys lk gr]; simpl.
  - assert (H1 : wu e [LH e i] [] s (fire_all kids (add_log (LH e i) s))).
    { change [LH e i] with ([] ++ hpart [LH e i]). change (@nil task) with (@nil task ++ []).
      eapply wu_trans; [exact He | apply wu_add_log | apply wu_wext; [exact He | apply wext_fire_all]]. }
    assert (He1 : e < next (fire_all kids (add_log (LH e i) s))) by (pose proof (wu_next _ _ _ _ _ H1); lia).
    assert (Hthen : forall s2, wext (fire_all kids (add_log (LH e i) s)) s2 -> wu e [LH e i] [] s s2).
    { intros s2 Hx. change [LH e i] with ([] ++ [LH e i]). change (@nil task) with (@nil task ++ []).
      eapply wu_trans; [exact He | exact H1 | apply wu_wext; auto]. }
    destruct (unstop r) as [v| |sp|r']; simpl.
    + destruct (is_none v); auto. apply Hthen. apply wext_set_value.
    + apply Hthen. eapply wext_trans; [|apply wext_set_value].
      eapply wext_trans; [|apply wext_raise_feedback]. apply wext_same; reflexivity.
    + apply Hthen. eapply wext_trans; [|apply wext_set_value].
      eapply wext_ext; [apply ext_fire_user | repeat constructor].
    + exact H1.
  - unfold add_task, set_promise. split; simpl; auto. split; simpl; auto.
    + intros d Hd. exfalso. lia.
    + rewrite Nat.sub_diag. simpl. now rewrite app_nil_r.
    + exists []. split; auto.
Qed.

Definition lh_from (e i : nat) (x : entry) : Prop := exists j, x = LH e j /\ i <= j.
Definition task_from (e i : nat) (t : task) : Prop := tev t = e /\ tk t = 0 /\ i <= thd t.

Lemma wrun_handlers : forall e hs i err s, e < next s ->
  exists h tn, wu e h tn s (fst (run_handlers e i hs err s)) /\
    Forall (lh_from e i) h /\ NoDup h /\ Forall (task_from e i) tn /\ NoDup (map thd tn).
Proof.
  intros e hs. induction hs as [|h0 r IH]; intros i err s He; simpl.
  - exists [], []. split; [apply wu_same; auto|]. repeat split; constructor.
  - pose proof (wrun_handler e i h0 err s He) as H1.
    destruct (run_handler e i h0 err s) as [s1 err1]. simpl in H1.
    set (h1 := match h0 with HP _ _ => [LH e i] | HG _ _ _ => [] end) in *.
    set (t1 := match h0 with HG _ _ _ => [{| tev := e; thd := i; tk := 0 |}] | _ => [] end) in *.
    assert (Hh1 : Forall (lh_from e i) h1 /\ NoDup h1 /\ (forall x, In x h1 -> x = LH e i)).
    { unfold h1. destruct h0; repeat split; repeat constructor; simpl; try tauto.
      - exists i. auto.
      - intros x [<-|[]]. auto. }
    assert (Ht1 : Forall (task_from e i) t1 /\ NoDup (map thd t1) /\ (forall t, In t t1 -> thd t = i)).
    { unfold t1. destruct h0; repeat split; repeat constructor; simpl; try tauto.
      intros t [<-|[]]. auto. }
    destruct Hh1 as (a1 & a2 & a3). destruct Ht1 as (b1 & b2 & b3).
    destruct (stops h0); simpl.
    + exists h1, t1. split; [exact H1|]. repeat split; auto.
    + assert (He1 : e < next s1) by (pose proof (wu_next _ _ _ _ _ H1); lia).
      destruct (IH (S i) err1 s1 He1) as (h2 & t2 & H2 & c1 & c2 & c3 & c4).
      exists (h2 ++ h1), (t1 ++ t2). split; [eapply wu_trans; eauto|].
      assert (Hw1 : forall x, lh_from e (S i) x -> lh_from e i x).
      { intros x (j & -> & Hj). exists j. split; auto. lia. }
      assert (Hw2 : forall t, task_from e (S i) t -> task_from e i t).
      { intros t (p1 & p2 & p3). repeat split; auto. lia. }
      repeat split.
      * apply Forall_app. split; auto. eapply Forall_impl; [|exact c1]. auto.
      * clear - a2 a3 c1 c2. induction h2 as [|x h2 IHh]; simpl; auto.
        inversion c1; inversion c2; subst. constructor; auto.
        intros Hin. apply in_app_or in Hin. destruct Hin as [Hin|Hin]; auto.
        apply a3 in Hin. destruct H1 as (j & Hx & Hj). rewrite Hx in Hin. inversion Hin. lia.
      * apply Forall_app. split; auto. eapply Forall_impl; [|exact c3]. auto.
      * rewrite map_app. clear - b2 b3 c3 c4. induction t1 as [|t t1 IHt]; simpl; auto.
        inversion b2; subst. constructor.
        -- intros Hin. apply in_app_or in Hin. destruct Hin as [Hin|Hin]; auto.
           apply in_map_iff in Hin. destruct Hin as (t' & Ht' & Hin).
           rewrite Forall_forall in c3. destruct (c3 _ Hin) as (_ & _ & Hle).
           rewrite Ht', (b3 t) in Hle by (simpl; auto). lia.
        -- apply IHt; auto. intros t' Hin. apply b3. simpl; auto.
Qed.

Lemma wfr_same_but_phase : forall e p s, p <> PQueued -> wfr e [] s (set_phase e p s).
Proof.
  intros e p s Hp. split; simpl; auto.
  - intros d Hd Hne. unfold upd. destruct (Nat.eqb d e) eqn:E; auto. apply Nat.eqb_eq in E. contradiction.
  - intros _. now rewrite upd_same.
  - intros d Hd. exfalso. lia.
  - rewrite Nat.sub_diag. simpl. now rewrite app_nil_r.
  - exists []. split; auto.
Qed.

Lemma wevent_done : forall e err s, e < next s ->
  wfr e [] s (event_done e err s) /\ tasks (event_done e err s) = tasks s.
Proof.
  intros e err s He. unfold event_done. destruct (Nat.eqb (waiting s e) 0).
  - cbv zeta. match goal with |- context [if ?c then _ else _] => destruct c end.
    + split.
      * change (@nil entry) with (@nil entry ++ []).
        eapply wfr_trans; [exact He | apply (wfr_same_but_phase e PFin s); discriminate |].
        apply wfr_wext; [exact He | apply wext_fire_der].
      * rewrite (y_tasks _ _ (wext_fire_der DSucc e (set_phase e PFin s))). reflexivity.
    + split; [apply wfr_same_but_phase; discriminate | reflexivity].
  - split; [apply wfr_wext; [exact He | apply wext_refl] | reflexivity].
Qed.

Lemma wlog_all : forall xs s, Forall nonh xs -> wext s (log_all xs s).
Proof.
  induction xs as [|x r IH]; intros s H; simpl; [apply wext_refl|]. inversion H; subst.
  eapply wext_trans; [|apply IH; auto].
  split; simpl; auto.
  - intros d Hd. exfalso. lia.
  - rewrite Nat.sub_diag. simpl. now rewrite app_nil_r.
  - exists [x]. split; auto.
Qed.

(* the dispatcher pass of e *)
Lemma wdispatch : forall e s, e < next s ->
  exists h tn, wfr e h s (dispatch e s) /\ tasks (dispatch e s) = tasks s ++ tn /\
    phase (dispatch e s) e <> PQueued /\
    Forall (lh_from e 0) h /\ NoDup h /\ Forall (task_from e 0) tn /\ NoDup (map thd tn).
Proof.
  intros e s He. unfold dispatch. destruct (kind s e) as [|k x a o].
  - set (s0 := set_phase e PActive s).
    assert (He0 : e < next s0) by exact He.
    destruct (wrun_handlers e (ev_hs (spec s0 e)) 0 false s0 He0) as (h & tn & H1 & p1 & p2 & p3 & p4).
    destruct (run_handlers e 0 (ev_hs (spec s0 e)) false s0) as [s1 err]. simpl in H1.
    assert (He1 : e < next s1) by (pose proof (wu_next _ _ _ _ _ H1); lia).
    set (xs := if existsb stops (ev_hs (spec s0 e)) then [] else map (LDU e) (observers true (ev_both (spec s1 e)))).
    assert (Hxs : Forall nonh xs).
    { unfold xs, observers. destruct (existsb stops (ev_hs (spec s0 e))); [constructor|].
      destruct (ev_both (spec s1 e)); simpl; repeat constructor. }
    pose proof (wlog_all xs s1 Hxs) as H2.
    set (s2 := log_all xs s1) in *.
    assert (He2 : e < next s2) by (pose proof (y_next _ _ H2); lia).
    destruct (wevent_done e err s2 He2) as (H3 & Ht3).
    assert (Hfr : wfr e h s (event_done e err s2)).
    { assert (Hc : wfr e (([] ++ [] ++ h) ++ []) s (event_done e err s2)).
      { eapply wfr_trans; [exact He | apply (wfr_same_but_phase e PActive s); discriminate |].
        eapply wfr_trans; [exact He0 | | exact H3].
        eapply wfr_trans; [exact He0 | apply (wu_fr _ _ _ _ _ H1) | apply wfr_wext; auto]. }
      rewrite app_nil_r in Hc. exact Hc. }
    exists h, tn. split; [exact Hfr|]. split.
    { rewrite Ht3, (y_tasks _ _ H2), (wu_tasks _ _ _ _ _ H1). reflexivity. }
    split.
    { apply (w_e _ _ _ _ H3). rewrite (y_old _ _ H2 e He1), (wu_ph _ _ _ _ _ H1). simpl. rewrite upd_same. discriminate. }
    auto.
  - set (xs := map (LDD k x) (observers a o)).
    assert (Hxs : Forall nonh xs).
    { unfold xs, observers. destruct a, o; simpl; repeat constructor. }
    pose proof (wlog_all xs s Hxs) as H2.
    exists [], []. split.
    { change (@nil entry) with (@nil entry ++ []).
      eapply wfr_trans; [exact He | apply wfr_wext; [exact He | exact H2] |].
      apply wfr_same_but_phase. discriminate. }
    split; [simpl; rewrite (y_tasks _ _ H2); now rewrite app_nil_r|].
    split; [simpl; rewrite upd_same; discriminate|].
    repeat split; constructor.
Qed.

Lemma wtask_stop : forall p e s, e < next s ->
  wfr e [] s (task_stop p e s) /\ tasks (task_stop p e s) = remove_nth p (tasks s).
Proof.
  intros p e s He. unfold task_stop.
  set (s1 := set_tasks (remove_nth p (tasks s)) (set_wait e (pred (waiting s e)) s)).
  assert (H1 : wfr e [] s s1).
  { split; simpl; auto.
    - intros d Hd. exfalso. lia.
    - rewrite Nat.sub_diag. simpl. now rewrite app_nil_r.
    - exists []. split; auto. }
  assert (He1 : e < next s1) by exact He.
  destruct (Nat.eqb (waiting s1 e) 0); [|split; auto].
  pose proof (wext_inform true e s1) as H2.
  assert (He2 : e < next (inform true e s1)) by (pose proof (y_next _ _ H2); lia).
  destruct (wevent_done e false (inform true e s1) He2) as (H3 & Ht3). split.
  - change (@nil entry) with (@nil entry ++ ([] ++ [])).
    eapply wfr_trans; [exact He | | exact H3].
    eapply wfr_trans; [exact He | exact H1 | apply wfr_wext; auto].
  - rewrite Ht3, (y_tasks _ _ H2). reflexivity.
Qed.

Lemma wtask_raise : forall p e s, e < next s ->
  wfr e [] s (task_raise p e s) /\ tasks (task_raise p e s) = remove_nth p (tasks s).
Proof.
  intros p e s He. unfold task_raise.
  set (s1 := set_tasks (remove_nth p (tasks s)) s).
  assert (H1 : wfr e [] s s1).
  { split; simpl; auto.
    - intros d Hd. exfalso. lia.
    - rewrite Nat.sub_diag. simpl. now rewrite app_nil_r.
    - exists []. split; auto. }
  assert (He1 : e < next s1) by exact He.
  set (s2 := inform true e (set_errors e (set_value e PErr s1))).
  assert (H2 : wext s1 s2).
  { unfold s2. eapply wext_trans; [apply wext_set_value|].
    eapply wext_trans; [|apply wext_inform]. apply wext_same; reflexivity. }
  set (s3 := raise_feedback e s2).
  assert (H3 : wext s1 s3) by (eapply wext_trans; [exact H2 | apply wext_raise_feedback]).
  set (s4 := set_wait e (pred (waiting s3 e)) s3).
  assert (H4 : wext s1 s4) by (eapply wext_trans; [exact H3 | apply wext_same; reflexivity]).
  assert (He4 : e < next s4) by (pose proof (y_next _ _ H4); lia).
  destruct (wevent_done e true s4 He4) as (H5 & Ht5). split.
  - change (@nil entry) with (@nil entry ++ ([] ++ [])).
    eapply wfr_trans; [exact He | | exact H5].
    eapply wfr_trans; [exact He | exact H1 | apply wfr_wext; auto].
  - rewrite Ht5, (y_tasks _ _ H4). reflexivity.
Qed.

(* one task step: either nothing happens, or exactly one segment entry is logged and the task advances / ends *)
Lemma wstep_task : forall p t0 s,
  nth_error (tasks s) p = Some t0 -> tev t0 < next s ->
  step_task p s = s \/
  (wfr (tev t0) [LG (tev t0) (thd t0) (tk t0)] s (step_task p s) /\
   (tasks (step_task p s) = replace_nth p {| tev := tev t0; thd := thd t0; tk := S (tk t0) |} (tasks s) \/
    tasks (step_task p s) = remove_nth p (tasks s))).
Proof.
  intros p t0 s Hn He. unfold step_task. rewrite Hn. set (e := tev t0) in *.
  destruct (nth_error (ev_hs (spec s e)) (thd t0)) as [[kids r | ys lk gr]|]; auto. right.
  assert (Henter : forall kids, wu e [LG e (thd t0) (tk t0)] [] s (fire_all kids (add_log (LG e (thd t0) (tk t0)) s))).
  { intros kids. change [LG e (thd t0) (tk t0)] with ([] ++ hpart [LG e (thd t0) (tk t0)]).
    change (@nil task) with (@nil task ++ []).
    eapply wu_trans; [exact He | apply wu_add_log | apply wu_wext; [exact He | apply wext_fire_all]]. }
  destruct (nth_error ys (tk t0)) as [[kids y]|].
  - pose proof (Henter kids) as H1.
    set (s2 := fire_all kids (add_log (LG e (thd t0) (tk t0)) s)) in *.
    assert (He2 : e < next s2) by (pose proof (wu_next _ _ _ _ _ H1); lia).
    assert (H2 : wu e [LG e (thd t0) (tk t0)] [] s (if is_none y then s2 else set_value e y s2)).
    { destruct (is_none y); auto. change [LG e (thd t0) (tk t0)] with ([] ++ [LG e (thd t0) (tk t0)]).
      change (@nil task) with (@nil task ++ []).
      eapply wu_trans; [exact He | exact H1 | apply wu_wext; [exact He2 | apply wext_set_value]]. }
    set (s3 := if is_none y then s2 else set_value e y s2) in *.
    split.
    + destruct (wu_fr _ _ _ _ _ H2) as [a b c d f g]. split; simpl; auto.
    + left. simpl. rewrite (wu_tasks _ _ _ _ _ H2). now rewrite app_nil_r.
  - pose proof (Henter lk) as H1.
    set (s2 := fire_all lk (add_log (LG e (thd t0) (tk t0)) s)) in *.
    assert (He2 : e < next s2) by (pose proof (wu_next _ _ _ _ _ H1); lia).
    assert (Hend : wfr e [] s2 (if gr then task_raise p e s2 else task_stop p e s2) /\
                   tasks (if gr then task_raise p e s2 else task_stop p e s2) = remove_nth p (tasks s2)).
    { destruct gr; [apply wtask_raise | apply wtask_stop]; auto. }
    destruct Hend as (H2 & Ht2). split.
    + change [LG e (thd t0) (tk t0)] with ([] ++ [LG e (thd t0) (tk t0)]).
      eapply wfr_trans; [exact He | apply (wu_fr _ _ _ _ _ H1) | destruct gr; exact H2].
    + right. destruct gr; rewrite Ht2, (wu_tasks _ _ _ _ _ H1); now rewrite app_nil_r.
Qed.

Definition key (t : task) : nat * nat := (tev t, thd t).


Record SInv (s : st) : Prop := {
  s_q1 : forall d, In d (queue s) -> d < next s /\ phase s d = PQueued;
  s_q2 : NoDup (queue s);
  s_t1 : forall t, In t (tasks s) -> tev t < next s /\ phase s (tev t) <> PQueued;
  s_t2 : NoDup (map key (tasks s));
  s_l1 : forall x d, In x (log s) -> hentry x d -> d < next s /\ phase s d <> PQueued;
  s_l3 : forall t k, In t (tasks s) -> In (LG (tev t) (thd t) k) (log s) -> k < tk t;
  s_o1 : NoDup (hpart (log s));
  s_o2 : hordered (hpart (log s))
}.

Lemma nodup_app' : forall A (a b : list A),
  NoDup a -> NoDup b -> (forall x, In x a -> ~ In x b) -> NoDup (a ++ b).
Proof.
  induction a as [|x a IH]; intros b Ha Hb H; simpl; auto.
  inversion Ha; subst. constructor.
  - intros Hi. apply in_app_or in Hi. destruct Hi; [contradiction | apply (H x); simpl; auto].
  - apply IH; auto. intros y Hy. apply H. simpl; auto.
Qed.

Lemma in_hpart : forall x l, In x (hpart l) <-> In x l /\ is_h x = true.
Proof. intros. unfold hpart. apply filter_In. Qed.

Lemma is_h_hentry : forall x, is_h x = true -> exists d, hentry x d.
Proof. intros [] H; simpl in *; try discriminate; eauto. Qed.
Lemma hentry_is_h : forall x d, hentry x d -> is_h x = true.
Proof. intros [] d H; simpl in *; auto; contradiction. Qed.

Lemma in_replace_nth_ix : forall (x v : task) p ts,
  In x (replace_nth p v ts) -> x = v \/ exists q, q <> p /\ nth_error ts q = Some x.
Proof.
  intros x v p ts. revert p. induction ts as [|t ts IH]; intros p H; destruct p; simpl in *; try contradiction.
  - destruct H as [H|H]; auto. right. apply In_nth_error in H. destruct H as (q & Hq). exists (S q). split; auto.
  - destruct H as [H|H].
    + right. exists 0. split; auto. now subst.
    + destruct (IH p H) as [->|(q & Hq & Hn)]; auto. right. exists (S q). split; auto.
Qed.
Lemma in_remove_nth_ix : forall (x : task) p ts,
  In x (remove_nth p ts) -> exists q, q <> p /\ nth_error ts q = Some x.
Proof.
  intros x p ts. revert p. induction ts as [|t ts IH]; intros p H; destruct p; simpl in *; try contradiction.
  - apply In_nth_error in H. destruct H as (q & Hq). exists (S q). split; auto.
  - destruct H as [H|H].
    + exists 0. split; auto. now subst.
    + destruct (IH p H) as (q & Hq & Hn). exists (S q). split; auto.
Qed.

Lemma key_unique : forall ts p q a b,
  NoDup (map key ts) -> nth_error ts p = Some a -> nth_error ts q = Some b -> key a = key b -> p = q.
Proof.
  intros ts p q a b Hnd Hp Hq Hk.
  assert (Hlen : p < length (map key ts)).
  { rewrite map_length. apply nth_error_Some. congruence. }
  apply (proj1 (NoDup_nth_error (map key ts)) Hnd p q Hlen).
  rewrite (map_nth_error key _ _ Hp), (map_nth_error key _ _ Hq). congruence.
Qed.

Lemma map_key_replace : forall p v t0 ts,
  nth_error ts p = Some t0 -> key v = key t0 -> map key (replace_nth p v ts) = map key ts.
Proof.
  intros p v t0 ts. revert p. induction ts as [|t ts IH]; intros p Hn Hk; destruct p; simpl in *; try discriminate; auto.
  - inversion Hn; subst. now rewrite Hk.
  - now rewrite (IH p).
Qed.
Lemma nodup_map_remove : forall p ts, NoDup (map key ts) -> NoDup (map key (remove_nth p ts)).
Proof.
  intros p ts. revert p. induction ts as [|t ts IH]; intros p H; destruct p; simpl in *; auto.
  - now inversion H.
  - inversion H; subst. constructor; auto.
    intros Hin. apply H2. apply in_map_iff in Hin. destruct Hin as (x & Hx & Hin).
    apply in_map_iff. exists x. split; auto.
    destruct (in_remove_nth_ix _ _ _ Hin) as (q & _ & Hq). eapply nth_error_In; eauto.
Qed.

Lemma sinv_start : forall roots, SInv (start roots).
Proof.
  intros roots. unfold start.
  destruct (ext_fire_all roots init) as (l & [x1 x2 x3 x4 x5 x6] & Hl).
  set (s := fire_all roots init) in *. simpl in x1, x3, x4, x5, x6.
  rewrite Nat.sub_0_r in x5. rewrite app_nil_r in x6.
  assert (Hh : hpart (log s) = []) by (rewrite x6; apply hpart_nonh; eapply LF_nonh; eauto).
  split.
  - intros d Hd. rewrite x5 in Hd. apply in_seq in Hd. split; [lia|]. apply x3. lia.
  - rewrite x5. apply seq_NoDup.
  - intros t Hin. rewrite x4 in Hin. contradiction.
  - rewrite x4. constructor.
  - intros x d Hin Hh'. exfalso. assert (In x (hpart (log s))) by (apply in_hpart; split; auto; eapply hentry_is_h; eauto).
    rewrite Hh in H. contradiction.
  - intros t k Hin. rewrite x4 in Hin. contradiction.
  - rewrite Hh. constructor.
  - rewrite Hh. intros h1 h2 e i k H. destruct h1; discriminate.
Qed.

Lemma sinv_step : forall lb s, SInv s -> SInv (step lb s).
Proof.
  intros lb s HI. pose proof HI as [q1 q2 t1 t2 l1 l3 o1 o2]. destruct lb as [|p]; simpl.
  - (* dispatch *)
    destruct (queue s) as [|e q] eqn:Hq; auto.
    assert (He : e < next s /\ phase s e = PQueued) by (apply q1; simpl; auto).
    destruct He as (He & Hpe). inversion q2 as [|? ? Hnin Hnd]; subst.
    set (s0 := set_queue q s).
    destruct (wdispatch e s0 He) as (h & tn & Hfr & Htk & Hpe' & p1 & p2 & p3 & p4).
    set (s' := dispatch e s0) in *.
    destruct Hfr as [n o we w qq (l & Hl & Hh)]. simpl in n, o, we, w, qq, Hl.
    assert (Hnoh : forall x, In x (log s) -> ~ hentry x e).
    { intros x Hin Hx. destruct (l1 x e Hin Hx) as (_ & Hp). congruence. }
    assert (Hlh : forall x, In x l -> is_h x = true -> exists j, x = LH e j).
    { intros x Hin Hx. assert (Hi : In x h) by (rewrite <- Hh; apply in_hpart; auto).
      rewrite Forall_forall in p1. destruct (p1 x Hi) as (j & -> & _). eauto. }
    assert (Htold : forall t, In t (tasks s) -> tev t <> e).
    { intros t Hin Heq. destruct (t1 t Hin) as (_ & Hp). congruence. }
    split.
    + intros d Hd. rewrite qq in Hd. apply in_app_or in Hd. destruct Hd as [Hd|Hd].
      * destruct (q1 d ltac:(simpl; auto)) as (Hlt & Hp). assert (d <> e) by (intros ->; contradiction).
        split; [lia|]. rewrite o; auto.
      * apply in_seq in Hd. split; [lia|]. apply w. lia.
    + rewrite qq. apply nodup_app'; auto; [apply seq_NoDup|].
      intros x Hx Hs. apply in_seq in Hs. destruct (q1 x ltac:(simpl; auto)). lia.
    + intros t Hin. rewrite Htk in Hin. apply in_app_or in Hin. destruct Hin as [Hin|Hin].
      * destruct (t1 t Hin) as (Hlt & Hp). split; [lia|]. rewrite o; auto.
      * rewrite Forall_forall in p3. destruct (p3 t Hin) as (-> & _). split; [lia | exact Hpe'].
    + rewrite Htk, map_app. apply nodup_app'; auto.
      * clear - p3 p4. induction tn as [|t tn IH]; simpl; [constructor|].
        inversion p3; inversion p4; subst. constructor; auto.
        intros Hin. apply in_map_iff in Hin. destruct Hin as (t' & Hk & Hin).
        apply H5. apply in_map_iff. exists t'. split; auto. unfold key in Hk. congruence.
      * intros x Hx Hx'. apply in_map_iff in Hx. destruct Hx as (t & <- & Hin).
        apply in_map_iff in Hx'. destruct Hx' as (t' & Hk & Hin').
        rewrite Forall_forall in p3. destruct (p3 t' Hin') as (Ht' & _).
        apply (Htold t Hin). unfold key in Hk. congruence.
    + intros x d Hin Hx. rewrite Hl in Hin. apply in_app_or in Hin. destruct Hin as [Hin|Hin].
      * destruct (Hlh x Hin (hentry_is_h _ _ Hx)) as (j & ->). simpl in Hx. subst d. split; [lia | exact Hpe'].
      * destruct (l1 x d Hin Hx) as (Hlt & Hp). split; [lia|].
        assert (d <> e) by (intros ->; congruence). rewrite o; auto.
    + intros t k Hin Hlg. rewrite Hl in Hlg. apply in_app_or in Hlg. destruct Hlg as [Hlg|Hlg].
      * destruct (Hlh _ Hlg eq_refl) as (j & Hj). discriminate.
      * rewrite Htk in Hin. apply in_app_or in Hin. destruct Hin as [Hin|Hin]; [eapply l3; eauto|].
        exfalso. rewrite Forall_forall in p3. destruct (p3 t Hin) as (Ht & _).
        apply (Hnoh _ Hlg). simpl. exact Ht.
    + rewrite Hl, hpart_app, Hh. apply nodup_app'; auto.
      intros x Hx Hx'. apply in_hpart in Hx'. destruct Hx' as (Hin & _).
      rewrite Forall_forall in p1. destruct (p1 x Hx) as (j & -> & _). apply (Hnoh _ Hin). reflexivity.
    + rewrite Hl, hpart_app, Hh. intros h1 h2 e' i k Heq k' Hin.
      assert (Hnot : ~ In (LG e' i k) h).
      { intros Hi. rewrite Forall_forall in p1. destruct (p1 _ Hi) as (j & Hj & _). discriminate. }
      destruct (in_split_app _ _ _ _ _ Heq Hnot) as (h1' & -> & Heq'). eapply o2; eauto.
  - (* task step *)
    destruct (nth_error (tasks s) p) as [t0|] eqn:Hn.
    2:{ unfold step_task. now rewrite Hn. }
    destruct (t1 t0 (nth_error_In _ _ Hn)) as (He & Hp0).
    destruct (wstep_task p t0 s Hn He) as [-> | (Hfr & Htk)]; auto.
    set (s' := step_task p s) in *. set (e := tev t0) in *.
    destruct Hfr as [n o we w qq (l & Hl & Hh)].
    assert (Hlg : forall x, In x l -> is_h x = true -> x = LG e (thd t0) (tk t0)).
    { intros x Hin Hx. assert (Hi : In x (hpart l)) by (apply in_hpart; auto). rewrite Hh in Hi.
      destruct Hi as [<-|[]]. reflexivity. }
    assert (Hfresh : ~ In (LG e (thd t0) (tk t0)) (log s)).
    { intros Hin. pose proof (l3 t0 _ (nth_error_In _ _ Hn) Hin). lia. }
    assert (Hpe : phase s' e <> PQueued) by auto.
    assert (Hneq : ~ In e (queue s)) by (intros Hin; destruct (q1 _ Hin); congruence).
    set (t0' := {| tev := e; thd := thd t0; tk := S (tk t0) |}) in *.
    (* which tasks remain *)
    assert (Hrem : forall t, In t (tasks s') ->
              t = t0' \/ (exists q, q <> p /\ nth_error (tasks s) q = Some t)).
    { intros t Hin. destruct Htk as [Htk|Htk]; rewrite Htk in Hin.
      - apply in_replace_nth_ix in Hin. exact Hin.
      - right. apply in_remove_nth_ix in Hin. exact Hin. }
    assert (Hother : forall t q, q <> p -> nth_error (tasks s) q = Some t -> key t <> key t0).
    { intros t q Hq Hnq Hk. apply Hq. eapply key_unique; eauto. }
    split.
    + intros d Hd. rewrite qq in Hd. apply in_app_or in Hd. destruct Hd as [Hd|Hd].
      * destruct (q1 d Hd) as (Hlt & Hp). assert (d <> e) by (intros ->; contradiction).
        split; [lia|]. rewrite o; auto.
      * apply in_seq in Hd. split; [lia|]. apply w. lia.
    + rewrite qq. apply nodup_app'; auto; [apply seq_NoDup|].
      intros x Hx Hs. apply in_seq in Hs. destruct (q1 x Hx). lia.
    + intros t Hin. destruct (Hrem t Hin) as [->|(q & _ & Hnq)].
      * simpl. split; [lia | exact Hpe].
      * destruct (t1 t (nth_error_In _ _ Hnq)) as (Hlt & Hp). split; [lia|].
        destruct (Nat.eq_dec (tev t) e) as [->|Hne]; auto. rewrite o; auto.
    + destruct Htk as [Htk|Htk]; rewrite Htk.
      * rewrite (map_key_replace p t0' t0); auto.
      * now apply nodup_map_remove.
    + intros x d Hin Hx. rewrite Hl in Hin. apply in_app_or in Hin. destruct Hin as [Hin|Hin].
      * rewrite (Hlg x Hin (hentry_is_h _ _ Hx)) in Hx. simpl in Hx. subst d. split; [lia | exact Hpe].
      * destruct (l1 x d Hin Hx) as (Hlt & Hp). split; [lia|].
        destruct (Nat.eq_dec d e) as [->|Hne]; auto. rewrite o; auto.
    + intros t k Hin Hlgk. rewrite Hl in Hlgk. apply in_app_or in Hlgk.
      destruct (Hrem t Hin) as [->|(q & Hq & Hnq)].
      * simpl. destruct Hlgk as [Hi|Hi].
        -- pose proof (Hlg _ Hi eq_refl) as Heq. simpl in Heq. inversion Heq. lia.
        -- pose proof (l3 t0 k (nth_error_In _ _ Hn) Hi). lia.
      * destruct Hlgk as [Hi|Hi].
        -- exfalso. pose proof (Hlg _ Hi eq_refl) as Heq. inversion Heq.
           apply (Hother t q Hq Hnq). unfold key. fold e. congruence.
        -- eapply l3; eauto. eapply nth_error_In; eauto.
    + rewrite Hl, hpart_app, Hh. simpl. constructor; auto.
      intros Hin. apply in_hpart in Hin. destruct Hin as (Hin & _). contradiction.
    + rewrite Hl, hpart_app, Hh. simpl. intros h1 h2 e' i k Heq k' Hin.
      destruct h1 as [|x h1]; simpl in Heq; inversion Heq; subst.
      * apply in_hpart in Hin. destruct Hin as (Hin & _).
        pose proof (l3 t0 k' (nth_error_In _ _ Hn) Hin). lia.
      * eapply o2; eauto.
Qed.

Lemma sinv_exec : forall ls s, SInv s -> SInv (exec ls s).
Proof. induction ls as [|lb ls IH]; intros s H; simpl; auto. apply IH. now apply sinv_step. Qed.

(* ALL programs: in every reachable state every plain handler has at most one invocation entry, every
   segment of every generator handler at most one entry, and older segment entries of a handler have
   smaller numbers *)
Theorem each_handler_once : forall s, reachable s ->
  NoDup (hpart (log s)) /\ hordered (hpart (log s)).
Proof.
  intros s (roots & ls & ->). pose proof (sinv_exec ls _ (sinv_start roots)) as H.
  split; [apply (s_o1 _ H) | apply (s_o2 _ H)].
Qed.

(* ------------------------------------------------------------------ ALL programs (repaired setValue): the errors flag
   is sticky, so a failure is never followed by <name>_success *)

(* scripts of existing events are untouched and errors flags only ever go from False to True *)
Record emono (s s' : st) : Prop := {
  em_next : next s <= next s';
  em_spec : forall d, d < next s -> spec s' d = spec s d;
  em_err : forall d, d < next s -> verrors (val s d) = true -> verrors (val s' d) = true
}.

Lemma emono_refl : forall s, emono s s.
Proof. intros. split; auto. Qed.
Lemma emono_trans : forall s s1 s2, emono s s1 -> emono s1 s2 -> emono s s2.
Proof.
  intros s s1 s2 [n1 a1 b1] [n2 a2 b2]. split.
  - lia.
  - intros d Hd. rewrite a2 by lia. auto.
  - intros d Hd H. apply b2; [lia|]. auto.
Qed.
Lemma emono_ext : forall l s s', ext l s s' -> emono s s'.
Proof.
  intros l s s' Hx. split.
  - apply (x_next _ _ _ Hx).
  - intros d Hd. eapply ext_spec; eauto.
  - intros d Hd H. now rewrite (ext_val _ _ _ d Hx Hd).
Qed.
Lemma emono_same : forall s s', next s' = next s -> spec s' = spec s -> val s' = val s -> emono s s'.
Proof. intros s s' Hn Hs Hv. split; [lia | intros; now rewrite Hs | intros; now rewrite Hv]. Qed.
Lemma emono_set_val : forall d v s, (verrors (val s d) = true -> verrors v = true) -> emono s (set_val d v s).
Proof.
  intros d v s H. split; simpl; auto. intros d' Hd' H'. unfold upd. destruct (Nat.eqb d' d) eqn:E; auto.
  apply Nat.eqb_eq in E. subst. auto.
Qed.

Lemma emono_inform : forall f e s, emono s (inform f e s).
Proof. intros. destruct (ext_inform f e s) as (l & Hx & _). eapply emono_ext; eauto. Qed.

Lemma emono_propagate : forall f o x s, emono s (propagate f o x s).
Proof.
  induction f as [|f IH]; intros o x s; unfold propagate; fold propagate; [apply emono_refl|].
  destruct (vpar s o) as [p|]; [|apply emono_refl].
  eapply emono_trans; [|apply IH].
  set (s1 := set_val p (with_flags (val s p) (vresult (val s o)) (verrors (val s p) || verrors (val s o))) s).
  assert (H1 : emono s s1) by (apply emono_set_val; simpl; intros ->; reflexivity).
  destruct x; try exact H1.
  - eapply emono_trans; [exact H1|]. eapply emono_trans; [|apply emono_inform]. apply emono_set_val. simpl. auto.
  - eapply emono_trans; [exact H1|]. eapply emono_trans; [|apply emono_inform]. apply emono_set_val. simpl. auto.
  - eapply emono_trans; [exact H1|]. eapply emono_trans; [|apply emono_inform]. apply emono_set_val. simpl. auto.
  - eapply emono_trans; [exact H1|]. apply emono_set_val. simpl. intros ->. reflexivity.
Qed.

Lemma emono_set_value : forall e x s, emono s (set_value e x s).
Proof.
  intros e x s. unfold set_value.
  assert (Hl : emono s (set_value_local e x s)).
  { unfold set_value_local. destruct (is_none x); [apply emono_set_val; simpl; auto|].
    eapply emono_trans; [|apply emono_inform]. apply emono_set_val. simpl. auto. }
  destruct x; try (eapply emono_trans; [exact Hl | apply emono_propagate]).
  eapply emono_trans; [|apply emono_propagate].
  eapply emono_trans; [apply (emono_same s (set_par d e s)); reflexivity|].
  apply emono_set_val. simpl. intros ->. reflexivity.
Qed.

Lemma emono_fire_all : forall kids s, emono s (fire_all kids s).
Proof. intros. destruct (ext_fire_all kids s) as (l & Hx & _). eapply emono_ext; eauto. Qed.
Lemma emono_raise_feedback : forall e s, emono s (raise_feedback e s).
Proof. intros. eapply emono_ext. apply ext_raise_feedback. Qed.

(* [nu e s s']: handler activity on e that keeps "errors is set if a logged handler of e raised" *)
Definition nu (e : nat) (s s' : st) : Prop :=
  emono s s' /\ lext s s' /\
  exists l, log s' = l ++ log s /\ (forall x, In x l -> is_h x = true -> hentry x e) /\
            (0 < nraised (spec s) e l -> verrors (val s' e) = true).

Lemma nraised_nonh : forall sp e l, Forall nonh l -> nraised sp e l = 0.
Proof. intros. apply (nonh_list sp e l H). Qed.

Lemma nu_quiet : forall e s s', emono s s' -> lext s s' -> (exists l, log s' = l ++ log s /\ Forall nonh l) -> nu e s s'.
Proof.
  intros e s s' Hm Hx (l & Hl & Hn). split; [|split]; auto. exists l. split; [|split]; auto.
  - intros x Hin Hh. rewrite Forall_forall in Hn. specialize (Hn x Hin). destruct x; simpl in *; try discriminate; contradiction.
  - rewrite (nraised_nonh _ _ _ Hn). lia.
Qed.

Lemma nu_trans : forall e s s1 s2, e < next s -> nu e s s1 -> nu e s1 s2 -> nu e s s2.
Proof.
  intros e s s1 s2 He (m1 & x1 & l1 & g1 & h1 & r1) (m2 & x2 & l2 & g2 & h2 & r2).
  split; [eapply emono_trans; eauto|]. split; [eapply lext_trans; eauto|].
  exists (l2 ++ l1). split; [rewrite g2, g1; now rewrite app_assoc|]. split.
  - intros x Hin Hh. apply in_app_or in Hin. destruct Hin; auto.
  - rewrite nraised_app. intros Hpos.
    assert (Hsp : spec s1 e = spec s e) by (apply (em_spec _ _ m1); auto).
    destruct (nraised (spec s) e l2) eqn:E2.
    + apply (em_err _ _ m2); [pose proof (em_next _ _ m1); lia|]. apply r1. lia.
    + apply r2. rewrite (nraised_sp (spec s) (spec s1)); auto. lia.
Qed.

(* quiet operations: errors monotone, no success fired, no handler activity logged *)
Definition qlog (s s' : st) : Prop := exists l, log s' = l ++ log s /\ Forall nonh l.
Lemma qlog_trans : forall s s1 s2, qlog s s1 -> qlog s1 s2 -> qlog s s2.
Proof.
  intros s s1 s2 (l1 & a1 & b1) (l2 & a2 & b2). exists (l2 ++ l1). split.
  - rewrite a2, a1. now rewrite app_assoc.
  - apply Forall_app; auto.
Qed.
Lemma qlog_wext : forall s s', wext s s' -> qlog s s'.
Proof. intros s s' H. apply (y_log _ _ H). Qed.

Definition q3 (s s' : st) : Prop := emono s s' /\ lext s s' /\ qlog s s'.
Lemma q3_trans : forall s s1 s2, q3 s s1 -> q3 s1 s2 -> q3 s s2.
Proof.
  intros s s1 s2 (a1 & b1 & c1) (a2 & b2 & c2).
  split; [eapply emono_trans; eauto | split; [eapply lext_trans; eauto | eapply qlog_trans; eauto]].
Qed.
Lemma q3_same : forall s s', next s' = next s -> spec s' = spec s -> val s' = val s -> log s' = log s -> q3 s s'.
Proof.
  intros s s' a b c d. split; [now apply emono_same | split; [now apply lext_same | exists []; split; auto]].
Qed.
Lemma q3_refl : forall s, q3 s s.
Proof. intros. apply q3_same; reflexivity. Qed.
Lemma q3_fire_all : forall kids s, q3 s (fire_all kids s).
Proof. intros. split; [apply emono_fire_all | split; [apply lext_fire_all | apply qlog_wext, wext_fire_all]]. Qed.
Lemma q3_set_value : forall e x s, q3 s (set_value e x s).
Proof. intros. split; [apply emono_set_value | split; [apply lext_set_value | apply qlog_wext, wext_set_value]]. Qed.
Lemma q3_raise_feedback : forall e s, q3 s (raise_feedback e s).
Proof. intros. split; [apply emono_raise_feedback | split; [apply lext_raise_feedback | apply qlog_wext, wext_raise_feedback]]. Qed.
Lemma q3_inform : forall f e s, q3 s (inform f e s).
Proof. intros. split; [apply emono_inform | split; [apply lext_inform | apply qlog_wext, wext_inform]]. Qed.
Lemma q3_fire_user : forall sp s, q3 s (fire_user sp s).
Proof.
  intros. pose proof (ext_fire_user sp s) as Hx.
  split; [eapply emono_ext; eauto | split; [eapply lext_ext; eauto; repeat constructor |]].
  exists [LF (next s)]. split; [apply (x_log _ _ _ Hx) | repeat constructor].
Qed.
Lemma q3_set_val : forall d v s, (verrors (val s d) = true -> verrors v = true) -> q3 s (set_val d v s).
Proof.
  intros. split; [now apply emono_set_val | split; [apply lext_same; reflexivity | exists []; split; auto]].
Qed.
Lemma q3_log_all : forall xs s, Forall nonh xs -> Forall nosucc xs -> q3 s (log_all xs s).
Proof.
  intros xs s H1 H2. split; [|split; [now apply lext_log_all | now apply qlog_wext, wlog_all]].
  clear H1 H2. revert s. induction xs as [|x r IH]; intros s; simpl; [apply emono_refl|].
  eapply emono_trans; [|apply IH]. apply emono_same; reflexivity.
Qed.

Lemma q3_next : forall s s', q3 s s' -> next s <= next s'.
Proof. intros s s' (a & _). apply (em_next _ _ a). Qed.

(* a unit: the handler-activity entry x of e is logged first, quiet operations follow *)
Lemma nu_unit : forall e x s s', e < next s -> hentry x e ->
  q3 (add_log x s) s' ->
  (raises (spec s) e x = true -> verrors (val s' e) = true) ->
  nu e s s'.
Proof.
  intros e x s s' He Hx (Hm & Hl & (la & Hla & Hnh)) Hr. simpl in Hla.
  split; [|split].
  - eapply emono_trans; [|exact Hm]. apply emono_same; reflexivity.
  - eapply lext_trans; [|exact Hl]. exists [x]. split; auto. constructor; auto.
    destruct x; simpl in *; auto; contradiction.
  - exists (la ++ [x]). split; [rewrite Hla; now rewrite <- app_assoc|]. split.
    + intros y Hin Hh. apply in_app_or in Hin. destruct Hin as [Hin|[<-|[]]]; auto.
      rewrite Forall_forall in Hnh. specialize (Hnh y Hin). destruct y; simpl in *; try discriminate; contradiction.
    + rewrite nraised_app, (nraised_nonh _ _ _ Hnh). unfold nraised. simpl.
      destruct (raises (spec s) e x) eqn:E; simpl; [auto | lia].
Qed.

Lemma nu_run_handler : forall e i h err s,
  e < next s -> nth_error (ev_hs (spec s e)) i = Some h -> nu e s (fst (run_handler e i h err s)).
Proof.
  intros e i h err s He Hnth. destruct h as [kids r | ys lk gr]; simpl.
  - assert (Hrs : raises (spec s) e (LH e i) = match unstop r with RRaise => true | _ => false end).
    { simpl. now rewrite Nat.eqb_refl, Hnth. }
    set (s0 := add_log (LH e i) s). set (s1 := fire_all kids s0).
    assert (H1 : q3 s0 s1) by apply q3_fire_all.
    assert (He1 : e < next s1) by (pose proof (q3_next _ _ H1); simpl in *; lia).
    destruct (unstop r) as [v| |sp|r'] eqn:Hu; simpl.
    + apply (nu_unit e (LH e i)); auto; [reflexivity | | rewrite Hrs; discriminate].
      destruct (is_none v); auto. eapply q3_trans; [exact H1 | apply q3_set_value].
    + apply (nu_unit e (LH e i)); auto; [reflexivity | |].
      * eapply q3_trans; [exact H1|]. eapply q3_trans; [|apply q3_set_value].
        eapply q3_trans; [|apply q3_raise_feedback]. apply q3_set_val. auto.
      * intros _.
        apply (em_err _ _ (emono_set_value e PErr (raise_feedback e (set_errors e s1)))).
        { pose proof (em_next _ _ (emono_raise_feedback e (set_errors e s1))). simpl in *. lia. }
        apply (em_err _ _ (emono_raise_feedback e (set_errors e s1))); [exact He1|].
        rewrite val_set_errors. reflexivity.
    + apply (nu_unit e (LH e i)); auto; [reflexivity | | rewrite Hrs; discriminate].
      eapply q3_trans; [exact H1|]. eapply q3_trans; [apply q3_fire_user | apply q3_set_value].
    + apply (nu_unit e (LH e i)); auto; [reflexivity | rewrite Hrs; discriminate].
  - apply nu_quiet.
    + unfold add_task, set_promise. split; simpl; auto.
      intros d Hd H. unfold upd. destruct (Nat.eqb d e) eqn:E; auto. apply Nat.eqb_eq in E. subst. exact H.
    + apply lext_same. reflexivity.
    + exists []. split; auto.
Qed.

Lemma nu_refl : forall e s, nu e s s.
Proof. intros. apply nu_quiet; [apply emono_refl | apply lext_refl | exists []; split; auto]. Qed.

Lemma nu_next : forall e s s', nu e s s' -> next s <= next s'.
Proof. intros e s s' (a & _). apply (em_next _ _ a). Qed.

Lemma nu_run_handlers : forall e hs i err s pre,
  e < next s -> ev_hs (spec s e) = pre ++ hs -> length pre = i ->
  nu e s (fst (run_handlers e i hs err s)).
Proof.
  intros e hs. induction hs as [|h r IH]; intros i err s pre He Hpre Hlen; simpl; [apply nu_refl|].
  assert (Hnth : nth_error (ev_hs (spec s e)) i = Some h).
  { rewrite Hpre, nth_error_app2 by lia. now rewrite <- Hlen, Nat.sub_diag. }
  pose proof (nu_run_handler e i h err s He Hnth) as H1.
  destruct (run_handler e i h err s) as [s1 err1]. simpl in H1.
  destruct (stops h); simpl; auto.
  assert (He1 : e < next s1) by (pose proof (nu_next _ _ _ H1); lia).
  eapply nu_trans; [exact He | exact H1|].
  apply (IH (S i) err1 s1 (pre ++ [h])); auto.
  - destruct H1 as (Hm & _). rewrite (em_spec _ _ Hm e He), Hpre, <- app_assoc. reflexivity.
  - rewrite app_length. simpl. lia.
Qed.

Lemma nu_q3 : forall e s s', q3 s s' -> nu e s s'.
Proof. intros e s s' (a & b & c). now apply nu_quiet. Qed.

(* log, Values, scripts and event count of b are those of a *)
Definition same_lvs (a b : st) : Prop := log b = log a /\ val b = val a /\ spec b = spec a /\ next b = next a.

(* every step = handler activity on one event e (nu), optionally followed by _eventDone(e) *)
Lemma step_nu : forall lb s, SInv s ->
  step lb s = s \/
  exists e s2, e < next s /\ nu e s s2 /\
    (same_lvs s2 (step lb s) \/ exists err, same_lvs (event_done e err s2) (step lb s)).
Proof.
  intros lb s HI. destruct lb as [|p]; simpl.
  - destruct (queue s) as [|e q] eqn:Hq; auto. right.
    assert (He : e < next s) by (apply (s_q1 _ HI); rewrite Hq; simpl; auto).
    set (s0 := set_queue q s). exists e.
    unfold dispatch. change (kind s0 e) with (kind s e). destruct (kind s e) as [|k x a o].
    + set (sa := set_phase e PActive s0).
      pose proof (nu_run_handlers e (ev_hs (spec sa e)) 0 false sa [] He eq_refl eq_refl) as H1.
      destruct (run_handlers e 0 (ev_hs (spec sa e)) false sa) as [s1 err]. simpl in H1.
      set (xs := if existsb stops (ev_hs (spec sa e)) then [] else map (LDU e) (observers true (ev_both (spec s1 e)))).
      assert (Hxs : Forall nonh xs /\ Forall nosucc xs).
      { unfold xs, observers. destruct (existsb stops (ev_hs (spec sa e))); [split; constructor|].
        destruct (ev_both (spec s1 e)); simpl; split; repeat constructor. }
      exists (log_all xs s1). split; [exact He|]. split.
      * eapply nu_trans; [exact He | apply nu_q3; apply (q3_same s sa); reflexivity|].
        eapply nu_trans; [exact He | exact H1 | apply nu_q3; apply q3_log_all; tauto].
      * right. exists err. repeat split.
    + set (xs := map (LDD k x) (observers a o)).
      assert (Hxs : Forall nonh xs /\ Forall nosucc xs).
      { unfold xs, observers. destruct a, o; simpl; split; repeat constructor. }
      exists (log_all xs s0). split; [exact He|]. split.
      * eapply nu_trans; [exact He | apply nu_q3; apply (q3_same s s0); reflexivity|].
        apply nu_q3. apply q3_log_all; tauto.
      * left. repeat split.
  - unfold step_task. destruct (nth_error (tasks s) p) as [t0|] eqn:Hn; auto.
    destruct (s_t1 _ HI t0 (nth_error_In _ _ Hn)) as (He & _). set (e := tev t0) in *.
    destruct (nth_error (ev_hs (spec s e)) (thd t0)) as [[kids r | ys lk gr]|] eqn:Hh; auto. right. exists e.
    set (x := LG e (thd t0) (tk t0)).
    destruct (nth_error ys (tk t0)) as [[kids y]|] eqn:Hy.
    + assert (Hr : raises (spec s) e x = false) by (simpl; now rewrite Nat.eqb_refl, Hh, Hy).
      set (s1 := fire_all kids (add_log x s)).
      exists (if is_none y then s1 else set_value e y s1). split; [exact He|]. split.
      * apply (nu_unit e x); auto; [reflexivity | | rewrite Hr; discriminate].
        destruct (is_none y); [apply q3_fire_all|]. eapply q3_trans; [apply q3_fire_all | apply q3_set_value].
      * left. repeat split.
    + assert (Hr : raises (spec s) e x = gr) by (simpl; now rewrite Nat.eqb_refl, Hh, Hy).
      set (s1 := fire_all lk (add_log x s)).
      assert (H1 : q3 (add_log x s) s1) by apply q3_fire_all.
      assert (He1 : e < next s1) by (pose proof (q3_next _ _ H1); simpl in *; lia).
      destruct gr.
      * unfold task_raise.
        set (sa := set_tasks (remove_nth p (tasks s1)) s1).
        set (sb := set_errors e (set_value e PErr sa)).
        set (sc := raise_feedback e (inform true e sb)).
        set (sd := set_wait e (pred (waiting sc e)) sc).
        exists sd. split; [exact He|]. split; [|right; exists true; repeat split].
        assert (Hab : q3 sa sb).
        { unfold sb. eapply q3_trans; [apply q3_set_value|]. apply q3_set_val. auto. }
        assert (Hbc : q3 sb sc).
        { unfold sc. eapply q3_trans; [apply q3_inform | apply q3_raise_feedback]. }
        apply (nu_unit e x); auto; [reflexivity | |].
        -- eapply q3_trans; [exact H1|]. eapply q3_trans; [apply (q3_same s1 sa); reflexivity|].
           eapply q3_trans; [exact Hab|]. eapply q3_trans; [exact Hbc | apply (q3_same sc sd); reflexivity].
        -- intros _. change (val sd e) with (val sc e).
           destruct Hbc as (Hm & _). apply (em_err _ _ Hm).
           { destruct Hab as (Hm' & _). pose proof (em_next _ _ Hm'). unfold sa in *. simpl in *. lia. }
           unfold sb. rewrite val_set_errors. reflexivity.
      * unfold task_stop.
        set (sa := set_tasks (remove_nth p (tasks s1)) (set_wait e (pred (waiting s1 e)) s1)).
        assert (Hsa : q3 s1 sa) by (apply q3_same; reflexivity).
        destruct (Nat.eqb (waiting sa e) 0).
        -- exists (inform true e sa). split; [exact He|]. split; [|right; exists false; repeat split].
           apply (nu_unit e x); auto; [reflexivity | | rewrite Hr; discriminate].
           eapply q3_trans; [exact H1|]. eapply q3_trans; [exact Hsa | apply q3_inform].
        -- exists sa. split; [exact He|]. split; [|left; repeat split].
           apply (nu_unit e x); auto; [reflexivity | | rewrite Hr; discriminate].
           eapply q3_trans; [exact H1 | exact Hsa].
Qed.

(* errors is set for every event one of whose logged handlers raised *)
Definition N1 (s : st) : Prop :=
  forall d, d < next s -> 0 < nraised (spec s) d (log s) -> verrors (val s d) = true.
(* when <d>_success was fired no handler of d had raised *)
Definition N2 (s : st) : Prop :=
  forall d l1 l2, log s = l1 ++ LFD DSucc d :: l2 -> nraised (spec s) d l2 = 0.
(* handler-activity entries are about existing events *)
Definition HB (s : st) : Prop := forall x d, In x (log s) -> hentry x d -> d < next s.

Lemma nraised_zero : forall sp d l, (forall x, In x l -> ~ hentry x d) -> nraised sp d l = 0.
Proof.
  intros sp d l H. unfold nraised. induction l as [|x l IH]; simpl; auto.
  assert (Hx : raises sp d x = false).
  { destruct x; simpl; auto; destruct (Nat.eqb e d) eqn:E; auto; apply Nat.eqb_eq in E;
      exfalso; apply (H _ (or_introl eq_refl)); simpl; auto. }
  rewrite Hx. apply IH. intros y Hy. apply H. simpl; auto.
Qed.

Lemma nraised_sub : forall sp d l1 l2, nraised sp d (l1 ++ l2) = 0 -> nraised sp d l2 = 0.
Proof. intros sp d l1 l2 H. rewrite nraised_app in H. lia. Qed.

(* the invariants pass from s to s2 along handler activity on e *)
Lemma nu_inv : forall e s s2, e < next s -> HB s -> N1 s -> N2 s -> nu e s s2 -> HB s2 /\ N1 s2 /\ N2 s2.
Proof.
  intros e s s2 He Hb H1 H2 (Hm & (lx & Hlx & Hns) & l & Hl & Hh & Hr).
  assert (Hll : lx = l) by (eapply app_inv_tail; rewrite <- Hlx, <- Hl; reflexivity). subst lx.
  assert (Hb2 : HB s2).
  { intros x d Hin Hx. rewrite Hl in Hin. apply in_app_or in Hin. destruct Hin as [Hin|Hin].
    - pose proof (Hh x Hin (hentry_is_h _ _ Hx)) as Hxe.
      assert (d = e) by (destruct x; simpl in *; try contradiction; congruence). subst. pose proof (em_next _ _ Hm). lia.
    - pose proof (Hb x d Hin Hx). pose proof (em_next _ _ Hm). lia. }
  assert (Hnr : forall d, d <> e -> forall sp, nraised sp d l = 0).
  { intros d Hne sp. apply nraised_zero. intros x Hin Hx.
    pose proof (Hh x Hin (hentry_is_h _ _ Hx)) as Hxe. destruct x; simpl in *; try contradiction; congruence. }
  split; [exact Hb2|]. split.
  - intros d Hd Hpos. rewrite Hl, nraised_app in Hpos.
    destruct (Nat.lt_ge_cases d (next s)) as [Hlt|Hge].
    + rewrite !(nraised_sp (spec s) (spec s2)) in Hpos by (apply (em_spec _ _ Hm); auto).
      destruct (Nat.eq_dec d e) as [->|Hne].
      * destruct (nraised (spec s) e l) eqn:E.
        -- apply (em_err _ _ Hm); [exact Hlt|]. apply H1; [exact Hlt | simpl in Hpos; exact Hpos].
        -- apply Hr. lia.
      * rewrite (Hnr d Hne) in Hpos. apply (em_err _ _ Hm); [exact Hlt|]. apply H1; [exact Hlt | simpl in Hpos; exact Hpos].
    + exfalso. assert (d <> e) by lia. rewrite (Hnr d H) in Hpos.
      rewrite (nraised_zero (spec s2) d (log s)) in Hpos; [lia|].
      intros x Hin Hx. pose proof (Hb x d Hin Hx). lia.
  - intros d l1 l2 Hlog. rewrite Hl in Hlog.
    assert (Hnot : ~ In (LFD DSucc d) l).
    { intros Hin. rewrite Forall_forall in Hns. apply (Hns _ Hin). }
    destruct (in_split_app _ _ _ _ _ Hlog Hnot) as (l1' & -> & Hlog').
    pose proof (H2 d l1' l2 Hlog') as Hz.
    destruct (Nat.lt_ge_cases d (next s)) as [Hlt|Hge].
    + now rewrite (nraised_sp (spec s) (spec s2)) by (apply (em_spec _ _ Hm); auto).
    + apply nraised_zero. intros x Hin Hx.
      assert (Hin' : In x (log s)) by (rewrite Hlog'; apply in_or_app; right; right; auto).
      pose proof (Hb x d Hin' Hx). lia.
Qed.

Lemma same_lvs_inv : forall a b, same_lvs a b -> HB a /\ N1 a /\ N2 a -> HB b /\ N1 b /\ N2 b.
Proof.
  intros a b (Hl & Hv & Hs & Hn) (A & B & C). unfold HB, N1, N2. rewrite Hl, Hv, Hs, Hn. auto.
Qed.

Lemma event_done_inv : forall e err s, e < next s ->
  HB s /\ N1 s /\ N2 s -> HB (event_done e err s) /\ N1 (event_done e err s) /\ N2 (event_done e err s).
Proof.
  intros e err s He (A & B & C). unfold event_done.
  destruct (Nat.eqb (waiting s e) 0); [|auto]. cbv zeta.
  assert (Hp : same_lvs s (set_phase e PFin s)) by (repeat split).
  destruct (negb err && negb (verrors (val (set_phase e PFin s) e)) && ev_succ (spec (set_phase e PFin s) e)) eqn:Hc.
  2:{ apply (same_lvs_inv s); auto. }
  apply andb_prop in Hc. destruct Hc as (Hc & _). apply andb_prop in Hc. destruct Hc as (_ & Hc).
  apply negb_true_iff in Hc. simpl in Hc.
  pose proof (ext_fire_der DSucc e (set_phase e PFin s)) as Hx.
  set (s' := fire_der DSucc e (set_phase e PFin s)) in *.
  assert (Hlog : log s' = LFD DSucc e :: log s) by (apply (x_log _ _ _ Hx)).
  assert (Hn : next s <= next s') by (apply (x_next _ _ _ Hx)).
  assert (Hsp : forall d, d < next s -> spec s' d = spec s d) by (intros d Hd; apply (ext_spec _ _ _ d Hx Hd)).
  assert (Hva : forall d, d < next s -> val s' d = val s d) by (intros d Hd; apply (ext_val _ _ _ d Hx Hd)).
  assert (Hz : forall d, next s <= d -> forall sp l, (forall x, In x l -> In x (log s)) -> nraised sp d l = 0).
  { intros d Hd sp l Hsub. apply nraised_zero. intros x Hin Hh. pose proof (A x d (Hsub x Hin) Hh). lia. }
  split; [|split].
  - intros x d Hin Hh. rewrite Hlog in Hin. destruct Hin as [<-|Hin]; [contradiction|].
    pose proof (A x d Hin Hh). lia.
  - intros d Hd Hpos. rewrite Hlog in Hpos. unfold nraised in Hpos. simpl in Hpos. fold (nraised (spec s') d (log s)) in Hpos.
    destruct (Nat.lt_ge_cases d (next s)) as [Hlt|Hge].
    + rewrite (nraised_sp (spec s) (spec s')) in Hpos by auto. rewrite Hva by auto. auto.
    + rewrite (Hz d Hge) in Hpos; [lia | auto].
  - intros d l1 l2 Hl. rewrite Hlog in Hl. destruct l1 as [|y l1]; simpl in Hl.
    + (* the success fired now: no handler of e has raised *)
      injection Hl as Hed Hl2. subst d l2.
      rewrite (nraised_sp (spec s) (spec s')) by auto.
      destruct (nraised (spec s) e (log s)) eqn:E; auto. rewrite (B e He) in Hc; [discriminate | lia].
    + injection Hl as Hy H1.
      pose proof (C d l1 l2 H1) as Hz'.
      destruct (Nat.lt_ge_cases d (next s)) as [Hlt|Hge].
      * now rewrite (nraised_sp (spec s) (spec s')) by auto.
      * apply (Hz d Hge). intros x Hin. rewrite H1. apply in_or_app. right. right. auto.
Qed.

Lemma hb_of_sinv : forall s, SInv s -> HB s.
Proof. intros s H x d Hin Hx. apply (s_l1 _ H x d Hin Hx). Qed.

Lemma n_step : forall lb s, SInv s -> N1 s /\ N2 s -> N1 (step lb s) /\ N2 (step lb s).
Proof.
  intros lb s HI (A & B). pose proof (hb_of_sinv s HI) as Hb.
  destruct (step_nu lb s HI) as [-> | (e & s2 & He & Hnu & Hend)]; auto.
  pose proof (nu_inv e s s2 He Hb A B Hnu) as H2.
  destruct Hend as [Hs | (err & Hs)].
  - apply (same_lvs_inv _ _ Hs) in H2. tauto.
  - assert (He2 : e < next s2) by (pose proof (nu_next _ _ _ Hnu); lia).
    pose proof (event_done_inv e err s2 He2 H2) as H3. apply (same_lvs_inv _ _ Hs) in H3. tauto.
Qed.

Lemma n_start : forall roots, N1 (start roots) /\ N2 (start roots).
Proof.
  intros roots. unfold start. destruct (ext_fire_all roots init) as (l & Hx & Hl).
  pose proof (x_log _ _ _ Hx) as Hlog. simpl in Hlog. rewrite app_nil_r in Hlog.
  pose proof (LF_nonh _ _ Hl) as Hnh. split.
  - intros d Hd Hpos. rewrite Hlog, (nraised_nonh _ _ _ Hnh) in Hpos. lia.
  - intros d l1 l2 H. exfalso. rewrite Hlog in H. rewrite Forall_forall in Hl.
    destruct (Hl (LFD DSucc d)) as (d' & Hd' & _); [|discriminate]. rewrite H. apply in_or_app. right. left. auto.
Qed.

Lemma n_exec : forall ls s, SInv s -> N1 s /\ N2 s -> N1 (exec ls s) /\ N2 (exec ls s).
Proof.
  induction ls as [|lb ls IH]; intros s HI H; simpl; auto.
  apply IH; [now apply sinv_step | now apply n_step].
Qed.

(* ALL programs (nested Values, event.stop()): once a handler of an event has raised, the event's errors flag is
   set and stays set *)
Theorem errors_sticky : forall s e, reachable s -> e < next s ->
  0 < nraised (spec s) e (log s) -> verrors (val s e) = true.
Proof.
  intros s e (roots & ls & ->) He. destruct (n_exec ls _ (sinv_start roots) (n_start roots)) as (A & _). now apply A.
Qed.

(* ... and <name>_success is never fired after a handler of the event has raised *)
Theorem no_success_after_failure : forall s e l1 l2, reachable s ->
  log s = l1 ++ LFD DSucc e :: l2 -> nraised (spec s) e l2 = 0.
Proof.
  intros s e l1 l2 (roots & ls & ->). destruct (n_exec ls _ (sinv_start roots) (n_start roots)) as (_ & B). apply B.
Qed.

(* the kind of exception raised is not part of a program: scripts that differ only in the kinds are equal *)
Lemma raise_kind_irrelevant : forall k k' ys lk gr,
  RRaiseK k = RRaiseK k' /\ HGK k ys lk gr = HGK k' ys lk gr.
Proof. intros. split; reflexivity. Qed.
