From Coq Require Import List Arith Bool Lia.
From Circ Require Import Model.KTree.
Import ListNotations.

Lemma init_roots : forall c, par init c = c /\ rt init c = c.
Proof. intro c. split; reflexivity. Qed.
