(* Proofs about Model/KTree.v (C07). *)
From Coq Require Import List Arith Bool Lia Permutation Wf_nat.
From Circ Require Import Model.KTree.
Import ListNotations.

(* ------------------------------------------------------------------ small facts *)

Lemma upd_same : forall A (f : comp -> A) k v, upd f k v k = v.
Proof. intros. unfold upd. rewrite Nat.eqb_refl. reflexivity. Qed.

Lemma upd_other : forall A (f : comp -> A) k v j, j <> k -> upd f k v j = f j.
Proof. intros. unfold upd. destruct (j =? k) eqn:E; [apply Nat.eqb_eq in E; contradiction | reflexivity]. Qed.

Lemma upd2_same : forall f p c v, upd2 f p c v p c = v.
Proof. intros. unfold upd2. rewrite !Nat.eqb_refl. reflexivity. Qed.

Lemma upd2_other : forall f p c v a b, (a <> p \/ b <> c) -> upd2 f p c v a b = f a b.
Proof.
  intros f p c v a b H. unfold upd2.
  destruct (a =? p) eqn:E1; destruct (b =? c) eqn:E2; simpl; try reflexivity.
  apply Nat.eqb_eq in E1. apply Nat.eqb_eq in E2. destruct H; contradiction.
Qed.

(* ------------------------------------------------------------------ descendants *)

(* x is in the subtree of c: reachable through .components links *)
Inductive desc (kd : comp -> comp -> bool) : comp -> comp -> Prop :=
| desc_refl : forall c, desc kd c c
| desc_step : forall c k x, kd c k = true -> desc kd k x -> desc kd c x.

Lemma desc_right : forall kd c y x, desc kd c y -> kd y x = true -> desc kd c x.
Proof.
  intros kd c y x H. induction H as [c | c k y Hk Hd IH]; intro Hx.
  - eapply desc_step; [exact Hx | apply desc_refl].
  - eapply desc_step; [exact Hk | apply IH; exact Hx].
Qed.

Lemma desc_trans : forall kd a b c, desc kd a b -> desc kd b c -> desc kd a c.
Proof.
  intros kd a b c H. induction H as [a | a k b Hk Hd IH]; intro Hc; [exact Hc|].
  eapply desc_step; [exact Hk | apply IH; exact Hc].
Qed.

(* induction from the right end *)
Lemma desc_rind : forall kd c x, desc kd c x ->
  forall P : comp -> Prop, P c ->
  (forall y z, desc kd c y -> P y -> kd y z = true -> P z) -> P x.
Proof.
  intros kd c x H. induction H as [c | c k x Hk Hd IH]; intros P Pc Pstep; [exact Pc|].
  apply IH.
  - eapply Pstep; [apply desc_refl | exact Pc | exact Hk].
  - intros y z Hy Py Hz. eapply Pstep; [| exact Py | exact Hz].
    eapply desc_step; [exact Hk | exact Hy].
Qed.

Lemma desc_inv_right : forall kd c x, desc kd c x -> x = c \/ exists y, desc kd c y /\ kd y x = true.
Proof.
  intros kd c x H.
  apply (desc_rind kd c x H (fun z => z = c \/ exists y, desc kd c y /\ kd y z = true)).
  - left; reflexivity.
  - intros y z Hy _ Hz. right. exists y. split; assumption.
Qed.

Lemma desc_mono : forall (kd kd' : comp -> comp -> bool) c x,
  (forall a b, kd a b = true -> kd' a b = true) -> desc kd c x -> desc kd' c x.
Proof.
  intros kd kd' c x Hm H. induction H as [c | c k x Hk Hd IH]; [apply desc_refl|].
  eapply desc_step; [apply Hm; exact Hk | exact IH].
Qed.

(* ------------------------------------------------------------------ _updateRoot *)

Definition ur_step (n fu : nat) (kd : comp -> comp -> bool) (r c : comp)
  (acc : option (comp -> comp)) (k : comp) : option (comp -> comp) :=
  match acc with
  | None => None
  | Some g => if kd c k then upd_root n fu kd r k g else Some g
  end.

Lemma upd_root_S : forall n fu kd r c f,
  upd_root n (S fu) kd r c f = fold_left (ur_step n fu kd r c) (seq 0 n) (Some (upd f c r)).
Proof. reflexivity. Qed.

Lemma fold_ur_none : forall n fu kd r c l, fold_left (ur_step n fu kd r c) l None = None.
Proof. induction l as [|k l IH]; simpl; [reflexivity | exact IH]. Qed.

Definition ur_spec (kd : comp -> comp -> bool) (r c : comp) (f g : comp -> comp) : Prop :=
  forall x, (desc kd c x /\ g x = r) \/ (~ desc kd c x /\ g x = f x).

Lemma fold_ur_spec : forall n fu kd r c,
  (forall k f g, upd_root n fu kd r k f = Some g -> ur_spec kd r k f g) ->
  forall l g0 g, fold_left (ur_step n fu kd r c) l (Some g0) = Some g ->
  forall x, ((exists k, In k l /\ kd c k = true /\ desc kd k x) /\ g x = r)
            \/ (~ (exists k, In k l /\ kd c k = true /\ desc kd k x) /\ g x = g0 x).
Proof.
  intros n fu kd r c IHfu. induction l as [|k l IH]; intros g0 g H x.
  - simpl in H. inversion H; subst. right. split; [|reflexivity].
    intros [k [[] _]].
  - simpl in H. destruct (kd c k) eqn:Hk.
    + destruct (upd_root n fu kd r k g0) as [g1|] eqn:H1.
      2:{ rewrite fold_ur_none in H. discriminate. }
      specialize (IHfu k g0 g1 H1 x). specialize (IH g1 g H x).
      destruct IH as [[[k' [Hin [Hk' Hd]]] Hg] | [Hn Hg]].
      * left. split; [|exact Hg]. exists k'. split; [right; exact Hin | split; assumption].
      * destruct IHfu as [[Hd Hg1] | [Hnd Hg1]].
        -- left. split; [|congruence]. exists k. split; [left; reflexivity | split; assumption].
        -- right. split; [|congruence].
           intros [k' [[->|Hin] [Hk' Hd]]]; [apply Hnd; exact Hd|].
           apply Hn. exists k'. split; [exact Hin | split; assumption].
    + specialize (IH g0 g H x).
      destruct IH as [[[k' [Hin [Hk' Hd]]] Hg] | [Hn Hg]].
      * left. split; [|exact Hg]. exists k'. split; [right; exact Hin | split; assumption].
      * right. split; [|exact Hg].
        intros [k' [[->|Hin] [Hk' Hd]]]; [congruence|].
        apply Hn. exists k'. split; [exact Hin | split; assumption].
Qed.

(* a successful _updateRoot(r) from c sets the root of exactly c's subtree *)
Lemma upd_root_spec : forall n kd r, (forall a b, kd a b = true -> b < n) ->
  forall fu c f g, upd_root n fu kd r c f = Some g -> ur_spec kd r c f g.
Proof.
  intros n kd r Hlt. induction fu as [|fu IH]; intros c f g H; [discriminate|].
  rewrite upd_root_S in H. intro x.
  destruct (fold_ur_spec n fu kd r c IH (seq 0 n) (upd f c r) g H x)
    as [[[k [Hin [Hk Hd]]] Hg] | [Hn Hg]].
  - left. split; [|exact Hg]. eapply desc_step; [exact Hk | exact Hd].
  - destruct (Nat.eq_dec x c) as [->|Hxc].
    + left. split; [apply desc_refl|]. rewrite Hg. apply upd_same.
    + right. split.
      * intro Hd. inversion Hd as [|c' k x' Hk Hd']; subst; [contradiction|].
        apply Hn. exists k. split; [|split; assumption].
        apply in_seq. split; [lia|]. simpl. eapply Hlt; exact Hk.
      * rewrite Hg. apply upd_other. exact Hxc.
Qed.

(* ------------------------------------------------------------------ getHandlers reach *)

Lemma reachb_sound : forall n kd fu c x, reachb n fu kd c x = true -> desc kd c x.
Proof.
  intros n kd. induction fu as [|fu IH]; intros c x H; [discriminate|].
  simpl in H. destruct (x =? c) eqn:E.
  - apply Nat.eqb_eq in E. subst. apply desc_refl.
  - apply existsb_exists in H. destruct H as [k [_ Hk]].
    destruct (kd c k) eqn:Hc; [|discriminate].
    eapply desc_step; [exact Hc | apply IH; exact Hk].
Qed.

Lemma members_sound : forall n kd r x, In x (members n kd r) -> desc kd r x.
Proof.
  intros n kd r x H. unfold members in H. apply filter_In in H. destruct H as [_ H].
  eapply reachb_sound; exact H.
Qed.

(* ------------------------------------------------------------------ the invariant *)

Record InvF (n : nat) (pa ro : comp -> comp) (kd : comp -> comp -> bool) (pe di : comp -> bool)
  (ca : comp -> list (key * list comp)) (dl : list drec) : Prop := mkInv {
  i_kidlt : forall p c, kd p c = true -> c < n;
  i_rtlt : forall x, x < n -> ro x < n;
  i_kid : forall p c, kd p c = true <-> (pa c = p /\ c <> p);
  i_rtpar : forall c, ro (pa c) = ro c;
  i_rtroot : forall c, pa (ro c) = ro c;
  i_self : forall c, pa c = c -> ro c = c;
  i_rank : exists rk : comp -> nat, forall c, pa c <> c -> rk (pa c) < rk c;
  i_pend : forall c, pe c = true -> pa c <> c;
  i_cache : forall r, pa r = r -> di r = false ->
            forall k ms x, In (k, ms) (ca r) -> In x ms -> ro x = r;
  i_disp : forall d, In d dl -> d_ok d = true
}.

Definition Inv (n : nat) (s : st) : Prop :=
  InvF n (par s) (rt s) (kid s) (pend s) (dirty s) (cache s) (disp s).

Lemma inv_init : forall n, Inv n init.
Proof.
  intro n. unfold Inv, init; simpl. constructor; simpl.
  - intros p c H; discriminate.
  - intros x H; exact H.
  - intros p c. split; [discriminate | intros [H1 H2]; congruence].
  - reflexivity.
  - reflexivity.
  - reflexivity.
  - exists (fun _ => 0). intros c H; congruence.
  - intros c H; discriminate.
  - intros r _ _ k ms x H; contradiction.
  - intros d H; contradiction.
Qed.

(* everything in the subtree of c has c's root *)
Lemma desc_rt : forall n pa ro kd pe di ca dl, InvF n pa ro kd pe di ca dl ->
  forall c x, desc kd c x -> ro x = ro c.
Proof.
  intros n pa ro kd pe di ca dl I c x H.
  apply (desc_rind kd c x H (fun z => ro z = ro c)); [reflexivity|].
  intros y z _ Hy Hz. apply (i_kid _ _ _ _ _ _ _ _ I) in Hz. destruct Hz as [Hz _].
  rewrite <- Hy, <- Hz. symmetry. apply (i_rtpar _ _ _ _ _ _ _ _ I).
Qed.

(* every component is in the subtree of its root: parent links lead to the root *)
Lemma desc_of_root : forall n pa ro kd pe di ca dl, InvF n pa ro kd pe di ca dl ->
  forall x, desc kd (ro x) x.
Proof.
  intros n pa ro kd pe di ca dl I.
  destruct (i_rank _ _ _ _ _ _ _ _ I) as [rk Hrk].
  intro x. remember (rk x) as m eqn:Hm. revert x Hm.
  induction m as [m IH] using lt_wf_ind. intros x Hm.
  destruct (Nat.eq_dec (pa x) x) as [E|E].
  - rewrite (i_self _ _ _ _ _ _ _ _ I x E). apply desc_refl.
  - assert (Hlt : rk (pa x) < m) by (subst m; apply Hrk; exact E).
    specialize (IH _ Hlt (pa x) eq_refl).
    rewrite (i_rtpar _ _ _ _ _ _ _ _ I) in IH.
    eapply desc_right; [exact IH|].
    apply (i_kid _ _ _ _ _ _ _ _ I). split; [reflexivity | congruence].
Qed.

(* ------------------------------------------------------------------ register preserves the invariant *)

Lemma reg_invF : forall n pa ro kd pe di ca dl c p g,
  InvF n pa ro kd pe di ca dl ->
  c < n -> p < n -> pa c = c -> pe c = false -> ro p <> c -> c <> p ->
  ur_spec (upd2 kd p c true) (ro p) c (upd ro c (ro p)) g ->
  InvF n (upd pa c p) g (upd2 kd p c true) pe (upd di (ro p) true) ca dl.
Proof.
  intros n pa ro kd pe di ca dl c p g I Hc Hp Hdet Hnp Hout Hcp Hg.
  pose proof (desc_of_root _ _ _ _ _ _ _ _ I) as Hdr.
  destruct I as [Hkl Hrl Hk Hrp Hrr Hs [rk Hrk] Hpe Hca Hdl].
  assert (Hrc : ro c = c) by (apply Hs; exact Hdet).
  (* the subtree of c under the new links is the old tree of c *)
  assert (F1 : forall x, desc (upd2 kd p c true) c x -> ro x = c).
  { intros x Hd. apply (desc_rind _ c x Hd (fun z => ro z = c)); [exact Hrc|].
    intros y z _ Hy Hz.
    destruct (Nat.eq_dec y p) as [->|Ny]; [congruence|].
    rewrite upd2_other in Hz by (left; exact Ny).
    apply Hk in Hz. destruct Hz as [Hz _]. rewrite <- Hz, Hrp in Hy. exact Hy. }
  assert (F2 : forall x, ro x = c -> desc (upd2 kd p c true) c x).
  { intros x Hx. pose proof (Hdr x) as Hd0. rewrite Hx in Hd0. eapply desc_mono; [|exact Hd0].
    intros a b Hab. destruct (Nat.eq_dec a p) as [->|Na]; destruct (Nat.eq_dec b c) as [->|Nb].
    - apply upd2_same.
    - rewrite upd2_other by (right; exact Nb). exact Hab.
    - rewrite upd2_other by (left; exact Na). exact Hab.
    - rewrite upd2_other by (left; exact Na). exact Hab. }
  assert (G : forall x, (ro x = c /\ g x = ro p) \/ (ro x <> c /\ g x = ro x)).
  { intro x. destruct (Hg x) as [[Hd Hx] | [Hd Hx]].
    - left. split; [apply F1; exact Hd | exact Hx].
    - right. assert (ro x <> c) by (intro E; apply Hd; apply F2; exact E).
      split; [assumption|]. rewrite Hx. apply upd_other. intro E; subst x. congruence. }
  assert (Gp : g p = ro p) by (destruct (G p) as [[E _]|[_ E]]; [contradiction | exact E]).
  assert (Gc : g c = ro p) by (destruct (G c) as [[_ E]|[E _]]; [exact E | contradiction]).
  constructor.
  - intros a b H. destruct (Nat.eq_dec a p) as [->|Na]; destruct (Nat.eq_dec b c) as [->|Nb];
      try exact Hc; (rewrite upd2_other in H by tauto); eapply Hkl; exact H.
  - intros x Hx. destruct (G x) as [[_ E]|[_ E]]; rewrite E; [apply Hrl; exact Hp | apply Hrl; exact Hx].
  - intros a b. destruct (Nat.eq_dec b c) as [->|Nb].
    + rewrite upd_same. destruct (Nat.eq_dec a p) as [->|Na].
      * rewrite upd2_same. split; [intros _; split; [reflexivity | exact Hcp] | reflexivity].
      * rewrite upd2_other by (left; exact Na). split.
        -- intro H. apply Hk in H. destruct H as [H1 H2]. congruence.
        -- intros [H1 _]. congruence.
    + rewrite upd_other by exact Nb. rewrite upd2_other by (right; exact Nb). apply Hk.
  - intro x. destruct (Nat.eq_dec x c) as [->|Nx].
    + rewrite upd_same. congruence.
    + rewrite upd_other by exact Nx.
      destruct (G x) as [[E1 E2]|[E1 E2]]; destruct (G (pa x)) as [[E3 E4]|[E3 E4]];
        rewrite Hrp in E3; try contradiction; congruence.
  - intro x. assert (Hro : forall y, ro y <> c -> upd pa c p (ro y) = ro y).
    { intros y Hy. rewrite upd_other by exact Hy. apply Hrr. }
    destruct (G x) as [[_ E]|[E1 E]]; rewrite E; apply Hro; assumption.
  - intros x H. destruct (Nat.eq_dec x c) as [->|Nx].
    + rewrite upd_same in H. congruence.
    + rewrite upd_other in H by exact Nx. pose proof (Hs x H) as Hx.
      destruct (G x) as [[E _]|[_ E]]; congruence.
  - exists (fun x => if ro x =? c then rk x + rk p + 1 else rk x).
    intros x H. destruct (Nat.eq_dec x c) as [->|Nx].
    + rewrite upd_same. rewrite Hrc, Nat.eqb_refl.
      destruct (ro p =? c) eqn:E; [apply Nat.eqb_eq in E; contradiction | lia].
    + rewrite upd_other in H |- * by exact Nx. rewrite Hrp.
      specialize (Hrk x H). destruct (ro x =? c); lia.
  - intros x H. destruct (Nat.eq_dec x c) as [->|Nx]; [congruence|].
    rewrite upd_other by exact Nx. apply Hpe; exact H.
  - intros r Hr Hdi k ms x Hin Hx.
    destruct (Nat.eq_dec r (ro p)) as [->|Nr]; [rewrite upd_same in Hdi; discriminate|].
    rewrite upd_other in Hdi by exact Nr.
    destruct (Nat.eq_dec r c) as [->|Nc]; [rewrite upd_same in Hr; congruence|].
    rewrite upd_other in Hr by exact Nc.
    pose proof (Hca r Hr Hdi k ms x Hin Hx) as E.
    destruct (G x) as [[E1 _]|[_ E2]]; congruence.
  - exact Hdl.
Qed.

(* ------------------------------------------------------------------ completing an unregistration preserves it *)

Lemma unreg_invF : forall n pa ro kd pe di ca dl c g,
  InvF n pa ro kd pe di ca dl ->
  pa c <> c ->
  ur_spec (upd2 kd (pa c) c false) c c ro g ->
  InvF n (upd pa c c) g (upd2 kd (pa c) c false) (upd pe c false)
       (upd (upd di (ro (pa c)) true) c true) ca dl.
Proof.
  intros n pa ro kd pe di ca dl c g I Hatt Hg.
  pose proof (desc_rt _ _ _ _ _ _ _ _ I) as Hdrt.
  destruct I as [Hkl Hrl Hk Hrp Hrr Hs [rk Hrk] Hpe Hca Hdl].
  set (p := pa c) in *.
  assert (Hsub : forall a b, upd2 kd p c false a b = true -> kd a b = true).
  { intros a b H. destruct (Nat.eq_dec a p) as [->|Na]; destruct (Nat.eq_dec b c) as [->|Nb].
    - rewrite upd2_same in H. discriminate.
    - rewrite upd2_other in H by tauto. exact H.
    - rewrite upd2_other in H by tauto. exact H.
    - rewrite upd2_other in H by tauto. exact H. }
  assert (Hkc : kd p c = true) by (apply Hk; split; [reflexivity | exact (not_eq_sym Hatt)]).
  assert (Hcn : c < n) by (eapply Hkl; exact Hkc).
  assert (Hdold : forall x, desc (upd2 kd p c false) c x -> ro x = ro c).
  { intros x H. apply Hdrt. eapply desc_mono; [exact Hsub | exact H]. }
  assert (Gc : g c = c).
  { destruct (Hg c) as [[_ E]|[E _]]; [exact E | exfalso; apply E; apply desc_refl]. }
  (* a proper member of the subtree has its parent in the subtree *)
  assert (Hup : forall x, x <> c -> desc (upd2 kd p c false) c x -> desc (upd2 kd p c false) c (pa x) /\ pa x <> x).
  { intros x Nx H. apply desc_inv_right in H. destruct H as [->|[y [Hy Hyx]]]; [contradiction|].
    apply Hsub in Hyx. apply Hk in Hyx. destruct Hyx as [E1 E2]. rewrite E1. split; [exact Hy | congruence]. }
  assert (Hdown : forall x, x <> c -> pa x <> x -> desc (upd2 kd p c false) c (pa x) -> desc (upd2 kd p c false) c x).
  { intros x Nx Hx H. eapply desc_right; [exact H|].
    rewrite upd2_other by (right; exact Nx). apply Hk. split; [reflexivity | congruence]. }
  constructor.
  - intros a b H. eapply Hkl. apply Hsub. exact H.
  - intros x Hx. destruct (Hg x) as [[_ E]|[_ E]]; rewrite E; [exact Hcn | apply Hrl; exact Hx].
  - intros a b. destruct (Nat.eq_dec b c) as [->|Nb].
    + rewrite upd_same. destruct (Nat.eq_dec a p) as [->|Na].
      * rewrite upd2_same. split; [discriminate | intros [H1 H2]; congruence].
      * rewrite upd2_other by (left; exact Na). split.
        -- intro H. apply Hk in H. destruct H as [H1 _]. exfalso. apply Na. symmetry. exact H1.
        -- intros [H1 H2]. congruence.
    + rewrite upd_other by exact Nb. rewrite upd2_other by (right; exact Nb). apply Hk.
  - intro x. destruct (Nat.eq_dec x c) as [->|Nx]; [rewrite upd_same; reflexivity|].
    rewrite upd_other by exact Nx.
    destruct (Hg x) as [[D E]|[D E]].
    + destruct (Hup x Nx D) as [D' _].
      destruct (Hg (pa x)) as [[_ E']|[D'' _]]; [congruence | contradiction].
    + destruct (Nat.eq_dec (pa x) x) as [Ep|Np]; [rewrite Ep; reflexivity|].
      destruct (Hg (pa x)) as [[D' _]|[_ E']].
      * exfalso. apply D. apply Hdown; assumption.
      * rewrite E', E. apply Hrp.
  - intro x. destruct (Hg x) as [[_ E]|[_ E]]; rewrite E.
    + apply upd_same.
    + assert (ro x <> c) by (intro H; apply Hatt; unfold p; rewrite <- H; apply Hrr).
      rewrite upd_other by assumption. apply Hrr.
  - intros x H. destruct (Nat.eq_dec x c) as [->|Nx]; [exact Gc|].
    rewrite upd_other in H by exact Nx.
    destruct (Hg x) as [[D _]|[_ E]].
    + destruct (Hup x Nx D) as [_ D']. contradiction.
    + rewrite E. apply Hs. exact H.
  - exists rk. intros x H. destruct (Nat.eq_dec x c) as [->|Nx]; [rewrite upd_same in H; congruence|].
    rewrite upd_other in H |- * by exact Nx. apply Hrk. exact H.
  - intros x H. destruct (Nat.eq_dec x c) as [->|Nx]; [rewrite upd_same in H; discriminate|].
    rewrite upd_other in H |- * by exact Nx. apply Hpe. exact H.
  - intros r Hr Hdi k ms x Hin Hx.
    destruct (Nat.eq_dec r c) as [->|Nc]; [rewrite upd_same in Hdi; discriminate|].
    rewrite upd_other in Hdi by exact Nc.
    destruct (Nat.eq_dec r (ro p)) as [->|Nr]; [rewrite upd_same in Hdi; discriminate|].
    rewrite upd_other in Hdi by exact Nr.
    rewrite upd_other in Hr by exact Nc.
    pose proof (Hca r Hr Hdi k ms x Hin Hx) as E.
    destruct (Hg x) as [[D _]|[_ E2]]; [|congruence].
    exfalso. apply Nr. rewrite <- E, (Hdold x D). symmetry. apply Hrp.
  - exact Hdl.
Qed.

(* ------------------------------------------------------------------ what the operations do, as equations *)

Ltac proj_in H :=
  cbn [par rt kid pend q dirty cache regd unregd disp
       set_par set_rt set_kid set_pend set_q set_dirty set_cache set_regd set_unregd set_disp enq] in H.
Ltac proj :=
  cbn [par rt kid pend q dirty cache regd unregd disp
       set_par set_rt set_kid set_pend set_q set_dirty set_cache set_regd set_unregd set_disp enq].

Lemma complete_ok : forall n c s s', complete n c s = Ok s' ->
  pend s c = true /\
  (par s c <> c ->
   exists f, upd_root n (S n) (upd2 (kid s) (par s c) c false) c c (rt s) = Some f /\
     s' = mkst (upd (par s) c c) f (upd2 (kid s) (par s c) c false) (upd (pend s) c false)
               (upd (q s) (rt s c) (q s (rt s c) ++ [Unregistered c (par s c)]))
               (upd (upd (dirty s) (rt s (par s c)) true) c true) (cache s) (regd s)
               ((c, par s c) :: unregd s) (disp s)).
Proof.
  intros n c s s' H. unfold complete in H.
  destruct (pend s c) eqn:Hp; [|discriminate]. split; [reflexivity|]. intro Hatt.
  cbn [negb] in H. proj_in H.
  destruct (par s c =? c) eqn:E; [apply Nat.eqb_eq in E; contradiction|].
  destruct (kid s (par s c) c) eqn:Hk; cbn [negb] in H; [|discriminate].
  proj_in H.
  destruct (upd_root n (S n) (upd2 (kid s) (par s c) c false) c c (rt s)) as [f|] eqn:Hu; [|discriminate].
  exists f. split; [reflexivity|]. inversion H. reflexivity.
Qed.

Lemma register_ok : forall n c p s s', register n c p s = Ok s' ->
  c < n /\ p < n /\ par s c = c /\ pend s c = false /\ rt s p <> c /\ c <> p /\
  exists f, upd_root n (S n) (upd2 (kid s) p c true) (rt s p) c (upd (rt s) c (rt s p)) = Some f /\
    s' = mkst (upd (par s) c p) f (upd2 (kid s) p c true) (pend s)
              (upd (upd (upd (q s) (rt s p) (q s (rt s p) ++ q s c)) c []) (f c)
                   (upd (upd (q s) (rt s p) (q s (rt s p) ++ q s c)) c [] (f c) ++ [Registered c p]))
              (upd (dirty s) (rt s p) true) (cache s) ((c, p) :: regd s) (unregd s) (disp s).
Proof.
  intros n c p s s' H. unfold register in H.
  destruct (c <? n) eqn:H1; [|discriminate]. destruct (p <? n) eqn:H2; [|discriminate].
  destruct (par s c =? c) eqn:H3; [|discriminate]. destruct (pend s c) eqn:H4; [discriminate|].
  destruct (rt s p =? c) eqn:H5; [discriminate|]. destruct (c =? p) eqn:H6; [discriminate|].
  cbn [andb negb] in H. proj_in H.
  apply Nat.ltb_lt in H1. apply Nat.ltb_lt in H2. apply Nat.eqb_eq in H3.
  apply Nat.eqb_neq in H5. apply Nat.eqb_neq in H6.
  repeat (split; [assumption|]). split; [reflexivity|]. split; [assumption|]. split; [assumption|].
  destruct (upd_root n (S n) (upd2 (kid s) p c true) (rt s p) c (upd (rt s) c (rt s p))) as [f|] eqn:Hu;
    [|discriminate].
  exists f. split; [reflexivity|]. inversion H. reflexivity.
Qed.

(* ------------------------------------------------------------------ every operation preserves the invariant *)

Lemma invF_cache : forall n pa ro kd pe di ca dl di' ca',
  InvF n pa ro kd pe di ca dl ->
  (forall r, pa r = r -> di' r = false -> forall k ms x, In (k, ms) (ca' r) -> In x ms -> ro x = r) ->
  InvF n pa ro kd pe di' ca' dl.
Proof. intros n pa ro kd pe di ca dl di' ca' [] H. constructor; assumption. Qed.

Lemma invF_disp : forall n pa ro kd pe di ca dl d,
  InvF n pa ro kd pe di ca dl -> d_ok d = true -> InvF n pa ro kd pe di ca (d :: dl).
Proof.
  intros n pa ro kd pe di ca dl d [] H. constructor; try assumption.
  intros d' [<-|Hin]; [exact H | auto].
Qed.

Lemma find_key_in : forall k l ms, find_key k l = Some ms -> exists k', In (k', ms) l.
Proof.
  induction l as [|[k' m] l IH]; intros ms H; [discriminate|]. simpl in H.
  destruct (key_eqb k k').
  - inversion H; subst. exists k'. left; reflexivity.
  - destruct (IH ms H) as [k'' Hin]. exists k''. right; exact Hin.
Qed.

Definition same_tree (s s' : st) : Prop :=
  par s' = par s /\ rt s' = rt s /\ kid s' = kid s /\ pend s' = pend s /\ q s' = q s /\
  regd s' = regd s /\ unregd s' = unregd s /\ disp s' = disp s.

Lemma lookup_inv : forall n r e s s1 ms, Inv n s -> par s r = r -> lookup n r e s = (s1, ms) ->
  Inv n s1 /\ (forall x, In x ms -> rt s1 x = r) /\ same_tree s s1.
Proof.
  intros n r e s s1 ms I Hr H. unfold lookup in H.
  set (s0 := if dirty s r then set_dirty (set_cache s (upd (cache s) r [])) (upd (dirty s) r false) else s) in *.
  assert (H0 : Inv n s0 /\ dirty s0 r = false /\ same_tree s s0).
  { unfold s0. destruct (dirty s r) eqn:Hd.
    - split; [|split; [proj; apply upd_same | repeat split]].
      unfold Inv; proj. eapply invF_cache; [exact I|].
      intros r' Hr' Hd' k ms' x Hin Hx. destruct (Nat.eq_dec r' r) as [->|N].
      + rewrite upd_same in Hin. contradiction.
      + rewrite upd_other in Hin, Hd' by exact N. eapply (i_cache _ _ _ _ _ _ _ _ I); eassumption.
    - split; [exact I | split; [exact Hd | repeat split]]. }
  destruct H0 as [I0 [Hd0 T0]]. clearbody s0.
  assert (Hr0 : par s0 r = r) by (destruct T0 as [-> _]; exact Hr).
  destruct (find_key (key_of e) (cache s0 r)) as [m|] eqn:Hf.
  - inversion H; subst. split; [exact I0|]. split; [|exact T0].
    intros x Hx. destruct (find_key_in _ _ _ Hf) as [k' Hin].
    eapply (i_cache _ _ _ _ _ _ _ _ I0); eassumption.
  - inversion H; subst. clear H.
    assert (Hms : forall x, In x (members n (kid s0) r) -> rt s0 x = r).
    { intros x Hx. apply members_sound in Hx.
      rewrite (desc_rt _ _ _ _ _ _ _ _ I0 r x Hx). apply (i_self _ _ _ _ _ _ _ _ I0). exact Hr0. }
    split; [|split; [exact Hms|]].
    + unfold Inv; proj. eapply invF_cache; [exact I0|].
      intros r' Hr' Hd' k ms' x Hin Hx. destruct (Nat.eq_dec r' r) as [->|N].
      * rewrite upd_same in Hin. destruct Hin as [E|Hin].
        -- inversion E; subst. apply Hms. exact Hx.
        -- eapply (i_cache _ _ _ _ _ _ _ _ I0); eassumption.
      * rewrite upd_other in Hin by exact N. eapply (i_cache _ _ _ _ _ _ _ _ I0); eassumption.
    + destruct T0 as [A [B [C [D [E [F [G K]]]]]]]. repeat split; assumption.
Qed.

Lemma complete_inv : forall n c s s', Inv n s -> complete n c s = Ok s' ->
  Inv n s' /\ (forall r, par s r = r -> par s' r = r).
Proof.
  intros n c s s' I H. destruct (complete_ok _ _ _ _ H) as [Hp Hrest].
  assert (Hatt : par s c <> c) by (apply (i_pend _ _ _ _ _ _ _ _ I); exact Hp).
  destruct (Hrest Hatt) as [f [Hu ->]]. split.
  - unfold Inv; proj. apply unreg_invF; [exact I | exact Hatt|].
    eapply upd_root_spec; [|exact Hu].
    intros a b Hab. destruct (Nat.eq_dec a (par s c)) as [->|Na]; destruct (Nat.eq_dec b c) as [->|Nb].
    + rewrite upd2_same in Hab. discriminate.
    + rewrite upd2_other in Hab by tauto. eapply (i_kidlt _ _ _ _ _ _ _ _ I); exact Hab.
    + rewrite upd2_other in Hab by tauto. eapply (i_kidlt _ _ _ _ _ _ _ _ I); exact Hab.
    + rewrite upd2_other in Hab by tauto. eapply (i_kidlt _ _ _ _ _ _ _ _ I); exact Hab.
  - intros r Hr. proj. destruct (Nat.eq_dec r c) as [->|N]; [apply upd_same|].
    rewrite upd_other by exact N. exact Hr.
Qed.

Lemma register_inv : forall n c p s s', Inv n s -> register n c p s = Ok s' -> Inv n s'.
Proof.
  intros n c p s s' I H.
  destruct (register_ok _ _ _ _ _ H) as [Hc [Hp [Hdet [Hnp [Hout [Hcp [f [Hu ->]]]]]]]].
  unfold Inv; proj. apply reg_invF; try assumption.
  eapply upd_root_spec; [|exact Hu].
  intros a b Hab. destruct (Nat.eq_dec a p) as [->|Na]; destruct (Nat.eq_dec b c) as [->|Nb]; try exact Hc;
    (rewrite upd2_other in Hab by tauto); eapply (i_kidlt _ _ _ _ _ _ _ _ I); exact Hab.
Qed.

Lemma dispatch_inv : forall n r e s s', Inv n s -> par s r = r -> dispatch n r e s = Ok s' ->
  Inv n s' /\ par s' r = r.
Proof.
  intros n r e s s' I Hr H. unfold dispatch in H.
  destruct (lookup n r e s) as [s1 ms] eqn:Hl.
  destruct (lookup_inv _ _ _ _ _ _ I Hr Hl) as [I1 [Hms T]].
  assert (Hr1 : par s1 r = r) by (destruct T as [-> _]; exact Hr).
  set (s2 := set_disp s1 (mkd r e ms (forallb (fun x => rt s1 x =? r) ms) :: disp s1)) in *.
  assert (I2 : Inv n s2).
  { unfold s2, Inv; proj. apply invF_disp; [exact I1|]. cbn [d_ok].
    apply forallb_forall. intros x Hx. apply Nat.eqb_eq. apply Hms. exact Hx. }
  assert (Hr2 : par s2 r = r) by exact Hr1.
  clearbody s2.
  destruct e; cbv beta iota in H.
  - inversion H; subst s'. split; assumption.
  - inversion H; subst s'. split; assumption.
  - inversion H; subst s'. split; assumption.
  - inversion H; subst s'. split; [exact I2 | exact Hr2].
  - destruct (existsb (Nat.eqb c) ms).
    + destruct (complete_inv _ _ _ _ I2 H) as [I3 Hroots]. split; [exact I3 | apply Hroots; exact Hr2].
    + inversion H; subst s'. split; assumption.
  - inversion H; subst s'. split; assumption.
Qed.

Lemma dispatch_all_inv : forall n r sched s s', Inv n s -> par s r = r -> dispatch_all n r sched s = Ok s' ->
  Inv n s' /\ par s' r = r.
Proof.
  intros n r. induction sched as [|e t IH]; intros s s' I Hr H; simpl in H.
  - inversion H; subst. split; assumption.
  - destruct (dispatch n r e s) as [s1| | | |] eqn:Hd; try discriminate.
    destruct (dispatch_inv _ _ _ _ _ I Hr Hd) as [I1 Hr1]. eapply IH; eassumption.
Qed.

Lemma flush_inv : forall n r sched s s', Inv n s -> par s r = r -> flush n r sched s = Ok s' -> Inv n s'.
Proof.
  intros n r sched s s' I Hr H. unfold flush in H.
  destruct (is_perm sched (q s r)); [|discriminate].
  eapply dispatch_all_inv; [| |exact H]; [exact I | exact Hr].
Qed.

Lemma tick1_inv : forall n r sched s s', Inv n s -> tick1 n r sched s = Ok s' -> Inv n s'.
Proof.
  intros n r sched s s' I H. unfold tick1 in H. destruct (q s r).
  - destruct sched; [inversion H; subst; exact I | discriminate].
  - eapply flush_inv; [exact I | | exact H]. apply (i_rtroot _ _ _ _ _ _ _ _ I).
Qed.

Lemma ticks_inv : forall n r scheds s s', Inv n s -> ticks n r scheds s = Ok s' -> Inv n s'.
Proof.
  intros n r. induction scheds as [|sc t IH]; intros s s' I H; simpl in H.
  - inversion H; subst; exact I.
  - destruct (tick1 n r sc s) as [s1| | | |] eqn:Ht; try discriminate.
    eapply IH; [|exact H]. eapply tick1_inv; eassumption.
Qed.

Lemma unregister_inv : forall n c s s', Inv n s -> unregister n c s = Ok s' -> Inv n s'.
Proof.
  intros n c s s' I H. unfold unregister in H.
  destruct (c <? n); [|discriminate]. destruct (par s c =? c) eqn:E; [discriminate|].
  apply Nat.eqb_neq in E. cbn [andb negb] in H.
  destruct (pend s c) eqn:Hp; inversion H; subst; [exact I|].
  unfold Inv; proj. destruct I as [Hkl Hrl Hk Hrp Hrr Hs Hrk Hpe Hca Hdl].
  constructor; try assumption.
  - intros x Hx. destruct (Nat.eq_dec x c) as [->|N]; [exact E|].
    rewrite upd_other in Hx by exact N. apply Hpe; exact Hx.
  - intros r Hr Hd k ms x Hin Hx. destruct (Nat.eq_dec r (rt s c)) as [->|N].
    + rewrite upd_same in Hd. discriminate.
    + rewrite upd_other in Hd by exact N. eapply Hca; eassumption.
Qed.

Lemma step_inv : forall n o s s', Inv n s -> step n o s = Ok s' -> Inv n s'.
Proof.
  intros n o s s' I H. destruct o as [c p|c|x i|r scheds|x sched]; simpl in H.
  - eapply register_inv; eassumption.
  - eapply unregister_inv; eassumption.
  - destruct (x <? n); [|discriminate]. inversion H; subst. exact I.
  - destruct ((r <? n) && (par s r =? r)); [|discriminate]. eapply ticks_inv; eassumption.
  - destruct (x <? n); [|discriminate]. eapply flush_inv; [exact I | | exact H].
    apply (i_rtroot _ _ _ _ _ _ _ _ I).
Qed.

Lemma run_inv : forall n h s s', Inv n s -> run n h s = Ok s' -> Inv n s'.
Proof.
  intros n. induction h as [|o t IH]; intros s s' I H; simpl in H.
  - inversion H; subst; exact I.
  - destruct (step n o s) as [s1| | | |] eqn:Hs; try discriminate.
    eapply IH; [|exact H]. eapply step_inv; eassumption.
Qed.

(* ------------------------------------------------------------------ the forest property, as the statement reads it *)

(* k-th ancestor along .parent *)
Fixpoint anc (pa : comp -> comp) (k : nat) (c : comp) : comp :=
  match k with O => c | S k' => anc pa k' (pa c) end.

(* t is the top of the tree c is in *)
Definition top_of (s : st) (c t : comp) : Prop := par s t = t /\ exists k, anc (par s) k c = t.

Definition forest (s : st) : Prop :=
  (forall p c, kid s p c = true <-> (par s c = p /\ c <> p)) /\        (* parent and child links agree *)
  (forall c k, anc (par s) (S k) c = c -> par s c = c) /\              (* no cycles *)
  (forall c, top_of s c (rt s c)) /\                                   (* root = top of its tree *)
  (forall c t, top_of s c t -> t = rt s c).

Lemma inv_forest : forall n s, Inv n s -> forest s.
Proof.
  intros n s I. pose proof I as I'.
  destruct I' as [Hkl Hrl Hk Hrp Hrr Hs [rk Hrk] Hpe Hca Hdl].
  assert (Hle : forall k c, rk (anc (par s) k c) <= rk c).
  { induction k as [|k IH]; intro c; simpl; [lia|].
    destruct (Nat.eq_dec (par s c) c) as [E|E]; [rewrite E; apply IH|].
    specialize (IH (par s c)). specialize (Hrk c E). lia. }
  assert (Hrt : forall k c, rt s (anc (par s) k c) = rt s c).
  { induction k as [|k IH]; intro c; simpl; [reflexivity|]. rewrite IH. apply Hrp. }
  split; [exact Hk|]. split; [|split].
  - intros c k H. destruct (Nat.eq_dec (par s c) c) as [E|E]; [exact E|].
    exfalso. simpl in H. pose proof (Hle k (par s c)) as H1. rewrite H in H1.
    specialize (Hrk c E). lia.
  - intro c. split; [apply Hrr|].
    remember (rk c) as m eqn:Hm. revert c Hm. induction m as [m IH] using lt_wf_ind. intros c Hm.
    destruct (Nat.eq_dec (par s c) c) as [E|E].
    + exists 0. simpl. symmetry. apply Hs. exact E.
    + assert (Hlt : rk (par s c) < m) by (subst m; apply Hrk; exact E).
      destruct (IH _ Hlt (par s c) eq_refl) as [k Hk']. exists (S k). simpl. rewrite Hk'. apply Hrp.
  - intros c t [Ht [k Hk']]. rewrite <- (Hrt k c), Hk'. symmetry. apply Hs. exact Ht.
Qed.

(* the executable reading of "p outside c's subtree" used by the model's precondition *)
Lemma inv_subtree_reading : forall n s c p, Inv n s -> par s c = c ->
  (rt s p = c <-> desc (kid s) c p).
Proof.
  intros n s c p I Hc. split.
  - intro H. rewrite <- H. eapply desc_of_root. exact I.
  - intro H. rewrite (desc_rt _ _ _ _ _ _ _ _ I c p H). apply (i_self _ _ _ _ _ _ _ _ I). exact Hc.
Qed.

Lemma inv_pending_attached : forall n s c, Inv n s -> pend s c = true -> par s c <> c.
Proof. intros n s c I. apply (i_pend _ _ _ _ _ _ _ _ I). Qed.

(* ------------------------------------------------------------------ subtrees stay connected *)

Lemma desc_cut : forall kd p c x, desc kd c x -> desc (upd2 kd p c false) c x.
Proof.
  intros kd p c x H.
  apply (desc_rind kd c x H (fun z => desc (upd2 kd p c false) c z)); [apply desc_refl|].
  intros y z _ Py Hz.
  destruct (Nat.eq_dec z c) as [->|Nz]; [apply desc_refl|].
  eapply desc_right; [exact Py|]. rewrite upd2_other by (right; exact Nz). exact Hz.
Qed.

(* a component that completes its unregistration takes its whole subtree with it *)
Lemma detach_connected : forall n c s s', Inv n s -> complete n c s = Ok s' ->
  par s' c = c /\ pend s' c = false /\ kid s' (par s c) c = false /\
  (forall x, desc (kid s) c x ->
     rt s' x = c /\ desc (kid s') c x /\ (x <> c -> par s' x = par s x /\ kid s' (par s x) x = kid s (par s x) x)) /\
  (forall x, ~ desc (kid s) c x -> rt s' x = rt s x /\ par s' x = par s x).
Proof.
  intros n c s s' I H. destruct (complete_ok _ _ _ _ H) as [Hp Hrest].
  assert (Hatt : par s c <> c) by (apply (i_pend _ _ _ _ _ _ _ _ I); exact Hp).
  destruct (Hrest Hatt) as [f [Hu ->]]. proj.
  assert (Hg : ur_spec (upd2 (kid s) (par s c) c false) c c (rt s) f).
  { eapply upd_root_spec; [|exact Hu]. intros a b Hab.
    destruct (Nat.eq_dec a (par s c)) as [->|Na]; destruct (Nat.eq_dec b c) as [->|Nb];
      try (rewrite upd2_same in Hab; discriminate);
      (rewrite upd2_other in Hab by tauto); eapply (i_kidlt _ _ _ _ _ _ _ _ I); exact Hab. }
  split; [apply upd_same|]. split; [apply upd_same|]. split; [apply upd2_same|]. split.
  - intros x Hd. pose proof (desc_cut _ (par s c) _ _ Hd) as Hd'.
    split; [|split; [exact Hd'|]].
    + destruct (Hg x) as [[_ E]|[E _]]; [exact E | contradiction].
    + intro Nx. split; [apply upd_other; exact Nx | apply upd2_other; right; exact Nx].
  - intros x Hn. assert (Nx : x <> c) by (intro E; subst; apply Hn; apply desc_refl).
    split; [|apply upd_other; exact Nx].
    destruct (Hg x) as [[D _]|[_ E]]; [|exact E].
    exfalso. apply Hn. eapply desc_mono; [|exact D].
    intros a b Hab. destruct (Nat.eq_dec a (par s c)) as [->|Na]; destruct (Nat.eq_dec b c) as [->|Nb];
      try (rewrite upd2_same in Hab; discriminate); (rewrite upd2_other in Hab by tauto); exact Hab.
Qed.

(* a registered component moves with its whole subtree under the root of its new parent *)
Lemma move_connected : forall n c p s s', Inv n s -> register n c p s = Ok s' ->
  par s' c = p /\ kid s' p c = true /\
  (forall x, desc (kid s) c x ->
     rt s' x = rt s p /\ desc (kid s') c x /\ (x <> c -> par s' x = par s x /\ kid s' (par s x) x = kid s (par s x) x)) /\
  (forall x, ~ desc (kid s) c x -> rt s' x = rt s x /\ par s' x = par s x).
Proof.
  intros n c p s s' I H.
  destruct (register_ok _ _ _ _ _ H) as [Hc [Hp [Hdet [Hnp [Hout [Hcp [f [Hu ->]]]]]]]]. proj.
  assert (Hg : ur_spec (upd2 (kid s) p c true) (rt s p) c (upd (rt s) c (rt s p)) f).
  { eapply upd_root_spec; [|exact Hu]. intros a b Hab.
    destruct (Nat.eq_dec a p) as [->|Na]; destruct (Nat.eq_dec b c) as [->|Nb]; try exact Hc;
      (rewrite upd2_other in Hab by tauto); eapply (i_kidlt _ _ _ _ _ _ _ _ I); exact Hab. }
  assert (Hm : forall a b, kid s a b = true -> upd2 (kid s) p c true a b = true).
  { intros a b Hab. destruct (Nat.eq_dec a p) as [->|Na]; destruct (Nat.eq_dec b c) as [->|Nb];
      try apply upd2_same; (rewrite upd2_other by tauto); exact Hab. }
  split; [apply upd_same|]. split; [apply upd2_same|]. split.
  - intros x Hd. pose proof (desc_mono _ _ _ _ Hm Hd) as Hd'. split; [|split; [exact Hd'|]].
    + destruct (Hg x) as [[_ E]|[E _]]; [exact E | contradiction].
    + intro Nx. split; [apply upd_other; exact Nx | apply upd2_other; right; exact Nx].
  - intros x Hn. assert (Nx : x <> c) by (intro E; subst; apply Hn; apply desc_refl).
    split; [|apply upd_other; exact Nx].
    destruct (Hg x) as [[D E]|[_ E]].
    + exfalso. apply Hn.
      (* under the new links the subtree of c is still the old tree of c *)
      assert (F : rt s x = c).
      { apply (desc_rind _ c x D (fun z => rt s z = c)).
        - apply (i_self _ _ _ _ _ _ _ _ I). exact Hdet.
        - intros y z _ Hy Hz. destruct (Nat.eq_dec y p) as [->|Ny]; [congruence|].
          rewrite upd2_other in Hz by (left; exact Ny).
          apply (i_kid _ _ _ _ _ _ _ _ I) in Hz. destruct Hz as [Hz _].
          rewrite <- Hz in Hy. rewrite (i_rtpar _ _ _ _ _ _ _ _ I) in Hy. exact Hy. }
      rewrite <- F. eapply desc_of_root. exact I.
    + rewrite E. apply upd_other. exact Nx.
Qed.

(* ------------------------------------------------------------------ queued events move to the new root *)

Lemma register_queue : forall n c p s s', Inv n s -> register n c p s = Ok s' ->
  rt s' c = rt s p /\
  q s' (rt s p) = q s (rt s p) ++ q s c ++ [Registered c p] /\
  q s' c = [] /\
  (forall x, x <> c -> x <> rt s p -> q s' x = q s x).
Proof.
  intros n c p s s' I H.
  destruct (move_connected _ _ _ _ _ I H) as [_ [_ [Hin _]]].
  destruct (Hin c (desc_refl _ c)) as [Hrc _].
  destruct (register_ok _ _ _ _ _ H) as [Hc [Hp [Hdet [Hnp [Hout [Hcp [f [Hu E]]]]]]]].
  rewrite E in Hrc |- *. proj. proj_in Hrc. rewrite Hrc.
  split; [reflexivity|]. split; [|split].
  - rewrite upd_same. rewrite (upd_other _ _ c) by exact Hout. rewrite upd_same.
    rewrite <- app_assoc. reflexivity.
  - rewrite (upd_other _ _ (rt s p)) by (intro E'; apply Hout; symmetry; exact E'). apply upd_same.
  - intros x N1 N2. rewrite !upd_other by assumption. reflexivity.
Qed.

(* ------------------------------------------------------------------ a flush dispatches exactly its batch *)

Lemma ev_eqb_eq : forall a b, ev_eqb a b = true <-> a = b.
Proof.
  intros a b. split.
  - destruct a, b; simpl; intro H; try discriminate; try reflexivity;
      try (apply andb_prop in H; destruct H as [H1 H2]; apply Nat.eqb_eq in H1; apply Nat.eqb_eq in H2; subst; reflexivity);
      apply Nat.eqb_eq in H; subst; reflexivity.
  - intros ->. destruct b; simpl; rewrite ?Nat.eqb_refl; reflexivity.
Qed.

Lemma remove1_perm : forall e l l', remove1 e l = Some l' -> Permutation l (e :: l').
Proof.
  intros e. induction l as [|x t IH]; intros l' H; [discriminate|]. simpl in H.
  destruct (ev_eqb e x) eqn:E.
  - apply ev_eqb_eq in E. inversion H; subst. apply Permutation_refl.
  - destruct (remove1 e t) as [t'|] eqn:R; [|discriminate]. inversion H; subst.
    eapply perm_trans; [apply perm_skip; apply IH; reflexivity | apply perm_swap].
Qed.

Lemma is_perm_perm : forall sched batch, is_perm sched batch = true -> Permutation sched batch.
Proof.
  induction sched as [|e t IH]; intros batch H; simpl in H.
  - destruct batch; [apply perm_nil | discriminate].
  - destruct (remove1 e batch) as [b|] eqn:R; [|discriminate].
    eapply perm_trans; [apply perm_skip; apply IH; exact H|].
    apply Permutation_sym. apply remove1_perm. exact R.
Qed.

Lemma complete_disp : forall n c s s', complete n c s = Ok s' -> disp s' = disp s.
Proof.
  intros n c s s' H. unfold complete in H.
  destruct (pend s c); cbn [negb] in H; [|discriminate]. proj_in H.
  destruct (par s c =? c).
  - destruct (upd_root _ _ _ _ _ _); [|discriminate]. inversion H. reflexivity.
  - destruct (kid s (par s c) c); cbn [negb] in H; [|discriminate]. proj_in H.
    destruct (upd_root _ _ _ _ _ _); [|discriminate]. inversion H. reflexivity.
Qed.

Lemma dispatch_disp : forall n r e s s', dispatch n r e s = Ok s' ->
  exists d, disp s' = d :: disp s /\ d_root d = r /\ d_ev d = e.
Proof.
  intros n r e s s' H. unfold dispatch in H.
  destruct (lookup n r e s) as [s1 ms] eqn:Hl.
  assert (T : disp s1 = disp s).
  { unfold lookup in Hl. destruct (dirty s r); destruct (find_key _ _); inversion Hl; reflexivity. }
  set (d := mkd r e ms (forallb (fun x => rt s1 x =? r) ms)) in *.
  exists d. split; [|split; reflexivity].
  rewrite <- T.
  destruct e; cbv beta iota in H; try (inversion H; reflexivity).
  destruct (existsb (Nat.eqb c) ms); [|inversion H; reflexivity].
  apply complete_disp in H. exact H.
Qed.

Lemma dispatch_all_disp : forall n r sched s s', dispatch_all n r sched s = Ok s' ->
  exists ds, disp s' = ds ++ disp s /\ map d_ev (rev ds) = sched /\ (forall d, In d ds -> d_root d = r).
Proof.
  intros n r. induction sched as [|e t IH]; intros s s' H; simpl in H.
  - inversion H; subst. exists []. split; [reflexivity | split; [reflexivity | intros d []]].
  - destruct (dispatch n r e s) as [s1| | | |] eqn:Hd; try discriminate.
    destruct (dispatch_disp _ _ _ _ _ Hd) as [d [E1 [E2 E3]]].
    destruct (IH _ _ H) as [ds [F1 [F2 F3]]].
    exists (ds ++ [d]). split; [|split].
    + rewrite F1, E1, <- app_assoc. reflexivity.
    + rewrite rev_app_distr. simpl. rewrite E3, F2. reflexivity.
    + intros d' Hin. apply in_app_or in Hin. destruct Hin as [Hin|[<-|[]]]; [apply F3; exact Hin | exact E2].
Qed.

Lemma flush_dispatches_batch : forall n r sched s s', flush n r sched s = Ok s' ->
  Permutation sched (q s r) /\
  exists ds, disp s' = ds ++ disp s /\ map d_ev (rev ds) = sched /\ (forall d, In d ds -> d_root d = r).
Proof.
  intros n r sched s s' H. unfold flush in H.
  destruct (is_perm sched (q s r)) eqn:P; [|discriminate].
  split; [apply is_perm_perm; exact P|].
  apply dispatch_all_disp in H. exact H.
Qed.

(* ------------------------------------------------------------------ announcements: nothing lost, nothing doubled *)

Definition cnt (e : ev) (l : list ev) : nat := length (filter (ev_eqb e) l).
Definition qsum (e : ev) (qf : comp -> list ev) (l : list comp) : nat :=
  list_sum (map (fun x => cnt e (qf x)) l).
(* occurrences of e in the queues of the pool *)
Definition qcount (n : nat) (qf : comp -> list ev) (e : ev) : nat := qsum e qf (seq 0 n).
(* dispatches of e so far *)
Definition dcount (dl : list drec) (e : ev) : nat := length (filter (fun d => ev_eqb e (d_ev d)) dl).
Definition cntp (c p : comp) (l : list (comp * comp)) : nat :=
  length (filter (fun cp => (c =? fst cp) && (p =? snd cp)) l).
Fixpoint count_reg (c p : comp) (h : list op) : nat :=
  match h with
  | [] => 0
  | OReg a b :: t => (if (c =? a) && (p =? b) then 1 else 0) + count_reg c p t
  | _ :: t => count_reg c p t
  end.

Definition isann (e : ev) : bool :=
  match e with Registered _ _ | Unregistered _ _ => true | _ => false end.
Definition gh (s : st) (e : ev) : nat :=
  match e with
  | Registered c p => cntp c p (regd s)
  | Unregistered c p => cntp c p (unregd s)
  | _ => 0
  end.
Definition tot (n : nat) (s : st) (e : ev) : nat := qcount n (q s) e + dcount (disp s) e.

Lemma cnt_app : forall e a b, cnt e (a ++ b) = cnt e a + cnt e b.
Proof. intros. unfold cnt. rewrite filter_app, app_length. reflexivity. Qed.

Lemma cnt_perm : forall e a b, Permutation a b -> cnt e a = cnt e b.
Proof.
  intros e a b H. unfold cnt. induction H; simpl.
  - reflexivity.
  - destruct (ev_eqb e x); simpl; congruence.
  - destruct (ev_eqb e x); destruct (ev_eqb e y); reflexivity.
  - congruence.
Qed.

Lemma qsum_notin : forall e qf x v l, ~ In x l -> qsum e (upd qf x v) l = qsum e qf l.
Proof.
  intros e qf x v. induction l as [|y l IH]; intro H; [reflexivity|].
  unfold qsum in *. simpl. rewrite IH by (intro; apply H; right; assumption).
  rewrite upd_other by (intro E; apply H; left; exact E). reflexivity.
Qed.

Lemma qsum_in : forall e qf x v l, NoDup l -> In x l ->
  qsum e (upd qf x v) l + cnt e (qf x) = qsum e qf l + cnt e v.
Proof.
  intros e qf x v. induction l as [|y l IH]; intros ND H; [contradiction|].
  inversion ND as [|y' l' Hy ND']; subst.
  unfold qsum in *. simpl. destruct H as [->|H].
  - rewrite upd_same. pose proof (qsum_notin e qf x v l Hy) as E. unfold qsum in E. rewrite E. lia.
  - rewrite upd_other by (intro E; subst; contradiction). specialize (IH ND' H). lia.
Qed.

Lemma qcount_upd : forall n e qf x v, x < n ->
  qcount n (upd qf x v) e + cnt e (qf x) = qcount n qf e + cnt e v.
Proof.
  intros. unfold qcount. apply qsum_in; [apply seq_NoDup | apply in_seq; lia].
Qed.

Lemma qcount_upd_out : forall n e qf x v, ~ x < n -> qcount n (upd qf x v) e = qcount n qf e.
Proof. intros. unfold qcount. apply qsum_notin. intro H1. apply in_seq in H1. lia. Qed.

(* appending an event that is not e does not change the count of e *)
Lemma qcount_enq_other : forall n e qf x e0, ev_eqb e e0 = false ->
  qcount n (upd qf x (qf x ++ [e0])) e = qcount n qf e.
Proof.
  intros n e qf x e0 H. destruct (lt_dec x n) as [L|L].
  - pose proof (qcount_upd n e qf x (qf x ++ [e0]) L) as E. rewrite cnt_app in E.
    unfold cnt at 3 in E. simpl in E. rewrite H in E. simpl in E. lia.
  - apply qcount_upd_out. exact L.
Qed.

Lemma qcount_enq_same : forall n e qf x, x < n ->
  qcount n (upd qf x (qf x ++ [e])) e = qcount n qf e + 1.
Proof.
  intros n e qf x L. pose proof (qcount_upd n e qf x (qf x ++ [e]) L) as E. rewrite cnt_app in E.
  unfold cnt at 3 in E. simpl in E. rewrite (proj2 (ev_eqb_eq e e) eq_refl) in E. simpl in E. lia.
Qed.

Lemma complete_regd : forall n c s s', complete n c s = Ok s' -> regd s' = regd s.
Proof.
  intros n c s s' H. unfold complete in H.
  destruct (pend s c); cbn [negb] in H; [|discriminate]. proj_in H.
  destruct (par s c =? c).
  - destruct (upd_root _ _ _ _ _ _); [|discriminate]. inversion H. reflexivity.
  - destruct (kid s (par s c) c); cbn [negb] in H; [|discriminate]. proj_in H.
    destruct (upd_root _ _ _ _ _ _); [|discriminate]. inversion H. reflexivity.
Qed.

(* one dispatch, decomposed *)
Lemma dispatch_shape : forall n r e s s', Inv n s -> par s r = r -> dispatch n r e s = Ok s' ->
  exists s2 d, Inv n s2 /\ q s2 = q s /\ regd s2 = regd s /\ unregd s2 = unregd s /\
    disp s2 = d :: disp s /\ d_ev d = e /\
    match e with
    | PrepUnreg c => s' = enq (rt s2 r) (PrepDone c) s2
    | PrepDone c => complete n c s2 = Ok s' \/ s' = s2
    | _ => s' = s2
    end.
Proof.
  intros n r e s s' I Hr H. unfold dispatch in H.
  destruct (lookup n r e s) as [s1 ms] eqn:Hl.
  destruct (lookup_inv _ _ _ _ _ _ I Hr Hl) as [I1 [Hms T]].
  destruct T as [T1 [T2 [T3 [T4 [T5 [T6 [T7 T8]]]]]]].
  set (d := mkd r e ms (forallb (fun x => rt s1 x =? r) ms)) in *.
  exists (set_disp s1 (d :: disp s1)), d.
  split.
  { unfold Inv; proj. apply invF_disp; [exact I1|]. cbn [d_ok d].
    apply forallb_forall. intros x Hx. apply Nat.eqb_eq. apply Hms. exact Hx. }
  proj. split; [exact T5|]. split; [exact T6|]. split; [exact T7|]. split; [rewrite T8; reflexivity|].
  split; [reflexivity|].
  destruct e as [i|a b|a b|a|a|]; cbv beta iota in H; try (inversion H; subst s'; reflexivity).
  destruct (existsb (Nat.eqb a) ms); [left; exact H | right; inversion H; subst s'; reflexivity].
Qed.

Lemma dispatch_bal : forall n r e0 s s', Inv n s -> par s r = r -> dispatch n r e0 s = Ok s' ->
  forall e, isann e = true ->
  tot n s' e + gh s e = tot n s e + gh s' e + (if ev_eqb e e0 then 1 else 0).
Proof.
  intros n r e0 s s' I Hr H e A.
  destruct (dispatch_shape _ _ _ _ _ I Hr H) as [s2 [d [I2 [Q [R [U [D [De C]]]]]]]].
  assert (B2 : tot n s2 e = tot n s e + (if ev_eqb e e0 then 1 else 0) /\ gh s2 e = gh s e).
  { unfold tot, gh. rewrite Q, R, U, D. split; [|reflexivity].
    unfold dcount. simpl. rewrite De. destruct (ev_eqb e e0); simpl; lia. }
  destruct B2 as [B2 G2].
  assert (Same : s' = s2 -> tot n s' e + gh s e = tot n s e + gh s' e + (if ev_eqb e e0 then 1 else 0)).
  { intros ->. lia. }
  destruct e0; try (apply Same; exact C).
  - (* PrepUnreg *) subst s'. unfold tot, gh in *. proj.
    rewrite qcount_enq_other by (destruct e; simpl in A |- *; congruence). lia.
  - (* PrepDone *) destruct C as [C|C]; [|apply Same; exact C].
    destruct (complete_ok _ _ _ _ C) as [Hp Hrest].
    assert (Hatt : par s2 c <> c) by (apply (i_pend _ _ _ _ _ _ _ _ I2); exact Hp).
    destruct (Hrest Hatt) as [f [_ ->]].
    assert (Hcn : rt s2 c < n).
    { apply (i_rtlt _ _ _ _ _ _ _ _ I2). apply (i_kidlt _ _ _ _ _ _ _ _ I2 (par s2 c)).
      apply (i_kid _ _ _ _ _ _ _ _ I2). split; [reflexivity | congruence]. }
    unfold tot, gh in *. proj.
    destruct (ev_eqb e (Unregistered c (par s2 c))) eqn:E.
    + apply ev_eqb_eq in E. subst e. rewrite qcount_enq_same by exact Hcn.
      unfold cntp at 2. simpl. rewrite !Nat.eqb_refl. simpl. fold (cntp c (par s2 c) (unregd s2)).
      simpl in B2, G2 |- *. lia.
    + rewrite qcount_enq_other by exact E.
      destruct e as [| | a b | | |]; simpl in A; try discriminate; simpl in G2, B2 |- *; [lia|].
      unfold cntp at 2. simpl. simpl in E. rewrite E. fold (cntp a b (unregd s2)). lia.
Qed.

Lemma dispatch_all_bal : forall n r sched s s', Inv n s -> par s r = r -> dispatch_all n r sched s = Ok s' ->
  forall e, isann e = true -> tot n s' e + gh s e = tot n s e + gh s' e + cnt e sched.
Proof.
  intros n r. induction sched as [|e0 t IH]; intros s s' I Hr H e A; simpl in H.
  - inversion H; subst. unfold cnt; simpl. lia.
  - destruct (dispatch n r e0 s) as [s1| | | |] eqn:Hd; try discriminate.
    destruct (dispatch_inv _ _ _ _ _ I Hr Hd) as [I1 Hr1].
    pose proof (dispatch_bal _ _ _ _ _ I Hr Hd e A) as B1.
    pose proof (IH _ _ I1 Hr1 H e A) as B2.
    unfold cnt in *. simpl. destruct (ev_eqb e e0); simpl; lia.
Qed.

Definition Bal (n : nat) (s : st) : Prop := forall e, isann e = true -> tot n s e = gh s e.

Lemma flush_bal : forall n r sched s s', Inv n s -> par s r = r -> r < n -> Bal n s ->
  flush n r sched s = Ok s' -> Bal n s'.
Proof.
  intros n r sched s s' I Hr Hrn B H e A. unfold flush in H.
  destruct (is_perm sched (q s r)) eqn:P; [|discriminate].
  apply is_perm_perm in P. pose proof (cnt_perm e _ _ P) as CP.
  set (s0 := set_q s (upd (q s) r [])) in *.
  assert (I0 : Inv n s0) by exact I.
  pose proof (dispatch_all_bal _ _ _ _ _ I0 Hr H e A) as D.
  assert (E0 : tot n s0 e + cnt e (q s r) = tot n s e).
  { unfold tot, s0. proj. pose proof (qcount_upd n e (q s) r [] Hrn) as E.
    unfold cnt at 2 in E. simpl in E. lia. }
  assert (G0 : gh s0 e = gh s e) by reflexivity.
  specialize (B e A). lia.
Qed.

Lemma tick1_bal : forall n r sched s s', Inv n s -> r < n -> Bal n s -> tick1 n r sched s = Ok s' -> Bal n s'.
Proof.
  intros n r sched s s' I Hr B H. unfold tick1 in H. destruct (q s r).
  - destruct sched; [inversion H; subst; exact B | discriminate].
  - eapply flush_bal; [exact I | | | exact B | exact H].
    + apply (i_rtroot _ _ _ _ _ _ _ _ I).
    + apply (i_rtlt _ _ _ _ _ _ _ _ I). exact Hr.
Qed.

Lemma ticks_bal : forall n r scheds s s', Inv n s -> r < n -> Bal n s -> ticks n r scheds s = Ok s' -> Bal n s'.
Proof.
  intros n r. induction scheds as [|sc t IH]; intros s s' I Hr B H; simpl in H.
  - inversion H; subst; exact B.
  - destruct (tick1 n r sc s) as [s1| | | |] eqn:Ht; try discriminate.
    eapply IH; [| exact Hr | | exact H]; [eapply tick1_inv | eapply tick1_bal]; eassumption.
Qed.

Lemma enq_bal_other : forall n x e0 s, isann e0 = false -> Bal n s -> Bal n (enq x e0 s).
Proof.
  intros n x e0 s A0 B e A. specialize (B e A). unfold tot, gh in *. proj.
  rewrite qcount_enq_other; [exact B|]. destruct e, e0; simpl in *; congruence.
Qed.

Lemma register_bal : forall n c p s s', Inv n s -> Bal n s -> register n c p s = Ok s' -> Bal n s'.
Proof.
  intros n c p s s' I B H e A.
  destruct (register_queue _ _ _ _ _ I H) as [Hrc _].
  destruct (register_ok _ _ _ _ _ H) as [Hc [Hp [Hdet [Hnp [Hout [Hcp [f [Hu E]]]]]]]].
  assert (HR : rt s p < n) by (apply (i_rtlt _ _ _ _ _ _ _ _ I); exact Hp).
  rewrite E in Hrc |- *. proj_in Hrc. specialize (B e A). unfold tot, gh in *. proj. rewrite Hrc.
  set (q1 := upd (q s) (rt s p) (q s (rt s p) ++ q s c)).
  set (q2 := upd q1 c []).
  assert (E1 : qcount n q1 e = qcount n (q s) e + cnt e (q s c)).
  { pose proof (qcount_upd n e (q s) (rt s p) (q s (rt s p) ++ q s c) HR) as X. rewrite cnt_app in X. unfold q1. lia. }
  assert (E2 : qcount n q2 e + cnt e (q s c) = qcount n q1 e).
  { pose proof (qcount_upd n e q1 c [] Hc) as X. unfold q1 at 2 in X.
    rewrite upd_other in X by (intro Y; apply Hout; symmetry; exact Y).
    unfold cnt at 2 in X. simpl in X. unfold q2. lia. }
  destruct (ev_eqb e (Registered c p)) eqn:Ee.
  - apply ev_eqb_eq in Ee. subst e. rewrite qcount_enq_same by exact HR.
    unfold cntp at 1. simpl. rewrite !Nat.eqb_refl. simpl. fold (cntp c p (regd s)). simpl in B. lia.
  - rewrite qcount_enq_other by exact Ee.
    destruct e as [|a b| | | |]; simpl in A; try discriminate; simpl in B |- *; [|lia].
    unfold cntp at 1. simpl. simpl in Ee. rewrite Ee. fold (cntp a b (regd s)). lia.
Qed.

Lemma step_bal : forall n o s s', Inv n s -> Bal n s -> step n o s = Ok s' -> Bal n s'.
Proof.
  intros n o s s' I B H. destruct o as [c p|c|x i|r scheds|x sched]; simpl in H.
  - eapply register_bal; eassumption.
  - unfold unregister in H. destruct (c <? n); [|discriminate].
    destruct (par s c =? c); [discriminate|]. cbn [andb negb] in H.
    destruct (pend s c); inversion H; subst; [exact B|]. apply enq_bal_other; [reflexivity | exact B].
  - destruct (x <? n); [|discriminate]. inversion H; subst. apply enq_bal_other; [reflexivity | exact B].
  - destruct (r <? n) eqn:L; [|discriminate]. destruct (par s r =? r); [|discriminate].
    apply Nat.ltb_lt in L. cbn [andb] in H. eapply ticks_bal; [exact I | exact L | exact B | exact H].
  - destruct (x <? n) eqn:L; [|discriminate]. apply Nat.ltb_lt in L.
    eapply flush_bal; [exact I | | | exact B | exact H].
    + apply (i_rtroot _ _ _ _ _ _ _ _ I).
    + apply (i_rtlt _ _ _ _ _ _ _ _ I). exact L.
Qed.

Lemma run_bal : forall n h s s', Inv n s -> Bal n s -> run n h s = Ok s' -> Bal n s'.
Proof.
  intros n. induction h as [|o t IH]; intros s s' I B H; simpl in H.
  - inversion H; subst; exact B.
  - destruct (step n o s) as [s1| | | |] eqn:Hs; try discriminate.
    eapply IH; [| | exact H]; [eapply step_inv | eapply step_bal]; eassumption.
Qed.

Lemma bal_init : forall n, Bal n init.
Proof.
  intros n e A. unfold tot, gh, qcount, qsum, dcount, init; simpl.
  assert (Z : forall l, list_sum (map (fun _ : nat => cnt e []) l) = 0).
  { induction l; simpl; [reflexivity | exact IHl]. }
  rewrite Z. destruct e; reflexivity.
Qed.

(* the ghost list of registrations is the list of register ops of the history *)
Lemma dispatch_all_regd : forall n r sched s s', Inv n s -> par s r = r ->
  dispatch_all n r sched s = Ok s' -> regd s' = regd s.
Proof.
  intros n r. induction sched as [|e0 t IH]; intros s s' I Hr H; simpl in H.
  - inversion H; reflexivity.
  - destruct (dispatch n r e0 s) as [s1| | | |] eqn:Hd; try discriminate.
    destruct (dispatch_inv _ _ _ _ _ I Hr Hd) as [I1 Hr1].
    rewrite (IH _ _ I1 Hr1 H).
    destruct (dispatch_shape _ _ _ _ _ I Hr Hd) as [s2 [d [_ [_ [R [_ [_ [_ C]]]]]]]].
    destruct e0 as [i|a b|a b|a|a|].
    5:{ destruct C as [C| ->]; [|exact R]. rewrite (complete_regd _ _ _ _ C). exact R. }
    all: rewrite C; exact R.
Qed.

Lemma step_regd : forall n o s s' c p, Inv n s -> step n o s = Ok s' ->
  cntp c p (regd s') = cntp c p (regd s) + count_reg c p [o].
Proof.
  intros n o s s' c p I H. destruct o as [a b|a|x i|r scheds|x sched]; simpl in H |- *.
  - destruct (register_ok _ _ _ _ _ H) as [_ [_ [_ [_ [_ [_ [f [_ ->]]]]]]]]. proj.
    unfold cntp. simpl. destruct ((c =? a) && (p =? b)); simpl; lia.
  - unfold unregister in H. destruct (a <? n); [|discriminate].
    destruct (par s a =? a); [discriminate|]. cbn [andb negb] in H.
    destruct (pend s a); inversion H; subst; proj; lia.
  - destruct (x <? n); [|discriminate]. inversion H; subst. proj. lia.
  - destruct ((r <? n) && (par s r =? r)); [|discriminate].
    assert (X : forall scheds s s', Inv n s -> ticks n r scheds s = Ok s' -> regd s' = regd s).
    { induction scheds0 as [|sc t IH]; intros s0 s0' I0 H0; simpl in H0; [inversion H0; reflexivity|].
      destruct (tick1 n r sc s0) as [s1| | | |] eqn:Ht; try discriminate.
      rewrite (IH _ _ (tick1_inv _ _ _ _ _ I0 Ht) H0).
      unfold tick1 in Ht. destruct (q s0 r).
      - destruct sc; [inversion Ht; reflexivity | discriminate].
      - unfold flush in Ht. destruct (is_perm sc (q s0 (rt s0 r))); [|discriminate].
        eapply (dispatch_all_regd _ _ _ (set_q s0 (upd (q s0) (rt s0 r) []))); [exact I0 | | exact Ht].
        apply (i_rtroot _ _ _ _ _ _ _ _ I0). }
    rewrite (X _ _ _ I H). lia.
  - destruct (x <? n); [|discriminate]. unfold flush in H.
    destruct (is_perm sched (q s (rt s x))); [|discriminate].
    rewrite (dispatch_all_regd _ _ _ (set_q s (upd (q s) (rt s x) [])) _ I (i_rtroot _ _ _ _ _ _ _ _ I x) H). proj. lia.
Qed.

Lemma run_regd : forall n h s s' c p, Inv n s -> run n h s = Ok s' ->
  cntp c p (regd s') = cntp c p (regd s) + count_reg c p h.
Proof.
  intros n. induction h as [|o t IH]; intros s s' c p I H; simpl in H.
  - inversion H; subst. simpl. lia.
  - destruct (step n o s) as [s1| | | |] eqn:Hs; try discriminate.
    rewrite (IH _ _ c p (step_inv _ _ _ _ I Hs) H). rewrite (step_regd _ _ _ _ c p I Hs).
    destruct o; simpl; lia.
Qed.

(* ------------------------------------------------------------------ lifted to histories *)

Lemma run_inv0 : forall n h s, run n h init = Ok s -> Inv n s.
Proof. intros n h s H. eapply run_inv; [apply inv_init | exact H]. Qed.

Lemma run_forest : forall n h s, run n h init = Ok s -> forest s.
Proof. intros n h s H. eapply inv_forest. eapply run_inv0; exact H. Qed.

Lemma run_subtree_reading : forall n h s c p, run n h init = Ok s -> par s c = c ->
  (rt s p = c <-> desc (kid s) c p).
Proof. intros n h s c p H. eapply inv_subtree_reading. eapply run_inv0; exact H. Qed.

Lemma run_pending_attached : forall n h s c, run n h init = Ok s -> pend s c = true -> par s c <> c.
Proof. intros n h s c H. eapply inv_pending_attached. eapply run_inv0; exact H. Qed.

Lemma run_deliveries : forall n h s d, run n h init = Ok s -> In d (disp s) -> d_ok d = true.
Proof. intros n h s d H. apply (i_disp _ _ _ _ _ _ _ _ (run_inv0 _ _ _ H)). Qed.

Lemma run_detach_connected : forall n h s c s', run n h init = Ok s -> complete n c s = Ok s' ->
  par s' c = c /\ pend s' c = false /\ kid s' (par s c) c = false /\
  (forall x, desc (kid s) c x ->
     rt s' x = c /\ desc (kid s') c x /\ (x <> c -> par s' x = par s x /\ kid s' (par s x) x = kid s (par s x) x)) /\
  (forall x, ~ desc (kid s) c x -> rt s' x = rt s x /\ par s' x = par s x).
Proof. intros n h s c s' H. apply detach_connected. eapply run_inv0; exact H. Qed.

Lemma run_move_connected : forall n h s c p s', run n h init = Ok s -> register n c p s = Ok s' ->
  par s' c = p /\ kid s' p c = true /\
  (forall x, desc (kid s) c x ->
     rt s' x = rt s p /\ desc (kid s') c x /\ (x <> c -> par s' x = par s x /\ kid s' (par s x) x = kid s (par s x) x)) /\
  (forall x, ~ desc (kid s) c x -> rt s' x = rt s x /\ par s' x = par s x).
Proof. intros n h s c p s' H. apply move_connected. eapply run_inv0; exact H. Qed.

Lemma run_register_queue : forall n h s c p s', run n h init = Ok s -> register n c p s = Ok s' ->
  rt s' c = rt s p /\
  q s' (rt s p) = q s (rt s p) ++ q s c ++ [Registered c p] /\
  q s' c = [] /\
  (forall x, x <> c -> x <> rt s p -> q s' x = q s x).
Proof. intros n h s c p s' H. apply register_queue. eapply run_inv0; exact H. Qed.

Lemma run_announce_registered : forall n h s c p, run n h init = Ok s ->
  qcount n (q s) (Registered c p) + dcount (disp s) (Registered c p) = count_reg c p h.
Proof.
  intros n h s c p H.
  pose proof (run_bal _ _ _ _ (inv_init n) (bal_init n) H (Registered c p) eq_refl) as B.
  pose proof (run_regd _ _ _ _ c p (inv_init n) H) as R.
  unfold tot, gh in B. simpl in R. rewrite B, R. reflexivity.
Qed.

Lemma run_announce_unregistered : forall n h s c p, run n h init = Ok s ->
  qcount n (q s) (Unregistered c p) + dcount (disp s) (Unregistered c p) = cntp c p (unregd s).
Proof.
  intros n h s c p H.
  exact (run_bal _ _ _ _ (inv_init n) (bal_init n) H (Unregistered c p) eq_refl).
Qed.

(* ================================================================== C07_run_ok: no Crash, no OutOfFuel *)

(* ------------------------------------------------------------------ the fuel of _updateRoot suffices *)

(* a descending path c -> k1 -> k2 ... through .components links *)
Inductive chain (kd : comp -> comp -> bool) : comp -> list comp -> Prop :=
| chain_nil : forall c, chain kd c []
| chain_cons : forall c k l, kd c k = true -> chain kd k l -> chain kd c (k :: l).

Lemma fold_ur_fail : forall n fu kd r c l g0,
  fold_left (ur_step n fu kd r c) l (Some g0) = None ->
  exists k g, kd c k = true /\ upd_root n fu kd r k g = None.
Proof.
  intros n fu kd r c. induction l as [|a l IH]; intros g0 H; simpl in H; [discriminate|].
  destruct (kd c a) eqn:Hk.
  - destruct (upd_root n fu kd r a g0) as [g1|] eqn:H1.
    + exact (IH g1 H).
    + exists a, g0. split; assumption.
  - exact (IH g0 H).
Qed.

(* running out of fuel fu means there is a descending path with fu edges *)
Lemma upd_root_fail_chain : forall n kd r fu c f, upd_root n fu kd r c f = None ->
  exists l, length l = fu /\ chain kd c l.
Proof.
  intros n kd r. induction fu as [|fu IH]; intros c f H.
  - exists []. split; [reflexivity | constructor].
  - rewrite upd_root_S in H. destruct (fold_ur_fail _ _ _ _ _ _ _ H) as [k [g [Hk Hu]]].
    destruct (IH k g Hu) as [l [Hl Hc]]. exists (k :: l). split; [simpl; congruence | constructor; assumption].
Qed.

Lemma chain_nodup : forall kd (rk : comp -> nat), (forall a b, kd a b = true -> rk a < rk b) ->
  forall l c, chain kd c l -> (forall x, In x l -> rk c < rk x) /\ NoDup (c :: l).
Proof.
  intros kd rk Hrk. induction l as [|a l IH]; intros c H.
  - split; [intros x [] | constructor; [intros [] | constructor]].
  - inversion H as [|c' k l' Hk Hc]; subst. destruct (IH a Hc) as [Hlt Hnd].
    assert (Hall : forall x, In x (a :: l) -> rk c < rk x).
    { intros x [<-|Hx]; [apply Hrk; exact Hk|]. specialize (Hlt x Hx). specialize (Hrk c a Hk). lia. }
    split; [exact Hall|]. constructor; [|exact Hnd]. intro Hin. specialize (Hall c Hin). lia.
Qed.

Lemma chain_lt : forall n kd, (forall a b, kd a b = true -> b < n) ->
  forall l c, chain kd c l -> forall x, In x l -> x < n.
Proof.
  intros n kd Hlt. induction l as [|a l IH]; intros c H x Hx; [contradiction|].
  inversion H as [|c' k l' Hk Hc]; subst. destruct Hx as [<-|Hx]; [eapply Hlt; exact Hk | eapply IH; eassumption].
Qed.

(* links that increase a rank cannot form a path longer than the pool: fuel n+1 is enough *)
Lemma upd_root_total : forall n kd r c f,
  (forall a b, kd a b = true -> b < n) ->
  (exists rk : comp -> nat, forall a b, kd a b = true -> rk a < rk b) ->
  c < n -> exists g, upd_root n (S n) kd r c f = Some g.
Proof.
  intros n kd r c f Hlt [rk Hrk] Hc.
  destruct (upd_root n (S n) kd r c f) as [g|] eqn:E; [exists g; reflexivity|]. exfalso.
  destruct (upd_root_fail_chain _ _ _ _ _ _ E) as [l [Hl Hch]].
  destruct (chain_nodup kd rk Hrk l c Hch) as [_ Hnd].
  assert (Hincl : incl (c :: l) (seq 0 n)).
  { intros x Hx. apply in_seq. split; [lia|]. simpl.
    destruct Hx as [<-|Hx]; [exact Hc | eapply chain_lt; eassumption]. }
  pose proof (NoDup_incl_length Hnd Hincl) as Hlen. rewrite seq_length in Hlen. simpl in Hlen. lia.
Qed.

Lemma inv_rank_down : forall n pa ro kd pe di ca dl, InvF n pa ro kd pe di ca dl ->
  exists rk : comp -> nat, forall a b, kd a b = true -> rk a < rk b.
Proof.
  intros n pa ro kd pe di ca dl I. destruct (i_rank _ _ _ _ _ _ _ _ I) as [rk Hrk]. exists rk.
  intros a b H. apply (i_kid _ _ _ _ _ _ _ _ I) in H. destruct H as [H1 H2].
  rewrite <- H1. apply Hrk. congruence.
Qed.

(* ------------------------------------------------------------------ progress of the primitives *)

Lemma complete_progress : forall n c s, Inv n s -> pend s c = true -> exists s', complete n c s = Ok s'.
Proof.
  intros n c s I Hp. unfold complete. rewrite Hp. cbn [negb]. proj.
  assert (Hatt : par s c <> c) by (apply (i_pend _ _ _ _ _ _ _ _ I); exact Hp).
  destruct (par s c =? c) eqn:E; [apply Nat.eqb_eq in E; contradiction|].
  assert (Hk : kid s (par s c) c = true).
  { apply (i_kid _ _ _ _ _ _ _ _ I). split; [reflexivity | congruence]. }
  rewrite Hk. cbn [negb]. proj.
  assert (Hsub : forall a b, upd2 (kid s) (par s c) c false a b = true -> kid s a b = true).
  { intros a b H. destruct (Nat.eq_dec a (par s c)) as [->|Na]; destruct (Nat.eq_dec b c) as [->|Nb];
      try (rewrite upd2_same in H; discriminate); (rewrite upd2_other in H by tauto); exact H. }
  destruct (upd_root_total n (upd2 (kid s) (par s c) c false) c c (rt s)) as [g Hg].
  - intros a b H. eapply (i_kidlt _ _ _ _ _ _ _ _ I). apply Hsub. exact H.
  - destruct (inv_rank_down _ _ _ _ _ _ _ _ I) as [rk Hrk]. exists rk. intros a b H. apply Hrk. apply Hsub. exact H.
  - eapply (i_kidlt _ _ _ _ _ _ _ _ I). exact Hk.
  - rewrite Hg. eexists. reflexivity.
Qed.

Lemma register_progress : forall n c p s, Inv n s ->
  c < n -> p < n -> par s c = c -> pend s c = false -> ~ desc (kid s) c p ->
  exists s', register n c p s = Ok s'.
Proof.
  intros n c p s I Hc Hp Hdet Hnp Hout. unfold register.
  assert (Hrp : rt s p <> c).
  { intro E. apply Hout. apply (inv_subtree_reading _ _ _ _ I Hdet). exact E. }
  assert (Hcp : c <> p) by (intro E; subst; apply Hout; apply desc_refl).
  apply Nat.ltb_lt in Hc as Hc'. apply Nat.ltb_lt in Hp as Hp'. rewrite Hc', Hp'.
  rewrite (proj2 (Nat.eqb_eq _ _) Hdet), Hnp.
  rewrite (proj2 (Nat.eqb_neq _ _) Hrp), (proj2 (Nat.eqb_neq _ _) Hcp). cbn [andb negb]. proj.
  destruct (upd_root_total n (upd2 (kid s) p c true) (rt s p) c (upd (rt s) c (rt s p))) as [g Hg].
  - intros a b H. destruct (Nat.eq_dec a p) as [->|Na]; destruct (Nat.eq_dec b c) as [->|Nb]; try exact Hc;
      (rewrite upd2_other in H by tauto); eapply (i_kidlt _ _ _ _ _ _ _ _ I); exact H.
  - destruct (i_rank _ _ _ _ _ _ _ _ I) as [rk Hrk].
    exists (fun x => if rt s x =? c then rk x + rk p + 1 else rk x).
    intros a b H. destruct (Nat.eq_dec a p) as [->|Na].
    + destruct (Nat.eq_dec b c) as [->|Nb].
      * rewrite (proj2 (Nat.eqb_neq _ _) Hrp).
        rewrite (i_self _ _ _ _ _ _ _ _ I c Hdet), Nat.eqb_refl. lia.
      * rewrite upd2_other in H by tauto. apply (i_kid _ _ _ _ _ _ _ _ I) in H. destruct H as [H1 H2].
        assert (R : rt s b = rt s p) by (rewrite <- H1; symmetry; apply (i_rtpar _ _ _ _ _ _ _ _ I)).
        rewrite R. assert (L : rk p < rk b) by (rewrite <- H1; apply Hrk; congruence).
        destruct (rt s p =? c); lia.
    + rewrite upd2_other in H by tauto. apply (i_kid _ _ _ _ _ _ _ _ I) in H. destruct H as [H1 H2].
      assert (R : rt s b = rt s a) by (rewrite <- H1; symmetry; apply (i_rtpar _ _ _ _ _ _ _ _ I)).
      rewrite R. assert (L : rk a < rk b) by (rewrite <- H1; apply Hrk; congruence).
      destruct (rt s a =? c); lia.
  - exact Hc.
  - rewrite Hg. eexists. reflexivity.
Qed.

(* ------------------------------------------------------------------ a completion event only exists for a pending component *)

(* prepare_unregister(c) and prepare_unregister_complete(c) events in the queues of the pool and in the
   rest of the batch being dispatched *)
Definition occ (n : nat) (qf : comp -> list ev) (rem : list ev) (c : comp) : nat :=
  qcount n qf (PrepUnreg c) + qcount n qf (PrepDone c) + cnt (PrepUnreg c) rem + cnt (PrepDone c) rem.

Definition PI (n : nat) (s : st) (rem : list ev) : Prop :=
  forall c, occ n (q s) rem c <= (if pend s c then 1 else 0).

Lemma cnt_cons : forall e e0 t, cnt e (e0 :: t) = (if ev_eqb e e0 then 1 else 0) + cnt e t.
Proof. intros. unfold cnt. simpl. destruct (ev_eqb e e0); reflexivity. Qed.

Lemma cnt_nil : forall e, cnt e [] = 0.
Proof. reflexivity. Qed.

Lemma qcount_enq_le : forall n e qf x e0,
  qcount n (upd qf x (qf x ++ [e0])) e <= qcount n qf e + (if ev_eqb e e0 then 1 else 0).
Proof.
  intros n e qf x e0. destruct (ev_eqb e e0) eqn:E.
  - apply ev_eqb_eq in E. subst e0. destruct (lt_dec x n) as [L|L].
    + rewrite qcount_enq_same by exact L. lia.
    + rewrite qcount_upd_out by exact L. lia.
  - rewrite qcount_enq_other by exact E. lia.
Qed.

Lemma dispatch_unfold : forall n r e s, Inv n s -> par s r = r ->
  exists s2 ms, Inv n s2 /\ q s2 = q s /\ pend s2 = pend s /\ par s2 = par s /\
    dispatch n r e s = match e with
                       | PrepUnreg c => Ok (enq (rt s2 r) (PrepDone c) s2)
                       | PrepDone c => if existsb (Nat.eqb c) ms then complete n c s2 else Ok s2
                       | _ => Ok s2
                       end.
Proof.
  intros n r e s I Hr. unfold dispatch.
  destruct (lookup n r e s) as [s1 ms] eqn:Hl.
  destruct (lookup_inv _ _ _ _ _ _ I Hr Hl) as [I1 [Hms T]].
  destruct T as [T1 [T2 [T3 [T4 [T5 [T6 [T7 T8]]]]]]].
  set (d := mkd r e ms (forallb (fun x => rt s1 x =? r) ms)).
  exists (set_disp s1 (d :: disp s1)), ms.
  split.
  { unfold Inv; proj. apply invF_disp; [exact I1|]. cbn [d_ok d].
    apply forallb_forall. intros x Hx. apply Nat.eqb_eq. apply Hms. exact Hx. }
  proj. split; [exact T5|]. split; [exact T4|]. split; [exact T1|].
  destruct e; reflexivity.
Qed.

Lemma PI_weaken : forall n s s2 e0 t, q s2 = q s -> pend s2 = pend s -> PI n s (e0 :: t) -> PI n s2 t.
Proof.
  intros n s s2 e0 t Q P H c. specialize (H c). unfold occ in *. rewrite Q, P.
  rewrite !cnt_cons in H. lia.
Qed.

Lemma dispatch_progress : forall n r e0 t s, Inv n s -> par s r = r -> PI n s (e0 :: t) ->
  exists s', dispatch n r e0 s = Ok s' /\ PI n s' t.
Proof.
  intros n r e0 t s I Hr H.
  destruct (dispatch_unfold n r e0 s I Hr) as [s2 [ms [I2 [Q [P [Pa E]]]]]].
  rewrite E. pose proof (PI_weaken _ _ _ _ _ Q P H) as W.
  destruct e0 as [i|a b|a b|a|a|]; try (exists s2; split; [reflexivity | exact W]).
  - (* prepare_unregister(a): its completion event is fired *)
    eexists. split; [reflexivity|]. intro c. specialize (H c). unfold occ in *. proj.
    rewrite Q, P. rewrite !cnt_cons in H.
    pose proof (qcount_enq_le n (PrepUnreg c) (q s) (rt s2 r) (PrepDone a)) as L1.
    pose proof (qcount_enq_le n (PrepDone c) (q s) (rt s2 r) (PrepDone a)) as L2.
    simpl in H, L1, L2. destruct (c =? a); lia.
  - (* prepare_unregister_complete(a) *)
    destruct (existsb (Nat.eqb a) ms); [|exists s2; split; [reflexivity | exact W]].
    assert (Hp : pend s2 a = true).
    { specialize (H a). unfold occ in H. rewrite !cnt_cons in H. simpl in H. rewrite Nat.eqb_refl in H.
      rewrite P. destruct (pend s a); [reflexivity | lia]. }
    destruct (complete_progress n a s2 I2 Hp) as [s' Hs']. exists s'. split; [exact Hs'|].
    destruct (complete_ok _ _ _ _ Hs') as [_ Hrest].
    destruct (Hrest (i_pend _ _ _ _ _ _ _ _ I2 a Hp)) as [f [_ ->]].
    intro c. specialize (H c). unfold occ in *. proj. rewrite Q, P. rewrite !cnt_cons in H.
    rewrite !qcount_enq_other by reflexivity. simpl in H.
    destruct (Nat.eq_dec c a) as [->|N].
    + rewrite upd_same. rewrite Nat.eqb_refl in H. destruct (pend s a); lia.
    + rewrite upd_other by exact N. rewrite (proj2 (Nat.eqb_neq _ _) N) in H. lia.
Qed.

Lemma dispatch_all_progress : forall n r sched s, Inv n s -> par s r = r -> PI n s sched ->
  exists s', dispatch_all n r sched s = Ok s' /\ Inv n s' /\ PI n s' [].
Proof.
  intros n r. induction sched as [|e0 t IH]; intros s I Hr H.
  - exists s. split; [reflexivity | split; assumption].
  - destruct (dispatch_progress _ _ _ _ _ I Hr H) as [s1 [Hd H1]].
    destruct (dispatch_inv _ _ _ _ _ I Hr Hd) as [I1 Hr1].
    destruct (IH s1 I1 Hr1 H1) as [s' [Ha [I' H']]].
    exists s'. simpl. rewrite Hd. split; [exact Ha | split; assumption].
Qed.

Lemma remove1_in : forall e l, In e l -> exists l', remove1 e l = Some l'.
Proof.
  intros e. induction l as [|x t IH]; intro H; [contradiction|]. simpl.
  destruct (ev_eqb e x) eqn:E; [eexists; reflexivity|].
  destruct H as [->|H]; [rewrite (proj2 (ev_eqb_eq e e) eq_refl) in E; discriminate|].
  destruct (IH H) as [t' ->]. eexists; reflexivity.
Qed.

Lemma perm_is_perm : forall sched batch, Permutation sched batch -> is_perm sched batch = true.
Proof.
  induction sched as [|e t IH]; intros batch H; simpl.
  - apply Permutation_nil in H. subst. reflexivity.
  - assert (Hin : In e batch) by (eapply Permutation_in; [exact H | left; reflexivity]).
    destruct (remove1_in _ _ Hin) as [b R]. rewrite R. apply IH.
    apply remove1_perm in R. eapply Permutation_cons_inv. eapply perm_trans; [exact H | exact R].
Qed.

Lemma flush_progress : forall n r sched s, Inv n s -> par s r = r -> r < n -> PI n s [] ->
  Permutation sched (q s r) ->
  exists s', flush n r sched s = Ok s' /\ Inv n s' /\ PI n s' [].
Proof.
  intros n r sched s I Hr Hrn H P. unfold flush. rewrite (perm_is_perm _ _ P).
  apply dispatch_all_progress; [exact I | exact Hr|].
  intro c. specialize (H c). unfold occ in *. proj. rewrite !cnt_nil in H.
  rewrite (cnt_perm _ _ _ P), (cnt_perm (PrepDone c) _ _ P).
  pose proof (qcount_upd n (PrepUnreg c) (q s) r [] Hrn) as E1.
  pose proof (qcount_upd n (PrepDone c) (q s) r [] Hrn) as E2.
  rewrite cnt_nil in E1, E2. lia.
Qed.

(* ------------------------------------------------------------------ histories that satisfy the preconditions *)

(* the preconditions of the property's quantifier, read on the state the op is applied to *)
Definition op_pre (n : nat) (o : op) (s : st) : Prop :=
  match o with
  | OReg c p => c < n /\ p < n /\ par s c = c /\ pend s c = false /\ ~ desc (kid s) c p
  | OUnreg c => c < n /\ par s c <> c
  | OFire x _ => x < n
  | OTick r _ => r < n /\ par s r = r
  | OFlush x _ => x < n
  end.

(* every flush dispatches its batch in some order: the schedule is a permutation of what is queued *)
Fixpoint ticks_sched (n : nat) (r : comp) (scheds : list (list ev)) (s : st) : Prop :=
  match scheds with
  | [] => True
  | sc :: t => match q s r with
               | [] => sc = [] /\ ticks_sched n r t s
               | _ => Permutation sc (q s (rt s r)) /\
                      forall s', flush n (rt s r) sc s = Ok s' -> ticks_sched n r t s'
               end
  end.

Definition op_sched (n : nat) (o : op) (s : st) : Prop :=
  match o with
  | OTick r scheds => ticks_sched n r scheds s
  | OFlush x sched => Permutation sched (q s (rt s x))
  | _ => True
  end.

Fixpoint valid (n : nat) (h : list op) (s : st) : Prop :=
  match h with
  | [] => True
  | o :: t => op_pre n o s /\ op_sched n o s /\ forall s', step n o s = Ok s' -> valid n t s'
  end.

Lemma ticks_progress : forall n r scheds s, Inv n s -> r < n -> PI n s [] -> ticks_sched n r scheds s ->
  exists s', ticks n r scheds s = Ok s' /\ Inv n s' /\ PI n s' [].
Proof.
  intros n r. induction scheds as [|sc t IH]; intros s I Hr H V.
  - exists s. split; [reflexivity | split; assumption].
  - simpl in V |- *. unfold tick1. destruct (q s r) eqn:Q.
    + destruct V as [-> V]. apply IH; assumption.
    + destruct V as [P V].
      destruct (flush_progress n (rt s r) sc s I (i_rtroot _ _ _ _ _ _ _ _ I r)
                  (i_rtlt _ _ _ _ _ _ _ _ I r Hr) H P) as [s1 [F [I1 H1]]].
      rewrite F. apply IH; [exact I1 | exact Hr | exact H1 | apply V; exact F].
Qed.

Lemma step_progress : forall n o s, Inv n s -> PI n s [] -> op_pre n o s -> op_sched n o s ->
  exists s', step n o s = Ok s' /\ Inv n s' /\ PI n s' [].
Proof.
  intros n o s I H Pre Sch. destruct o as [c p|c|x i|r scheds|x sched]; simpl in Pre, Sch |- *.
  - destruct Pre as [Hc [Hp [Hdet [Hnp Hout]]]].
    destruct (register_progress n c p s I Hc Hp Hdet Hnp Hout) as [s' R]. exists s'. split; [exact R|].
    split; [eapply register_inv; eassumption|].
    intro c'. specialize (H c'). unfold occ in *.
    pose proof (register_queue _ _ _ _ _ I R) as [Hrc _].
    destruct (register_ok _ _ _ _ _ R) as [_ [_ [_ [_ [Hrp [_ [f [_ E]]]]]]]].
    assert (HR : rt s p < n) by (apply (i_rtlt _ _ _ _ _ _ _ _ I); exact Hp).
    rewrite E in Hrc |- *. proj_in Hrc. proj. rewrite Hrc.
    rewrite !qcount_enq_other by reflexivity.
    assert (X : forall e, qcount n (upd (upd (q s) (rt s p) (q s (rt s p) ++ q s c)) c []) e = qcount n (q s) e).
    { intro e.
      pose proof (qcount_upd n e (q s) (rt s p) (q s (rt s p) ++ q s c) HR) as X1. rewrite cnt_app in X1.
      pose proof (qcount_upd n e (upd (q s) (rt s p) (q s (rt s p) ++ q s c)) c [] Hc) as X2.
      rewrite upd_other in X2 by (intro Y; apply Hrp; symmetry; exact Y). rewrite cnt_nil in X2. lia. }
    rewrite !X. exact H.
  - destruct Pre as [Hc Hatt]. unfold unregister.
    rewrite (proj2 (Nat.ltb_lt _ _) Hc), (proj2 (Nat.eqb_neq _ _) Hatt). cbn [andb negb].
    destruct (pend s c) eqn:Hp.
    + exists s. split; [reflexivity | split; assumption].
    + eexists. split; [reflexivity|]. split.
      * eapply unregister_inv; [exact I|]. unfold unregister.
        rewrite (proj2 (Nat.ltb_lt _ _) Hc), (proj2 (Nat.eqb_neq _ _) Hatt), Hp. reflexivity.
      * intro c'. pose proof (H c') as H'. unfold occ in *. proj.
        pose proof (qcount_enq_le n (PrepUnreg c') (q s) (rt s c) (PrepUnreg c)) as L1.
        rewrite (qcount_enq_other n (PrepDone c')) by reflexivity.
        simpl in L1. destruct (Nat.eq_dec c' c) as [->|N].
        -- rewrite upd_same. rewrite Hp in H'. rewrite Nat.eqb_refl in L1. lia.
        -- rewrite upd_other by exact N. rewrite (proj2 (Nat.eqb_neq _ _) N) in L1. lia.
  - rewrite (proj2 (Nat.ltb_lt _ _) Pre). eexists. split; [reflexivity|]. split; [exact I|].
    intro c. specialize (H c). unfold occ in *. proj. rewrite !qcount_enq_other by reflexivity. exact H.
  - destruct Pre as [Hr Hroot].
    rewrite (proj2 (Nat.ltb_lt _ _) Hr), (proj2 (Nat.eqb_eq _ _) Hroot). cbn [andb].
    apply ticks_progress; assumption.
  - rewrite (proj2 (Nat.ltb_lt _ _) Pre).
    apply flush_progress; try assumption.
    + apply (i_rtroot _ _ _ _ _ _ _ _ I).
    + apply (i_rtlt _ _ _ _ _ _ _ _ I). exact Pre.
Qed.

Lemma run_progress : forall n h s, Inv n s -> PI n s [] -> valid n h s ->
  exists s', run n h s = Ok s' /\ Inv n s' /\ PI n s' [].
Proof.
  intros n. induction h as [|o t IH]; intros s I H V.
  - exists s. split; [reflexivity | split; assumption].
  - destruct V as [Pre [Sch V]].
    destruct (step_progress n o s I H Pre Sch) as [s1 [S [I1 H1]]].
    simpl. rewrite S. apply IH; [exact I1 | exact H1 | apply V; exact S].
Qed.

Lemma qcount_empty : forall n e, qcount n (fun _ => []) e = 0.
Proof.
  intros n e. unfold qcount, qsum. induction (seq 0 n) as [|a l IH]; simpl; [reflexivity | exact IH].
Qed.

Lemma PI_init : forall n, PI n init [].
Proof.
  intros n c. unfold occ. change (q init) with (fun _ : comp => @nil ev).
  rewrite !qcount_empty, !cnt_nil. simpl. lia.
Qed.

(* every history that satisfies the preconditions, under every schedule, runs to Ok:
   no Crash (delattr / set.remove), no OutOfFuel (_updateRoot), no PreViolated, no BadSched *)
Lemma run_ok_pi : forall n h, valid n h init -> exists s, run n h init = Ok s /\ Inv n s /\ PI n s [].
Proof. intros n h V. apply run_progress; [apply inv_init | apply PI_init | exact V]. Qed.

Lemma run_ok : forall n h, valid n h init -> exists s, run n h init = Ok s.
Proof. intros n h V. destruct (run_ok_pi n h V) as [s [R _]]. exists s. exact R. Qed.

(* whatever the history and the schedules are, the model never crashes and never runs out of fuel *)
Definition safe (r : res st) : Prop :=
  match r with Crash | OutOfFuel => False | _ => True end.

Lemma flush_safe : forall n r sched s, Inv n s -> par s r = r -> r < n -> PI n s [] ->
  (exists s', flush n r sched s = Ok s' /\ Inv n s' /\ PI n s' []) \/ flush n r sched s = BadSched.
Proof.
  intros n r sched s I Hr Hrn H. destruct (is_perm sched (q s r)) eqn:P.
  - left. apply flush_progress; try assumption. apply is_perm_perm. exact P.
  - right. unfold flush. rewrite P. reflexivity.
Qed.

Lemma ticks_safe : forall n r scheds s, Inv n s -> r < n -> PI n s [] ->
  (exists s', ticks n r scheds s = Ok s' /\ Inv n s' /\ PI n s' []) \/ ticks n r scheds s = BadSched.
Proof.
  intros n r. induction scheds as [|sc t IH]; intros s I Hr H.
  - left. exists s. split; [reflexivity | split; assumption].
  - simpl. unfold tick1. destruct (q s r) eqn:Q.
    + destruct sc; [apply IH; assumption | right; reflexivity].
    + destruct (flush_safe n (rt s r) sc s I (i_rtroot _ _ _ _ _ _ _ _ I r)
                  (i_rtlt _ _ _ _ _ _ _ _ I r Hr) H) as [[s1 [F [I1 H1]]] | F]; rewrite F.
      * apply IH; assumption.
      * right; reflexivity.
Qed.

Lemma step_safe : forall n o s, Inv n s -> PI n s [] ->
  (exists s', step n o s = Ok s' /\ Inv n s' /\ PI n s' []) \/ step n o s = PreViolated \/ step n o s = BadSched.
Proof.
  intros n o s I H. destruct o as [c p|c|x i|r scheds|x sched].
  - destruct ((c <? n) && (p <? n) && (par s c =? c) && negb (pend s c) && negb (rt s p =? c) && negb (c =? p)) eqn:C.
    + left. apply step_progress; [exact I | exact H | | exact Logic.I].
      repeat (apply andb_prop in C; destruct C as [C ?]).
      apply Nat.ltb_lt in C. apply Nat.ltb_lt in H4. apply Nat.eqb_eq in H3.
      apply negb_true_iff in H2. apply negb_true_iff in H1. apply Nat.eqb_neq in H1.
      simpl. repeat (split; [assumption|]).
      intro D. apply H1. apply (inv_subtree_reading _ _ _ _ I H3). exact D.
    + right; left. simpl. unfold register. rewrite C. reflexivity.
  - destruct ((c <? n) && negb (par s c =? c)) eqn:C.
    + left. apply step_progress; [exact I | exact H | | exact Logic.I].
      apply andb_prop in C. destruct C as [C1 C2]. apply Nat.ltb_lt in C1.
      apply negb_true_iff in C2. apply Nat.eqb_neq in C2. simpl. split; assumption.
    + right; left. simpl. unfold unregister. rewrite C. reflexivity.
  - destruct (x <? n) eqn:C.
    + left. apply step_progress; [exact I | exact H | | exact Logic.I]. simpl. apply Nat.ltb_lt. exact C.
    + right; left. simpl. rewrite C. reflexivity.
  - simpl. destruct ((r <? n) && (par s r =? r)) eqn:C.
    + apply andb_prop in C. destruct C as [C1 C2]. apply Nat.ltb_lt in C1.
      destruct (ticks_safe n r scheds s I C1 H) as [Ok1 | Bad]; [left; exact Ok1 | right; right; exact Bad].
    + right; left. reflexivity.
  - simpl. destruct (x <? n) eqn:C.
    + apply Nat.ltb_lt in C.
      destruct (flush_safe n (rt s x) sched s I (i_rtroot _ _ _ _ _ _ _ _ I x)
                  (i_rtlt _ _ _ _ _ _ _ _ I x C) H) as [Ok1 | Bad]; [left; exact Ok1 | right; right; exact Bad].
    + right; left. reflexivity.
Qed.

Lemma run_safe_from : forall n h s, Inv n s -> PI n s [] -> safe (run n h s).
Proof.
  intros n. induction h as [|o t IH]; intros s I H; simpl; [exact Logic.I|].
  destruct (step_safe n o s I H) as [[s1 [S [I1 H1]]] | [S | S]]; rewrite S; [|exact Logic.I | exact Logic.I].
  apply IH; assumption.
Qed.

(* for EVERY history and schedule: the outcome is Ok, PreViolated or BadSched *)
Lemma run_safe : forall n h, run n h init <> Crash /\ run n h init <> OutOfFuel.
Proof.
  intros n h. pose proof (run_safe_from n h init (inv_init n) (PI_init n)) as S.
  split; intro E; rewrite E in S; exact S.
Qed.

(* ------------------------------------------------------------------ the theorems for all valid histories *)

Lemma valid_app : forall n h o s0, valid n (h ++ [o]) s0 ->
  valid n h s0 /\ forall s, run n h s0 = Ok s -> op_pre n o s /\ op_sched n o s.
Proof.
  intros n. induction h as [|a t IH]; intros o s0 V.
  - simpl in V. destruct V as [P [S _]]. split; [exact Logic.I|].
    intros s R. simpl in R. inversion R; subst. split; assumption.
  - simpl in V. destruct V as [P [S V]]. split.
    + simpl. split; [exact P | split; [exact S|]]. intros s' St. exact (proj1 (IH o s' (V s' St))).
    + intros s R. simpl in R. destruct (step n a s0) as [s1| | | |] eqn:St; try discriminate.
      exact (proj2 (IH o s1 (V s1 eq_refl)) s R).
Qed.

Lemma valid_forest : forall n h, valid n h init -> exists s, run n h init = Ok s /\ forest s.
Proof. intros n h V. destruct (run_ok n h V) as [s R]. exists s. split; [exact R | eapply run_forest; exact R]. Qed.

Lemma valid_pending_attached : forall n h, valid n h init ->
  exists s, run n h init = Ok s /\ forall c, pend s c = true -> par s c <> c.
Proof.
  intros n h V. destruct (run_ok n h V) as [s R]. exists s. split; [exact R|].
  intros c. eapply run_pending_attached; exact R.
Qed.

Lemma valid_announce : forall n h, valid n h init ->
  exists s, run n h init = Ok s /\
    forall c p, qcount n (q s) (Registered c p) + dcount (disp s) (Registered c p) = count_reg c p h /\
                qcount n (q s) (Unregistered c p) + dcount (disp s) (Unregistered c p) = cntp c p (unregd s).
Proof.
  intros n h V. destruct (run_ok n h V) as [s R]. exists s. split; [exact R|].
  intros c p. split; [eapply run_announce_registered | eapply run_announce_unregistered]; exact R.
Qed.

Lemma valid_deliveries : forall n h, valid n h init ->
  exists s, run n h init = Ok s /\ forall d, In d (disp s) -> d_ok d = true.
Proof.
  intros n h V. destruct (run_ok n h V) as [s R]. exists s. split; [exact R|].
  intro d. eapply run_deliveries; exact R.
Qed.

Lemma valid_register : forall n h c p, valid n (h ++ [OReg c p]) init ->
  exists s s', run n h init = Ok s /\ register n c p s = Ok s' /\
    (rt s' c = rt s p /\ q s' (rt s p) = q s (rt s p) ++ q s c ++ [Registered c p] /\ q s' c = [] /\
     (forall x, x <> c -> x <> rt s p -> q s' x = q s x)) /\
    (par s' c = p /\ kid s' p c = true /\
     (forall x, desc (kid s) c x ->
        rt s' x = rt s p /\ desc (kid s') c x /\
        (x <> c -> par s' x = par s x /\ kid s' (par s x) x = kid s (par s x) x)) /\
     (forall x, ~ desc (kid s) c x -> rt s' x = rt s x /\ par s' x = par s x)).
Proof.
  intros n h c p V. destruct (valid_app _ _ _ _ V) as [Vh Pre].
  destruct (run_ok n h Vh) as [s R]. destruct (Pre s R) as [[Hc [Hp [Hdet [Hnp Hout]]]] _].
  destruct (register_progress n c p s (run_inv0 _ _ _ R) Hc Hp Hdet Hnp Hout) as [s' Rg].
  exists s, s'. split; [exact R|]. split; [exact Rg|]. split.
  - eapply run_register_queue; eassumption.
  - eapply run_move_connected; eassumption.
Qed.

Lemma valid_detach : forall n h, valid n h init ->
  exists s, run n h init = Ok s /\
    forall c, pend s c = true ->
    exists s', complete n c s = Ok s' /\
      par s' c = c /\ pend s' c = false /\ kid s' (par s c) c = false /\
      (forall x, desc (kid s) c x ->
         rt s' x = c /\ desc (kid s') c x /\
         (x <> c -> par s' x = par s x /\ kid s' (par s x) x = kid s (par s x) x)) /\
      (forall x, ~ desc (kid s) c x -> rt s' x = rt s x /\ par s' x = par s x).
Proof.
  intros n h V. destruct (run_ok n h V) as [s R]. exists s. split; [exact R|].
  intros c Hp. destruct (complete_progress n c s (run_inv0 _ _ _ R) Hp) as [s' C].
  exists s'. split; [exact C|]. eapply run_detach_connected; eassumption.
Qed.

Lemma valid_flush : forall n h x sched, valid n (h ++ [OFlush x sched]) init ->
  exists s s', run n h init = Ok s /\ flush n (rt s x) sched s = Ok s' /\
    Permutation sched (q s (rt s x)) /\
    exists ds, disp s' = ds ++ disp s /\ map d_ev (rev ds) = sched /\ (forall d, In d ds -> d_root d = rt s x).
Proof.
  intros n h x sched V. destruct (valid_app _ _ _ _ V) as [Vh Pre].
  destruct (run_ok_pi n h Vh) as [s [R [I H]]]. destruct (Pre s R) as [Hx P]. simpl in Hx, P.
  destruct (flush_progress n (rt s x) sched s I (i_rtroot _ _ _ _ _ _ _ _ I x)
              (i_rtlt _ _ _ _ _ _ _ _ I x Hx) H P) as [s' [F _]].
  exists s, s'. split; [exact R|]. split; [exact F|]. eapply flush_dispatches_batch. exact F.
Qed.
