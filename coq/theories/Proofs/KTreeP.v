(* Proofs about Model/KTree.v (C07). *)
From Coq Require Import List Arith Bool Lia Permutation Wf_nat.
From Circ Require Import Model.KTree.
Import ListNotations.

(* ------------------------------------------------------------------ small facts *)

Lemma upd_same : forall A (f : comp -> A) k v, upd f k v k = v.
Proof. intros. unfold upd. rewrite Nat.eqb_refl. reflexivity. Qed.

Lemma upd_other : forall A (f : comp -> A) k v j, j <> k -> upd f k v j = f j.
Proof. intros. unfold upd. destruct (j =? k) eqn:E; [apply Nat.eqb_eq in E; contradiction | reflexivity]. Qed.

Lemma upd2_same : forall f p c v, upd2 f p c v p c = v.
Proof. intros. unfold upd2. rewrite !Nat.eqb_refl. reflexivity. Qed.

Lemma upd2_other : forall f p c v a b, (a <> p \/ b <> c) -> upd2 f p c v a b = f a b.
Proof.
  intros f p c v a b H. unfold upd2.
  destruct (a =? p) eqn:E1; destruct (b =? c) eqn:E2; simpl; try reflexivity.
  apply Nat.eqb_eq in E1. apply Nat.eqb_eq in E2. destruct H; contradiction.
Qed.

(* ------------------------------------------------------------------ descendants *)

(* x is in the subtree of c: reachable through .components links *)
Inductive desc (kd : comp -> comp -> bool) : comp -> comp -> Prop :=
| desc_refl : forall c, desc kd c c
| desc_step : forall c k x, kd c k = true -> desc kd k x -> desc kd c x.

Lemma desc_right : forall kd c y x, desc kd c y -> kd y x = true -> desc kd c x.
Proof.
  intros kd c y x H. induction H as [c | c k y Hk Hd IH]; intro Hx.
  - eapply desc_step; [exact Hx | apply desc_refl].
  - eapply desc_step; [exact Hk | apply IH; exact Hx].
Qed.

Lemma desc_trans : forall kd a b c, desc kd a b -> desc kd b c -> desc kd a c.
Proof.
  intros kd a b c H. induction H as [a | a k b Hk Hd IH]; intro Hc; [exact Hc|].
  eapply desc_step; [exact Hk | apply IH; exact Hc].
Qed.

(* induction from the right end *)
Lemma desc_rind : forall kd c x, desc kd c x ->
  forall P : comp -> Prop, P c ->
  (forall y z, desc kd c y -> P y -> kd y z = true -> P z) -> P x.
Proof.
  intros kd c x H. induction H as [c | c k x Hk Hd IH]; intros P Pc Pstep; [exact Pc|].
  apply IH.
  - eapply Pstep; [apply desc_refl | exact Pc | exact Hk].
  - intros y z Hy Py Hz. eapply Pstep; [| exact Py | exact Hz].
    eapply desc_step; [exact Hk | exact Hy].
Qed.

Lemma desc_inv_right : forall kd c x, desc kd c x -> x = c \/ exists y, desc kd c y /\ kd y x = true.
Proof.
  intros kd c x H.
  apply (desc_rind kd c x H (fun z => z = c \/ exists y, desc kd c y /\ kd y z = true)).
  - left; reflexivity.
  - intros y z Hy _ Hz. right. exists y. split; assumption.
Qed.

Lemma desc_mono : forall (kd kd' : comp -> comp -> bool) c x,
  (forall a b, kd a b = true -> kd' a b = true) -> desc kd c x -> desc kd' c x.
Proof.
  intros kd kd' c x Hm H. induction H as [c | c k x Hk Hd IH]; [apply desc_refl|].
  eapply desc_step; [apply Hm; exact Hk | exact IH].
Qed.

(* ------------------------------------------------------------------ _updateRoot *)

Definition ur_step (n fu : nat) (kd : comp -> comp -> bool) (r c : comp)
  (acc : option (comp -> comp)) (k : comp) : option (comp -> comp) :=
  match acc with
  | None => None
  | Some g => if kd c k then upd_root n fu kd r k g else Some g
  end.

Lemma upd_root_S : forall n fu kd r c f,
  upd_root n (S fu) kd r c f = fold_left (ur_step n fu kd r c) (seq 0 n) (Some (upd f c r)).
Proof. reflexivity. Qed.

Lemma fold_ur_none : forall n fu kd r c l, fold_left (ur_step n fu kd r c) l None = None.
Proof. induction l as [|k l IH]; simpl; [reflexivity | exact IH]. Qed.

Definition ur_spec (kd : comp -> comp -> bool) (r c : comp) (f g : comp -> comp) : Prop :=
  forall x, (desc kd c x /\ g x = r) \/ (~ desc kd c x /\ g x = f x).

Lemma fold_ur_spec : forall n fu kd r c,
  (forall k f g, upd_root n fu kd r k f = Some g -> ur_spec kd r k f g) ->
  forall l g0 g, fold_left (ur_step n fu kd r c) l (Some g0) = Some g ->
  forall x, ((exists k, In k l /\ kd c k = true /\ desc kd k x) /\ g x = r)
            \/ (~ (exists k, In k l /\ kd c k = true /\ desc kd k x) /\ g x = g0 x).
Proof.
  intros n fu kd r c IHfu. induction l as [|k l IH]; intros g0 g H x.
  - simpl in H. inversion H; subst. right. split; [|reflexivity].
    intros [k [[] _]].
  - simpl in H. destruct (kd c k) eqn:Hk.
    + destruct (upd_root n fu kd r k g0) as [g1|] eqn:H1.
      2:{ rewrite fold_ur_none in H. discriminate. }
      specialize (IHfu k g0 g1 H1 x). specialize (IH g1 g H x).
      destruct IH as [[[k' [Hin [Hk' Hd]]] Hg] | [Hn Hg]].
      * left. split; [|exact Hg]. exists k'. split; [right; exact Hin | split; assumption].
      * destruct IHfu as [[Hd Hg1] | [Hnd Hg1]].
        -- left. split; [|congruence]. exists k. split; [left; reflexivity | split; assumption].
        -- right. split; [|congruence].
           intros [k' [[->|Hin] [Hk' Hd]]]; [apply Hnd; exact Hd|].
           apply Hn. exists k'. split; [exact Hin | split; assumption].
    + specialize (IH g0 g H x).
      destruct IH as [[[k' [Hin [Hk' Hd]]] Hg] | [Hn Hg]].
      * left. split; [|exact Hg]. exists k'. split; [right; exact Hin | split; assumption].
      * right. split; [|exact Hg].
        intros [k' [[->|Hin] [Hk' Hd]]]; [congruence|].
        apply Hn. exists k'. split; [exact Hin | split; assumption].
Qed.

(* a successful _updateRoot(r) from c sets the root of exactly c's subtree *)
Lemma upd_root_spec : forall n kd r, (forall a b, kd a b = true -> b < n) ->
  forall fu c f g, upd_root n fu kd r c f = Some g -> ur_spec kd r c f g.
Proof.
  intros n kd r Hlt. induction fu as [|fu IH]; intros c f g H; [discriminate|].
  rewrite upd_root_S in H. intro x.
  destruct (fold_ur_spec n fu kd r c IH (seq 0 n) (upd f c r) g H x)
    as [[[k [Hin [Hk Hd]]] Hg] | [Hn Hg]].
  - left. split; [|exact Hg]. eapply desc_step; [exact Hk | exact Hd].
  - destruct (Nat.eq_dec x c) as [->|Hxc].
    + left. split; [apply desc_refl|]. rewrite Hg. apply upd_same.
    + right. split.
      * intro Hd. inversion Hd as [|c' k x' Hk Hd']; subst; [contradiction|].
        apply Hn. exists k. split; [|split; assumption].
        apply in_seq. split; [lia|]. simpl. eapply Hlt; exact Hk.
      * rewrite Hg. apply upd_other. exact Hxc.
Qed.

(* ------------------------------------------------------------------ getHandlers reach *)

Lemma reachb_sound : forall n kd fu c x, reachb n fu kd c x = true -> desc kd c x.
Proof.
  intros n kd. induction fu as [|fu IH]; intros c x H; [discriminate|].
  simpl in H. destruct (x =? c) eqn:E.
  - apply Nat.eqb_eq in E. subst. apply desc_refl.
  - apply existsb_exists in H. destruct H as [k [_ Hk]].
    destruct (kd c k) eqn:Hc; [|discriminate].
    eapply desc_step; [exact Hc | apply IH; exact Hk].
Qed.

Lemma members_sound : forall n kd r x, In x (members n kd r) -> desc kd r x.
Proof.
  intros n kd r x H. unfold members in H. apply filter_In in H. destruct H as [_ H].
  eapply reachb_sound; exact H.
Qed.

(* ------------------------------------------------------------------ the invariant *)

Record InvF (n : nat) (pa ro : comp -> comp) (kd : comp -> comp -> bool) (pe di : comp -> bool)
  (ca : comp -> list (key * list comp)) (dl : list drec) : Prop := mkInv {
  i_kidlt : forall p c, kd p c = true -> c < n;
  i_rtlt : forall x, x < n -> ro x < n;
  i_kid : forall p c, kd p c = true <-> (pa c = p /\ c <> p);
  i_rtpar : forall c, ro (pa c) = ro c;
  i_rtroot : forall c, pa (ro c) = ro c;
  i_self : forall c, pa c = c -> ro c = c;
  i_rank : exists rk : comp -> nat, forall c, pa c <> c -> rk (pa c) < rk c;
  i_pend : forall c, pe c = true -> pa c <> c;
  i_cache : forall r, pa r = r -> di r = false ->
            forall k ms x, In (k, ms) (ca r) -> In x ms -> ro x = r;
  i_disp : forall d, In d dl -> d_ok d = true
}.

Definition Inv (n : nat) (s : st) : Prop :=
  InvF n (par s) (rt s) (kid s) (pend s) (dirty s) (cache s) (disp s).

Lemma inv_init : forall n, Inv n init.
Proof.
  intro n. unfold Inv, init; simpl. constructor; simpl.
  - intros p c H; discriminate.
  - intros x H; exact H.
  - intros p c. split; [discriminate | intros [H1 H2]; congruence].
  - reflexivity.
  - reflexivity.
  - reflexivity.
  - exists (fun _ => 0). intros c H; congruence.
  - intros c H; discriminate.
  - intros r _ _ k ms x H; contradiction.
  - intros d H; contradiction.
Qed.

(* everything in the subtree of c has c's root *)
Lemma desc_rt : forall n pa ro kd pe di ca dl, InvF n pa ro kd pe di ca dl ->
  forall c x, desc kd c x -> ro x = ro c.
Proof.
  intros n pa ro kd pe di ca dl I c x H.
  apply (desc_rind kd c x H (fun z => ro z = ro c)); [reflexivity|].
  intros y z _ Hy Hz. apply (i_kid _ _ _ _ _ _ _ _ I) in Hz. destruct Hz as [Hz _].
  rewrite <- Hy, <- Hz. symmetry. apply (i_rtpar _ _ _ _ _ _ _ _ I).
Qed.

(* every component is in the subtree of its root: parent links lead to the root *)
Lemma desc_of_root : forall n pa ro kd pe di ca dl, InvF n pa ro kd pe di ca dl ->
  forall x, desc kd (ro x) x.
Proof.
  intros n pa ro kd pe di ca dl I.
  destruct (i_rank _ _ _ _ _ _ _ _ I) as [rk Hrk].
  intro x. remember (rk x) as m eqn:Hm. revert x Hm.
  induction m as [m IH] using lt_wf_ind. intros x Hm.
  destruct (Nat.eq_dec (pa x) x) as [E|E].
  - rewrite (i_self _ _ _ _ _ _ _ _ I x E). apply desc_refl.
  - assert (Hlt : rk (pa x) < m) by (subst m; apply Hrk; exact E).
    specialize (IH _ Hlt (pa x) eq_refl).
    rewrite (i_rtpar _ _ _ _ _ _ _ _ I) in IH.
    eapply desc_right; [exact IH|].
    apply (i_kid _ _ _ _ _ _ _ _ I). split; [reflexivity | congruence].
Qed.

(* ------------------------------------------------------------------ register preserves the invariant *)

Lemma reg_invF : forall n pa ro kd pe di ca dl c p g,
  InvF n pa ro kd pe di ca dl ->
  c < n -> p < n -> pa c = c -> pe c = false -> ro p <> c -> c <> p ->
  ur_spec (upd2 kd p c true) (ro p) c (upd ro c (ro p)) g ->
  InvF n (upd pa c p) g (upd2 kd p c true) pe (upd di (ro p) true) ca dl.
Proof.
  intros n pa ro kd pe di ca dl c p g I Hc Hp Hdet Hnp Hout Hcp Hg.
  pose proof (desc_of_root _ _ _ _ _ _ _ _ I) as Hdr.
  destruct I as [Hkl Hrl Hk Hrp Hrr Hs [rk Hrk] Hpe Hca Hdl].
  assert (Hrc : ro c = c) by (apply Hs; exact Hdet).
  (* the subtree of c under the new links is the old tree of c *)
  assert (F1 : forall x, desc (upd2 kd p c true) c x -> ro x = c).
  { intros x Hd. apply (desc_rind _ c x Hd (fun z => ro z = c)); [exact Hrc|].
    intros y z _ Hy Hz.
    destruct (Nat.eq_dec y p) as [->|Ny]; [congruence|].
    rewrite upd2_other in Hz by (left; exact Ny).
    apply Hk in Hz. destruct Hz as [Hz _]. rewrite <- Hz, Hrp in Hy. exact Hy. }
  assert (F2 : forall x, ro x = c -> desc (upd2 kd p c true) c x).
  { intros x Hx. pose proof (Hdr x) as Hd0. rewrite Hx in Hd0. eapply desc_mono; [|exact Hd0].
    intros a b Hab. destruct (Nat.eq_dec a p) as [->|Na]; destruct (Nat.eq_dec b c) as [->|Nb].
    - apply upd2_same.
    - rewrite upd2_other by (right; exact Nb). exact Hab.
    - rewrite upd2_other by (left; exact Na). exact Hab.
    - rewrite upd2_other by (left; exact Na). exact Hab. }
  assert (G : forall x, (ro x = c /\ g x = ro p) \/ (ro x <> c /\ g x = ro x)).
  { intro x. destruct (Hg x) as [[Hd Hx] | [Hd Hx]].
    - left. split; [apply F1; exact Hd | exact Hx].
    - right. assert (ro x <> c) by (intro E; apply Hd; apply F2; exact E).
      split; [assumption|]. rewrite Hx. apply upd_other. intro E; subst x. congruence. }
  assert (Gp : g p = ro p) by (destruct (G p) as [[E _]|[_ E]]; [contradiction | exact E]).
  assert (Gc : g c = ro p) by (destruct (G c) as [[_ E]|[E _]]; [exact E | contradiction]).
  constructor.
  - intros a b H. destruct (Nat.eq_dec a p) as [->|Na]; destruct (Nat.eq_dec b c) as [->|Nb];
      try exact Hc; (rewrite upd2_other in H by tauto); eapply Hkl; exact H.
  - intros x Hx. destruct (G x) as [[_ E]|[_ E]]; rewrite E; [apply Hrl; exact Hp | apply Hrl; exact Hx].
  - intros a b. destruct (Nat.eq_dec b c) as [->|Nb].
    + rewrite upd_same. destruct (Nat.eq_dec a p) as [->|Na].
      * rewrite upd2_same. split; [intros _; split; [reflexivity | exact Hcp] | reflexivity].
      * rewrite upd2_other by (left; exact Na). split.
        -- intro H. apply Hk in H. destruct H as [H1 H2]. congruence.
        -- intros [H1 _]. congruence.
    + rewrite upd_other by exact Nb. rewrite upd2_other by (right; exact Nb). apply Hk.
  - intro x. destruct (Nat.eq_dec x c) as [->|Nx].
    + rewrite upd_same. congruence.
    + rewrite upd_other by exact Nx.
      destruct (G x) as [[E1 E2]|[E1 E2]]; destruct (G (pa x)) as [[E3 E4]|[E3 E4]];
        rewrite Hrp in E3; try contradiction; congruence.
  - intro x. assert (Hro : forall y, ro y <> c -> upd pa c p (ro y) = ro y).
    { intros y Hy. rewrite upd_other by exact Hy. apply Hrr. }
    destruct (G x) as [[_ E]|[E1 E]]; rewrite E; apply Hro; assumption.
  - intros x H. destruct (Nat.eq_dec x c) as [->|Nx].
    + rewrite upd_same in H. congruence.
    + rewrite upd_other in H by exact Nx. pose proof (Hs x H) as Hx.
      destruct (G x) as [[E _]|[_ E]]; congruence.
  - exists (fun x => if ro x =? c then rk x + rk p + 1 else rk x).
    intros x H. destruct (Nat.eq_dec x c) as [->|Nx].
    + rewrite upd_same. rewrite Hrc, Nat.eqb_refl.
      destruct (ro p =? c) eqn:E; [apply Nat.eqb_eq in E; contradiction | lia].
    + rewrite upd_other in H |- * by exact Nx. rewrite Hrp.
      specialize (Hrk x H). destruct (ro x =? c); lia.
  - intros x H. destruct (Nat.eq_dec x c) as [->|Nx]; [congruence|].
    rewrite upd_other by exact Nx. apply Hpe; exact H.
  - intros r Hr Hdi k ms x Hin Hx.
    destruct (Nat.eq_dec r (ro p)) as [->|Nr]; [rewrite upd_same in Hdi; discriminate|].
    rewrite upd_other in Hdi by exact Nr.
    destruct (Nat.eq_dec r c) as [->|Nc]; [rewrite upd_same in Hr; congruence|].
    rewrite upd_other in Hr by exact Nc.
    pose proof (Hca r Hr Hdi k ms x Hin Hx) as E.
    destruct (G x) as [[E1 _]|[_ E2]]; congruence.
  - exact Hdl.
Qed.

(* ------------------------------------------------------------------ completing an unregistration preserves it *)

Lemma unreg_invF : forall n pa ro kd pe di ca dl c g,
  InvF n pa ro kd pe di ca dl ->
  pa c <> c ->
  ur_spec (upd2 kd (pa c) c false) c c ro g ->
  InvF n (upd pa c c) g (upd2 kd (pa c) c false) (upd pe c false)
       (upd (upd di (ro (pa c)) true) c true) ca dl.
Proof.
  intros n pa ro kd pe di ca dl c g I Hatt Hg.
  pose proof (desc_rt _ _ _ _ _ _ _ _ I) as Hdrt.
  destruct I as [Hkl Hrl Hk Hrp Hrr Hs [rk Hrk] Hpe Hca Hdl].
  set (p := pa c) in *.
  assert (Hsub : forall a b, upd2 kd p c false a b = true -> kd a b = true).
  { intros a b H. destruct (Nat.eq_dec a p) as [->|Na]; destruct (Nat.eq_dec b c) as [->|Nb].
    - rewrite upd2_same in H. discriminate.
    - rewrite upd2_other in H by tauto. exact H.
    - rewrite upd2_other in H by tauto. exact H.
    - rewrite upd2_other in H by tauto. exact H. }
  assert (Hkc : kd p c = true) by (apply Hk; split; [reflexivity | exact (not_eq_sym Hatt)]).
  assert (Hcn : c < n) by (eapply Hkl; exact Hkc).
  assert (Hdold : forall x, desc (upd2 kd p c false) c x -> ro x = ro c).
  { intros x H. apply Hdrt. eapply desc_mono; [exact Hsub | exact H]. }
  assert (Gc : g c = c).
  { destruct (Hg c) as [[_ E]|[E _]]; [exact E | exfalso; apply E; apply desc_refl]. }
  (* a proper member of the subtree has its parent in the subtree *)
  assert (Hup : forall x, x <> c -> desc (upd2 kd p c false) c x -> desc (upd2 kd p c false) c (pa x) /\ pa x <> x).
  { intros x Nx H. apply desc_inv_right in H. destruct H as [->|[y [Hy Hyx]]]; [contradiction|].
    apply Hsub in Hyx. apply Hk in Hyx. destruct Hyx as [E1 E2]. rewrite E1. split; [exact Hy | congruence]. }
  assert (Hdown : forall x, x <> c -> pa x <> x -> desc (upd2 kd p c false) c (pa x) -> desc (upd2 kd p c false) c x).
  { intros x Nx Hx H. eapply desc_right; [exact H|].
    rewrite upd2_other by (right; exact Nx). apply Hk. split; [reflexivity | congruence]. }
  constructor.
  - intros a b H. eapply Hkl. apply Hsub. exact H.
  - intros x Hx. destruct (Hg x) as [[_ E]|[_ E]]; rewrite E; [exact Hcn | apply Hrl; exact Hx].
  - intros a b. destruct (Nat.eq_dec b c) as [->|Nb].
    + rewrite upd_same. destruct (Nat.eq_dec a p) as [->|Na].
      * rewrite upd2_same. split; [discriminate | intros [H1 H2]; congruence].
      * rewrite upd2_other by (left; exact Na). split.
        -- intro H. apply Hk in H. destruct H as [H1 _]. exfalso. apply Na. symmetry. exact H1.
        -- intros [H1 H2]. congruence.
    + rewrite upd_other by exact Nb. rewrite upd2_other by (right; exact Nb). apply Hk.
  - intro x. destruct (Nat.eq_dec x c) as [->|Nx]; [rewrite upd_same; reflexivity|].
    rewrite upd_other by exact Nx.
    destruct (Hg x) as [[D E]|[D E]].
    + destruct (Hup x Nx D) as [D' _].
      destruct (Hg (pa x)) as [[_ E']|[D'' _]]; [congruence | contradiction].
    + destruct (Nat.eq_dec (pa x) x) as [Ep|Np]; [rewrite Ep; reflexivity|].
      destruct (Hg (pa x)) as [[D' _]|[_ E']].
      * exfalso. apply D. apply Hdown; assumption.
      * rewrite E', E. apply Hrp.
  - intro x. destruct (Hg x) as [[_ E]|[_ E]]; rewrite E.
    + apply upd_same.
    + assert (ro x <> c) by (intro H; apply Hatt; unfold p; rewrite <- H; apply Hrr).
      rewrite upd_other by assumption. apply Hrr.
  - intros x H. destruct (Nat.eq_dec x c) as [->|Nx]; [exact Gc|].
    rewrite upd_other in H by exact Nx.
    destruct (Hg x) as [[D _]|[_ E]].
    + destruct (Hup x Nx D) as [_ D']. contradiction.
    + rewrite E. apply Hs. exact H.
  - exists rk. intros x H. destruct (Nat.eq_dec x c) as [->|Nx]; [rewrite upd_same in H; congruence|].
    rewrite upd_other in H |- * by exact Nx. apply Hrk. exact H.
  - intros x H. destruct (Nat.eq_dec x c) as [->|Nx]; [rewrite upd_same in H; discriminate|].
    rewrite upd_other in H |- * by exact Nx. apply Hpe. exact H.
  - intros r Hr Hdi k ms x Hin Hx.
    destruct (Nat.eq_dec r c) as [->|Nc]; [rewrite upd_same in Hdi; discriminate|].
    rewrite upd_other in Hdi by exact Nc.
    destruct (Nat.eq_dec r (ro p)) as [->|Nr]; [rewrite upd_same in Hdi; discriminate|].
    rewrite upd_other in Hdi by exact Nr.
    rewrite upd_other in Hr by exact Nc.
    pose proof (Hca r Hr Hdi k ms x Hin Hx) as E.
    destruct (Hg x) as [[D _]|[_ E2]]; [|congruence].
    exfalso. apply Nr. rewrite <- E, (Hdold x D). symmetry. apply Hrp.
  - exact Hdl.
Qed.

(* ------------------------------------------------------------------ what the operations do, as equations *)

Ltac proj_in H :=
  cbn [par rt kid pend q dirty cache regd unregd disp fx
       set_par set_rt set_kid set_pend set_q set_dirty set_cache set_regd set_unregd set_disp set_fx enq] in H.
Ltac proj :=
  cbn [par rt kid pend q dirty cache regd unregd disp fx
       set_par set_rt set_kid set_pend set_q set_dirty set_cache set_regd set_unregd set_disp set_fx enq].

(* the re-fired prepare_unregister events only extend the queue of the new root *)
Definition same_but_q (s s' : st) : Prop :=
  par s' = par s /\ rt s' = rt s /\ kid s' = kid s /\ pend s' = pend s /\ dirty s' = dirty s /\
  cache s' = cache s /\ regd s' = regd s /\ unregd s' = unregd s /\ disp s' = disp s /\ fx s' = fx s.

Lemma refire_frame : forall l c s, same_but_q s (refire l c s).
Proof.
  induction l as [|d t IH]; intros c s; simpl.
  - repeat split.
  - exact (IH c (enq c (PrepUnreg d) s)).
Qed.

Lemma same_but_q_inv : forall n s s', Inv n s -> same_but_q s s' -> Inv n s'.
Proof.
  intros n s s' I [A1 [A2 [A3 [A4 [A5 [A6 [A7 [A8 [A9 A10]]]]]]]]].
  unfold Inv in *. rewrite A1, A2, A3, A4, A5, A6, A9. exact I.
Qed.

Lemma complete_ok : forall n c s s', complete n c s = Ok s' ->
  (pend s c = false /\ s' = s) \/
  (pend s c = true /\
   (par s c <> c ->
    exists f, upd_root n (S n) (upd2 (kid s) (par s c) c false) c c (rt s) = Some f /\
      s' = refire (refire_list n c s) c
             (mkst (upd (par s) c c) f (upd2 (kid s) (par s c) c false) (upd (pend s) c false)
                   (upd (q s) (rt s c) (q s (rt s c) ++ [Unregistered c (par s c)]))
                   (upd (upd (dirty s) (rt s (par s c)) true) c true) (cache s) (regd s)
                   ((c, par s c) :: unregd s) (disp s) (fx s)))).
Proof.
  intros n c s s' H. unfold complete in H.
  destruct (pend s c) eqn:Hp; cbn [negb] in H; [|left; inversion H; split; reflexivity].
  right. split; [reflexivity|]. intro Hatt. proj_in H.
  destruct (par s c =? c) eqn:E; [apply Nat.eqb_eq in E; contradiction|].
  destruct (kid s (par s c) c) eqn:Hk; cbn [negb] in H; [|discriminate].
  proj_in H.
  destruct (upd_root n (S n) (upd2 (kid s) (par s c) c false) c c (rt s)) as [f|] eqn:Hu; [|discriminate].
  exists f. split; [reflexivity|]. inversion H. reflexivity.
Qed.

Lemma register_ok : forall n c p s s', register n c p s = Ok s' ->
  c < n /\ p < n /\ par s c = c /\ pend s c = false /\ rt s p <> c /\ c <> p /\
  exists f, upd_root n (S n) (upd2 (kid s) p c true) (rt s p) c (upd (rt s) c (rt s p)) = Some f /\
    s' = mkst (upd (par s) c p) f (upd2 (kid s) p c true) (pend s)
              (upd (upd (upd (q s) (rt s p) (q s (rt s p) ++ q s c)) c []) (f c)
                   (upd (upd (q s) (rt s p) (q s (rt s p) ++ q s c)) c [] (f c) ++ [Registered c p]))
              (upd (dirty s) (rt s p) true) (cache s) ((c, p) :: regd s) (unregd s) (disp s) (fx s).
Proof.
  intros n c p s s' H. unfold register in H.
  destruct (c <? n) eqn:H1; [|discriminate]. destruct (p <? n) eqn:H2; [|discriminate].
  destruct (par s c =? c) eqn:H3; [|discriminate]. destruct (pend s c) eqn:H4; [discriminate|].
  destruct (rt s p =? c) eqn:H5; [discriminate|]. destruct (c =? p) eqn:H6; [discriminate|].
  cbn [andb negb] in H. proj_in H.
  apply Nat.ltb_lt in H1. apply Nat.ltb_lt in H2. apply Nat.eqb_eq in H3.
  apply Nat.eqb_neq in H5. apply Nat.eqb_neq in H6.
  repeat (split; [assumption|]). split; [reflexivity|]. split; [assumption|]. split; [assumption|].
  destruct (upd_root n (S n) (upd2 (kid s) p c true) (rt s p) c (upd (rt s) c (rt s p))) as [f|] eqn:Hu;
    [|discriminate].
  exists f. split; [reflexivity|]. inversion H. reflexivity.
Qed.

(* ------------------------------------------------------------------ every operation preserves the invariant *)

Lemma invF_cache : forall n pa ro kd pe di ca dl di' ca',
  InvF n pa ro kd pe di ca dl ->
  (forall r, pa r = r -> di' r = false -> forall k ms x, In (k, ms) (ca' r) -> In x ms -> ro x = r) ->
  InvF n pa ro kd pe di' ca' dl.
Proof. intros n pa ro kd pe di ca dl di' ca' [] H. constructor; assumption. Qed.

Lemma invF_disp : forall n pa ro kd pe di ca dl d,
  InvF n pa ro kd pe di ca dl -> d_ok d = true -> InvF n pa ro kd pe di ca (d :: dl).
Proof.
  intros n pa ro kd pe di ca dl d [] H. constructor; try assumption.
  intros d' [<-|Hin]; [exact H | auto].
Qed.

Lemma find_key_in : forall k l ms, find_key k l = Some ms -> exists k', In (k', ms) l.
Proof.
  induction l as [|[k' m] l IH]; intros ms H; [discriminate|]. simpl in H.
  destruct (key_eqb k k').
  - inversion H; subst. exists k'. left; reflexivity.
  - destruct (IH ms H) as [k'' Hin]. exists k''. right; exact Hin.
Qed.

Definition same_tree (s s' : st) : Prop :=
  par s' = par s /\ rt s' = rt s /\ kid s' = kid s /\ pend s' = pend s /\ q s' = q s /\
  regd s' = regd s /\ unregd s' = unregd s /\ disp s' = disp s.

Lemma lookup_inv : forall n r e s s1 ms, Inv n s -> par s r = r -> lookup n r e s = (s1, ms) ->
  Inv n s1 /\ (forall x, In x ms -> rt s1 x = r) /\ same_tree s s1.
Proof.
  intros n r e s s1 ms I Hr H. unfold lookup in H.
  set (s0 := if dirty s r then set_dirty (set_cache s (upd (cache s) r [])) (upd (dirty s) r false) else s) in *.
  assert (H0 : Inv n s0 /\ dirty s0 r = false /\ same_tree s s0).
  { unfold s0. destruct (dirty s r) eqn:Hd.
    - split; [|split; [proj; apply upd_same | repeat split]].
      unfold Inv; proj. eapply invF_cache; [exact I|].
      intros r' Hr' Hd' k ms' x Hin Hx. destruct (Nat.eq_dec r' r) as [->|N].
      + rewrite upd_same in Hin. contradiction.
      + rewrite upd_other in Hin, Hd' by exact N. eapply (i_cache _ _ _ _ _ _ _ _ I); eassumption.
    - split; [exact I | split; [exact Hd | repeat split]]. }
  destruct H0 as [I0 [Hd0 T0]]. clearbody s0.
  assert (Hr0 : par s0 r = r) by (destruct T0 as [-> _]; exact Hr).
  destruct (find_key (key_of e) (cache s0 r)) as [m|] eqn:Hf.
  - inversion H; subst. split; [exact I0|]. split; [|exact T0].
    intros x Hx. destruct (find_key_in _ _ _ Hf) as [k' Hin].
    eapply (i_cache _ _ _ _ _ _ _ _ I0); eassumption.
  - inversion H; subst. clear H.
    assert (Hms : forall x, In x (members n (kid s0) r) -> rt s0 x = r).
    { intros x Hx. apply members_sound in Hx.
      rewrite (desc_rt _ _ _ _ _ _ _ _ I0 r x Hx). apply (i_self _ _ _ _ _ _ _ _ I0). exact Hr0. }
    split; [|split; [exact Hms|]].
    + unfold Inv; proj. eapply invF_cache; [exact I0|].
      intros r' Hr' Hd' k ms' x Hin Hx. destruct (Nat.eq_dec r' r) as [->|N].
      * rewrite upd_same in Hin. destruct Hin as [E|Hin].
        -- inversion E; subst. apply Hms. exact Hx.
        -- eapply (i_cache _ _ _ _ _ _ _ _ I0); eassumption.
      * rewrite upd_other in Hin by exact N. eapply (i_cache _ _ _ _ _ _ _ _ I0); eassumption.
    + destruct T0 as [A [B [C [D [E [F [G K]]]]]]]. repeat split; assumption.
Qed.

Lemma complete_inv : forall n c s s', Inv n s -> complete n c s = Ok s' ->
  Inv n s' /\ (forall r, par s r = r -> par s' r = r).
Proof.
  intros n c s s' I H. destruct (complete_ok _ _ _ _ H) as [[_ ->]|[Hp Hrest]]; [split; [exact I | auto]|].
  assert (Hatt : par s c <> c) by (apply (i_pend _ _ _ _ _ _ _ _ I); exact Hp).
  destruct (Hrest Hatt) as [f [Hu ->]].
  match goal with |- Inv n (refire ?l c ?s4) /\ _ => pose proof (refire_frame l c s4) as Fr end.
  split.
  - eapply same_but_q_inv; [|exact Fr].
    unfold Inv; proj. apply unreg_invF; [exact I | exact Hatt|].
    eapply upd_root_spec; [|exact Hu].
    intros a b Hab. destruct (Nat.eq_dec a (par s c)) as [->|Na]; destruct (Nat.eq_dec b c) as [->|Nb].
    + rewrite upd2_same in Hab. discriminate.
    + rewrite upd2_other in Hab by tauto. eapply (i_kidlt _ _ _ _ _ _ _ _ I); exact Hab.
    + rewrite upd2_other in Hab by tauto. eapply (i_kidlt _ _ _ _ _ _ _ _ I); exact Hab.
    + rewrite upd2_other in Hab by tauto. eapply (i_kidlt _ _ _ _ _ _ _ _ I); exact Hab.
  - intros r Hr. destruct Fr as [A1 _]. rewrite A1. proj. destruct (Nat.eq_dec r c) as [->|N]; [apply upd_same|].
    rewrite upd_other by exact N. exact Hr.
Qed.

Lemma register_inv : forall n c p s s', Inv n s -> register n c p s = Ok s' -> Inv n s'.
Proof.
  intros n c p s s' I H.
  destruct (register_ok _ _ _ _ _ H) as [Hc [Hp [Hdet [Hnp [Hout [Hcp [f [Hu ->]]]]]]]].
  unfold Inv; proj. apply reg_invF; try assumption.
  eapply upd_root_spec; [|exact Hu].
  intros a b Hab. destruct (Nat.eq_dec a p) as [->|Na]; destruct (Nat.eq_dec b c) as [->|Nb]; try exact Hc;
    (rewrite upd2_other in Hab by tauto); eapply (i_kidlt _ _ _ _ _ _ _ _ I); exact Hab.
Qed.

Lemma unregister_inv : forall n c s s', Inv n s -> unregister n c s = Ok s' -> Inv n s'.
Proof.
  intros n c s s' I H. unfold unregister in H.
  destruct (c <? n); [|discriminate]. destruct (par s c =? c) eqn:E; [discriminate|].
  apply Nat.eqb_neq in E. cbn [andb negb] in H.
  destruct (pend s c) eqn:Hp; inversion H; subst; [exact I|].
  unfold Inv; proj. destruct I as [Hkl Hrl Hk Hrp Hrr Hs Hrk Hpe Hca Hdl].
  constructor; try assumption.
  - intros x Hx. destruct (Nat.eq_dec x c) as [->|N]; [exact E|].
    rewrite upd_other in Hx by exact N. apply Hpe; exact Hx.
  - intros r Hr Hd k ms x Hin Hx. destruct (Nat.eq_dec r (rt s c)) as [->|N].
    + rewrite upd_same in Hd. discriminate.
    + rewrite upd_other in Hd by exact N. eapply Hca; eassumption.
Qed.



(* ------------------------------------------------------------------ the forest property, as the statement reads it *)

(* k-th ancestor along .parent *)
Fixpoint anc (pa : comp -> comp) (k : nat) (c : comp) : comp :=
  match k with O => c | S k' => anc pa k' (pa c) end.

(* t is the top of the tree c is in *)
Definition top_of (s : st) (c t : comp) : Prop := par s t = t /\ exists k, anc (par s) k c = t.

Definition forest (s : st) : Prop :=
  (forall p c, kid s p c = true <-> (par s c = p /\ c <> p)) /\        (* parent and child links agree *)
  (forall c k, anc (par s) (S k) c = c -> par s c = c) /\              (* no cycles *)
  (forall c, top_of s c (rt s c)) /\                                   (* root = top of its tree *)
  (forall c t, top_of s c t -> t = rt s c).

Lemma inv_forest : forall n s, Inv n s -> forest s.
Proof.
  intros n s I. pose proof I as I'.
  destruct I' as [Hkl Hrl Hk Hrp Hrr Hs [rk Hrk] Hpe Hca Hdl].
  assert (Hle : forall k c, rk (anc (par s) k c) <= rk c).
  { induction k as [|k IH]; intro c; simpl; [lia|].
    destruct (Nat.eq_dec (par s c) c) as [E|E]; [rewrite E; apply IH|].
    specialize (IH (par s c)). specialize (Hrk c E). lia. }
  assert (Hrt : forall k c, rt s (anc (par s) k c) = rt s c).
  { induction k as [|k IH]; intro c; simpl; [reflexivity|]. rewrite IH. apply Hrp. }
  split; [exact Hk|]. split; [|split].
  - intros c k H. destruct (Nat.eq_dec (par s c) c) as [E|E]; [exact E|].
    exfalso. simpl in H. pose proof (Hle k (par s c)) as H1. rewrite H in H1.
    specialize (Hrk c E). lia.
  - intro c. split; [apply Hrr|].
    remember (rk c) as m eqn:Hm. revert c Hm. induction m as [m IH] using lt_wf_ind. intros c Hm.
    destruct (Nat.eq_dec (par s c) c) as [E|E].
    + exists 0. simpl. symmetry. apply Hs. exact E.
    + assert (Hlt : rk (par s c) < m) by (subst m; apply Hrk; exact E).
      destruct (IH _ Hlt (par s c) eq_refl) as [k Hk']. exists (S k). simpl. rewrite Hk'. apply Hrp.
  - intros c t [Ht [k Hk']]. rewrite <- (Hrt k c), Hk'. symmetry. apply Hs. exact Ht.
Qed.

(* the executable reading of "p outside c's subtree" used by the model's precondition *)
Lemma inv_subtree_reading : forall n s c p, Inv n s -> par s c = c ->
  (rt s p = c <-> desc (kid s) c p).
Proof.
  intros n s c p I Hc. split.
  - intro H. rewrite <- H. eapply desc_of_root. exact I.
  - intro H. rewrite (desc_rt _ _ _ _ _ _ _ _ I c p H). apply (i_self _ _ _ _ _ _ _ _ I). exact Hc.
Qed.

Lemma inv_pending_attached : forall n s c, Inv n s -> pend s c = true -> par s c <> c.
Proof. intros n s c I. apply (i_pend _ _ _ _ _ _ _ _ I). Qed.

(* ------------------------------------------------------------------ subtrees stay connected *)

Lemma desc_cut : forall kd p c x, desc kd c x -> desc (upd2 kd p c false) c x.
Proof.
  intros kd p c x H.
  apply (desc_rind kd c x H (fun z => desc (upd2 kd p c false) c z)); [apply desc_refl|].
  intros y z _ Py Hz.
  destruct (Nat.eq_dec z c) as [->|Nz]; [apply desc_refl|].
  eapply desc_right; [exact Py|]. rewrite upd2_other by (right; exact Nz). exact Hz.
Qed.

(* a component that completes its unregistration takes its whole subtree with it *)
Lemma detach_connected : forall n c s s', Inv n s -> pend s c = true -> complete n c s = Ok s' ->
  par s' c = c /\ pend s' c = false /\ kid s' (par s c) c = false /\
  (forall x, desc (kid s) c x ->
     rt s' x = c /\ desc (kid s') c x /\ (x <> c -> par s' x = par s x /\ kid s' (par s x) x = kid s (par s x) x)) /\
  (forall x, ~ desc (kid s) c x -> rt s' x = rt s x /\ par s' x = par s x).
Proof.
  intros n c s s' I Hp H. destruct (complete_ok _ _ _ _ H) as [[Hp' _]|[_ Hrest]]; [congruence|].
  assert (Hatt : par s c <> c) by (apply (i_pend _ _ _ _ _ _ _ _ I); exact Hp).
  destruct (Hrest Hatt) as [f [Hu ->]].
  match goal with |- par (refire ?l c ?s4) c = c /\ _ => destruct (refire_frame l c s4) as [A1 [A2 [A3 [A4 _]]]] end.
  rewrite A1, A2, A3, A4. proj.
  assert (Hg : ur_spec (upd2 (kid s) (par s c) c false) c c (rt s) f).
  { eapply upd_root_spec; [|exact Hu]. intros a b Hab.
    destruct (Nat.eq_dec a (par s c)) as [->|Na]; destruct (Nat.eq_dec b c) as [->|Nb];
      try (rewrite upd2_same in Hab; discriminate);
      (rewrite upd2_other in Hab by tauto); eapply (i_kidlt _ _ _ _ _ _ _ _ I); exact Hab. }
  split; [apply upd_same|]. split; [apply upd_same|]. split; [apply upd2_same|]. split.
  - intros x Hd. pose proof (desc_cut _ (par s c) _ _ Hd) as Hd'.
    split; [|split; [exact Hd'|]].
    + destruct (Hg x) as [[_ E]|[E _]]; [exact E | contradiction].
    + intro Nx. split; [apply upd_other; exact Nx | apply upd2_other; right; exact Nx].
  - intros x Hn. assert (Nx : x <> c) by (intro E; subst; apply Hn; apply desc_refl).
    split; [|apply upd_other; exact Nx].
    destruct (Hg x) as [[D _]|[_ E]]; [|exact E].
    exfalso. apply Hn. eapply desc_mono; [|exact D].
    intros a b Hab. destruct (Nat.eq_dec a (par s c)) as [->|Na]; destruct (Nat.eq_dec b c) as [->|Nb];
      try (rewrite upd2_same in Hab; discriminate); (rewrite upd2_other in Hab by tauto); exact Hab.
Qed.

(* a registered component moves with its whole subtree under the root of its new parent *)
Lemma move_connected : forall n c p s s', Inv n s -> register n c p s = Ok s' ->
  par s' c = p /\ kid s' p c = true /\
  (forall x, desc (kid s) c x ->
     rt s' x = rt s p /\ desc (kid s') c x /\ (x <> c -> par s' x = par s x /\ kid s' (par s x) x = kid s (par s x) x)) /\
  (forall x, ~ desc (kid s) c x -> rt s' x = rt s x /\ par s' x = par s x).
Proof.
  intros n c p s s' I H.
  destruct (register_ok _ _ _ _ _ H) as [Hc [Hp [Hdet [Hnp [Hout [Hcp [f [Hu ->]]]]]]]]. proj.
  assert (Hg : ur_spec (upd2 (kid s) p c true) (rt s p) c (upd (rt s) c (rt s p)) f).
  { eapply upd_root_spec; [|exact Hu]. intros a b Hab.
    destruct (Nat.eq_dec a p) as [->|Na]; destruct (Nat.eq_dec b c) as [->|Nb]; try exact Hc;
      (rewrite upd2_other in Hab by tauto); eapply (i_kidlt _ _ _ _ _ _ _ _ I); exact Hab. }
  assert (Hm : forall a b, kid s a b = true -> upd2 (kid s) p c true a b = true).
  { intros a b Hab. destruct (Nat.eq_dec a p) as [->|Na]; destruct (Nat.eq_dec b c) as [->|Nb];
      try apply upd2_same; (rewrite upd2_other by tauto); exact Hab. }
  split; [apply upd_same|]. split; [apply upd2_same|]. split.
  - intros x Hd. pose proof (desc_mono _ _ _ _ Hm Hd) as Hd'. split; [|split; [exact Hd'|]].
    + destruct (Hg x) as [[_ E]|[E _]]; [exact E | contradiction].
    + intro Nx. split; [apply upd_other; exact Nx | apply upd2_other; right; exact Nx].
  - intros x Hn. assert (Nx : x <> c) by (intro E; subst; apply Hn; apply desc_refl).
    split; [|apply upd_other; exact Nx].
    destruct (Hg x) as [[D E]|[_ E]].
    + exfalso. apply Hn.
      (* under the new links the subtree of c is still the old tree of c *)
      assert (F : rt s x = c).
      { apply (desc_rind _ c x D (fun z => rt s z = c)).
        - apply (i_self _ _ _ _ _ _ _ _ I). exact Hdet.
        - intros y z _ Hy Hz. destruct (Nat.eq_dec y p) as [->|Ny]; [congruence|].
          rewrite upd2_other in Hz by (left; exact Ny).
          apply (i_kid _ _ _ _ _ _ _ _ I) in Hz. destruct Hz as [Hz _].
          rewrite <- Hz in Hy. rewrite (i_rtpar _ _ _ _ _ _ _ _ I) in Hy. exact Hy. }
      rewrite <- F. eapply desc_of_root. exact I.
    + rewrite E. apply upd_other. exact Nx.
Qed.

(* ------------------------------------------------------------------ queued events move to the new root *)

Lemma register_queue : forall n c p s s', Inv n s -> register n c p s = Ok s' ->
  rt s' c = rt s p /\
  q s' (rt s p) = q s (rt s p) ++ q s c ++ [Registered c p] /\
  q s' c = [] /\
  (forall x, x <> c -> x <> rt s p -> q s' x = q s x).
Proof.
  intros n c p s s' I H.
  destruct (move_connected _ _ _ _ _ I H) as [_ [_ [Hin _]]].
  destruct (Hin c (desc_refl _ c)) as [Hrc _].
  destruct (register_ok _ _ _ _ _ H) as [Hc [Hp [Hdet [Hnp [Hout [Hcp [f [Hu E]]]]]]]].
  rewrite E in Hrc |- *. proj. proj_in Hrc. rewrite Hrc.
  split; [reflexivity|]. split; [|split].
  - rewrite upd_same. rewrite (upd_other _ _ c) by exact Hout. rewrite upd_same.
    rewrite <- app_assoc. reflexivity.
  - rewrite (upd_other _ _ (rt s p)) by (intro E'; apply Hout; symmetry; exact E'). apply upd_same.
  - intros x N1 N2. rewrite !upd_other by assumption. reflexivity.
Qed.

(* ------------------------------------------------------------------ a flush dispatches exactly its batch *)

Lemma ev_eqb_eq : forall a b, ev_eqb a b = true <-> a = b.
Proof.
  intros a b. split.
  - destruct a, b; simpl; intro H; try discriminate; try reflexivity;
      try (apply andb_prop in H; destruct H as [H1 H2]; apply Nat.eqb_eq in H1; apply Nat.eqb_eq in H2; subst; reflexivity);
      apply Nat.eqb_eq in H; subst; reflexivity.
  - intros ->. destruct b; simpl; rewrite ?Nat.eqb_refl; reflexivity.
Qed.

Lemma remove1_perm : forall e l l', remove1 e l = Some l' -> Permutation l (e :: l').
Proof.
  intros e. induction l as [|x t IH]; intros l' H; [discriminate|]. simpl in H.
  destruct (ev_eqb e x) eqn:E.
  - apply ev_eqb_eq in E. inversion H; subst. apply Permutation_refl.
  - destruct (remove1 e t) as [t'|] eqn:R; [|discriminate]. inversion H; subst.
    eapply perm_trans; [apply perm_skip; apply IH; reflexivity | apply perm_swap].
Qed.

Lemma is_perm_perm : forall sched batch, is_perm sched batch = true -> Permutation sched batch.
Proof.
  induction sched as [|e t IH]; intros batch H; simpl in H.
  - destruct batch; [apply perm_nil | discriminate].
  - destruct (remove1 e batch) as [b|] eqn:R; [|discriminate].
    eapply perm_trans; [apply perm_skip; apply IH; exact H|].
    apply Permutation_sym. apply remove1_perm. exact R.
Qed.

Lemma complete_disp : forall n c s s', complete n c s = Ok s' -> disp s' = disp s.
Proof.
  intros n c s s' H. unfold complete in H.
  destruct (pend s c); cbn [negb] in H; [|inversion H; reflexivity]. proj_in H.
  destruct (par s c =? c).
  - destruct (upd_root _ _ _ _ _ _); [|discriminate]. inversion H.
    match goal with |- disp (refire ?l c ?s4) = _ => destruct (refire_frame l c s4) as [A1 [A2 [A3 [A4 [A5 [A6 [A7 [A8 [A9 A10]]]]]]]]] end.
    rewrite A9. reflexivity.
  - destruct (kid s (par s c) c); cbn [negb] in H; [|discriminate]. proj_in H.
    destruct (upd_root _ _ _ _ _ _); [|discriminate]. inversion H.
    match goal with |- disp (refire ?l c ?s4) = _ => destruct (refire_frame l c s4) as [A1 [A2 [A3 [A4 [A5 [A6 [A7 [A8 [A9 A10]]]]]]]]] end.
    rewrite A9. reflexivity.
Qed.


(* ------------------------------------------------------------------ announcements: nothing lost, nothing doubled *)

Definition cnt (e : ev) (l : list ev) : nat := length (filter (ev_eqb e) l).
Definition qsum (e : ev) (qf : comp -> list ev) (l : list comp) : nat :=
  list_sum (map (fun x => cnt e (qf x)) l).
(* occurrences of e in the queues of the pool *)
Definition qcount (n : nat) (qf : comp -> list ev) (e : ev) : nat := qsum e qf (seq 0 n).
(* dispatches of e so far *)
Definition dcount (dl : list drec) (e : ev) : nat := length (filter (fun d => ev_eqb e (d_ev d)) dl).
Definition cntp (c p : comp) (l : list (comp * comp)) : nat :=
  length (filter (fun cp => (c =? fst cp) && (p =? snd cp)) l).
Fixpoint count_reg (c p : comp) (h : list op) : nat :=
  match h with
  | [] => 0
  | OReg a b :: t => (if (c =? a) && (p =? b) then 1 else 0) + count_reg c p t
  | _ :: t => count_reg c p t
  end.

Definition isann (e : ev) : bool :=
  match e with Registered _ _ | Unregistered _ _ => true | _ => false end.
Definition gh (s : st) (e : ev) : nat :=
  match e with
  | Registered c p => cntp c p (regd s)
  | Unregistered c p => cntp c p (unregd s)
  | _ => 0
  end.
Definition tot (n : nat) (s : st) (e : ev) : nat := qcount n (q s) e + dcount (disp s) e.

Lemma cnt_app : forall e a b, cnt e (a ++ b) = cnt e a + cnt e b.
Proof. intros. unfold cnt. rewrite filter_app, app_length. reflexivity. Qed.

Lemma cnt_perm : forall e a b, Permutation a b -> cnt e a = cnt e b.
Proof.
  intros e a b H. unfold cnt. induction H; simpl.
  - reflexivity.
  - destruct (ev_eqb e x); simpl; congruence.
  - destruct (ev_eqb e x); destruct (ev_eqb e y); reflexivity.
  - congruence.
Qed.

Lemma qsum_notin : forall e qf x v l, ~ In x l -> qsum e (upd qf x v) l = qsum e qf l.
Proof.
  intros e qf x v. induction l as [|y l IH]; intro H; [reflexivity|].
  unfold qsum in *. simpl. rewrite IH by (intro; apply H; right; assumption).
  rewrite upd_other by (intro E; apply H; left; exact E). reflexivity.
Qed.

Lemma qsum_in : forall e qf x v l, NoDup l -> In x l ->
  qsum e (upd qf x v) l + cnt e (qf x) = qsum e qf l + cnt e v.
Proof.
  intros e qf x v. induction l as [|y l IH]; intros ND H; [contradiction|].
  inversion ND as [|y' l' Hy ND']; subst.
  unfold qsum in *. simpl. destruct H as [->|H].
  - rewrite upd_same. pose proof (qsum_notin e qf x v l Hy) as E. unfold qsum in E. rewrite E. lia.
  - rewrite upd_other by (intro E; subst; contradiction). specialize (IH ND' H). lia.
Qed.

Lemma qcount_upd : forall n e qf x v, x < n ->
  qcount n (upd qf x v) e + cnt e (qf x) = qcount n qf e + cnt e v.
Proof.
  intros. unfold qcount. apply qsum_in; [apply seq_NoDup | apply in_seq; lia].
Qed.

Lemma qcount_upd_out : forall n e qf x v, ~ x < n -> qcount n (upd qf x v) e = qcount n qf e.
Proof. intros. unfold qcount. apply qsum_notin. intro H1. apply in_seq in H1. lia. Qed.

(* appending an event that is not e does not change the count of e *)
Lemma qcount_enq_other : forall n e qf x e0, ev_eqb e e0 = false ->
  qcount n (upd qf x (qf x ++ [e0])) e = qcount n qf e.
Proof.
  intros n e qf x e0 H. destruct (lt_dec x n) as [L|L].
  - pose proof (qcount_upd n e qf x (qf x ++ [e0]) L) as E. rewrite cnt_app in E.
    unfold cnt at 3 in E. simpl in E. rewrite H in E. simpl in E. lia.
  - apply qcount_upd_out. exact L.
Qed.

Lemma qcount_enq_same : forall n e qf x, x < n ->
  qcount n (upd qf x (qf x ++ [e])) e = qcount n qf e + 1.
Proof.
  intros n e qf x L. pose proof (qcount_upd n e qf x (qf x ++ [e]) L) as E. rewrite cnt_app in E.
  unfold cnt at 3 in E. simpl in E. rewrite (proj2 (ev_eqb_eq e e) eq_refl) in E. simpl in E. lia.
Qed.

Lemma complete_regd : forall n c s s', complete n c s = Ok s' -> regd s' = regd s.
Proof.
  intros n c s s' H. unfold complete in H.
  destruct (pend s c); cbn [negb] in H; [|inversion H; reflexivity]. proj_in H.
  destruct (par s c =? c).
  - destruct (upd_root _ _ _ _ _ _); [|discriminate]. inversion H.
    match goal with |- regd (refire ?l c ?s4) = _ => destruct (refire_frame l c s4) as [A1 [A2 [A3 [A4 [A5 [A6 [A7 [A8 [A9 A10]]]]]]]]] end.
    rewrite A7. reflexivity.
  - destruct (kid s (par s c) c); cbn [negb] in H; [|discriminate]. proj_in H.
    destruct (upd_root _ _ _ _ _ _); [|discriminate]. inversion H.
    match goal with |- regd (refire ?l c ?s4) = _ => destruct (refire_frame l c s4) as [A1 [A2 [A3 [A4 [A5 [A6 [A7 [A8 [A9 A10]]]]]]]]] end.
    rewrite A7. reflexivity.
Qed.

(* one dispatch, decomposed *)

(* ================================================================== C07_run_ok: no Crash, no OutOfFuel *)

(* ------------------------------------------------------------------ the fuel of _updateRoot suffices *)

(* a descending path c -> k1 -> k2 ... through .components links *)
Inductive chain (kd : comp -> comp -> bool) : comp -> list comp -> Prop :=
| chain_nil : forall c, chain kd c []
| chain_cons : forall c k l, kd c k = true -> chain kd k l -> chain kd c (k :: l).

Lemma fold_ur_fail : forall n fu kd r c l g0,
  fold_left (ur_step n fu kd r c) l (Some g0) = None ->
  exists k g, kd c k = true /\ upd_root n fu kd r k g = None.
Proof.
  intros n fu kd r c. induction l as [|a l IH]; intros g0 H; simpl in H; [discriminate|].
  destruct (kd c a) eqn:Hk.
  - destruct (upd_root n fu kd r a g0) as [g1|] eqn:H1.
    + exact (IH g1 H).
    + exists a, g0. split; assumption.
  - exact (IH g0 H).
Qed.

(* running out of fuel fu means there is a descending path with fu edges *)
Lemma upd_root_fail_chain : forall n kd r fu c f, upd_root n fu kd r c f = None ->
  exists l, length l = fu /\ chain kd c l.
Proof.
  intros n kd r. induction fu as [|fu IH]; intros c f H.
  - exists []. split; [reflexivity | constructor].
  - rewrite upd_root_S in H. destruct (fold_ur_fail _ _ _ _ _ _ _ H) as [k [g [Hk Hu]]].
    destruct (IH k g Hu) as [l [Hl Hc]]. exists (k :: l). split; [simpl; congruence | constructor; assumption].
Qed.

Lemma chain_nodup : forall kd (rk : comp -> nat), (forall a b, kd a b = true -> rk a < rk b) ->
  forall l c, chain kd c l -> (forall x, In x l -> rk c < rk x) /\ NoDup (c :: l).
Proof.
  intros kd rk Hrk. induction l as [|a l IH]; intros c H.
  - split; [intros x [] | constructor; [intros [] | constructor]].
  - inversion H as [|c' k l' Hk Hc]; subst. destruct (IH a Hc) as [Hlt Hnd].
    assert (Hall : forall x, In x (a :: l) -> rk c < rk x).
    { intros x [<-|Hx]; [apply Hrk; exact Hk|]. specialize (Hlt x Hx). specialize (Hrk c a Hk). lia. }
    split; [exact Hall|]. constructor; [|exact Hnd]. intro Hin. specialize (Hall c Hin). lia.
Qed.

Lemma chain_lt : forall n kd, (forall a b, kd a b = true -> b < n) ->
  forall l c, chain kd c l -> forall x, In x l -> x < n.
Proof.
  intros n kd Hlt. induction l as [|a l IH]; intros c H x Hx; [contradiction|].
  inversion H as [|c' k l' Hk Hc]; subst. destruct Hx as [<-|Hx]; [eapply Hlt; exact Hk | eapply IH; eassumption].
Qed.

(* links that increase a rank cannot form a path longer than the pool: fuel n+1 is enough *)
Lemma upd_root_total : forall n kd r c f,
  (forall a b, kd a b = true -> b < n) ->
  (exists rk : comp -> nat, forall a b, kd a b = true -> rk a < rk b) ->
  c < n -> exists g, upd_root n (S n) kd r c f = Some g.
Proof.
  intros n kd r c f Hlt [rk Hrk] Hc.
  destruct (upd_root n (S n) kd r c f) as [g|] eqn:E; [exists g; reflexivity|]. exfalso.
  destruct (upd_root_fail_chain _ _ _ _ _ _ E) as [l [Hl Hch]].
  destruct (chain_nodup kd rk Hrk l c Hch) as [_ Hnd].
  assert (Hincl : incl (c :: l) (seq 0 n)).
  { intros x Hx. apply in_seq. split; [lia|]. simpl.
    destruct Hx as [<-|Hx]; [exact Hc | eapply chain_lt; eassumption]. }
  pose proof (NoDup_incl_length Hnd Hincl) as Hlen. rewrite seq_length in Hlen. simpl in Hlen. lia.
Qed.

Lemma inv_rank_down : forall n pa ro kd pe di ca dl, InvF n pa ro kd pe di ca dl ->
  exists rk : comp -> nat, forall a b, kd a b = true -> rk a < rk b.
Proof.
  intros n pa ro kd pe di ca dl I. destruct (i_rank _ _ _ _ _ _ _ _ I) as [rk Hrk]. exists rk.
  intros a b H. apply (i_kid _ _ _ _ _ _ _ _ I) in H. destruct H as [H1 H2].
  rewrite <- H1. apply Hrk. congruence.
Qed.

(* ------------------------------------------------------------------ progress of the primitives *)

Lemma complete_progress : forall n c s, Inv n s -> pend s c = true -> exists s', complete n c s = Ok s'.
Proof.
  intros n c s I Hp. unfold complete. rewrite Hp. cbn [negb]. proj.
  assert (Hatt : par s c <> c) by (apply (i_pend _ _ _ _ _ _ _ _ I); exact Hp).
  destruct (par s c =? c) eqn:E; [apply Nat.eqb_eq in E; contradiction|].
  assert (Hk : kid s (par s c) c = true).
  { apply (i_kid _ _ _ _ _ _ _ _ I). split; [reflexivity | congruence]. }
  rewrite Hk. cbn [negb]. proj.
  assert (Hsub : forall a b, upd2 (kid s) (par s c) c false a b = true -> kid s a b = true).
  { intros a b H. destruct (Nat.eq_dec a (par s c)) as [->|Na]; destruct (Nat.eq_dec b c) as [->|Nb];
      try (rewrite upd2_same in H; discriminate); (rewrite upd2_other in H by tauto); exact H. }
  destruct (upd_root_total n (upd2 (kid s) (par s c) c false) c c (rt s)) as [g Hg].
  - intros a b H. eapply (i_kidlt _ _ _ _ _ _ _ _ I). apply Hsub. exact H.
  - destruct (inv_rank_down _ _ _ _ _ _ _ _ I) as [rk Hrk]. exists rk. intros a b H. apply Hrk. apply Hsub. exact H.
  - eapply (i_kidlt _ _ _ _ _ _ _ _ I). exact Hk.
  - rewrite Hg. eexists. reflexivity.
Qed.

Lemma register_progress : forall n c p s, Inv n s ->
  c < n -> p < n -> par s c = c -> pend s c = false -> ~ desc (kid s) c p ->
  exists s', register n c p s = Ok s'.
Proof.
  intros n c p s I Hc Hp Hdet Hnp Hout. unfold register.
  assert (Hrp : rt s p <> c).
  { intro E. apply Hout. apply (inv_subtree_reading _ _ _ _ I Hdet). exact E. }
  assert (Hcp : c <> p) by (intro E; subst; apply Hout; apply desc_refl).
  apply Nat.ltb_lt in Hc as Hc'. apply Nat.ltb_lt in Hp as Hp'. rewrite Hc', Hp'.
  rewrite (proj2 (Nat.eqb_eq _ _) Hdet), Hnp.
  rewrite (proj2 (Nat.eqb_neq _ _) Hrp), (proj2 (Nat.eqb_neq _ _) Hcp). cbn [andb negb]. proj.
  destruct (upd_root_total n (upd2 (kid s) p c true) (rt s p) c (upd (rt s) c (rt s p))) as [g Hg].
  - intros a b H. destruct (Nat.eq_dec a p) as [->|Na]; destruct (Nat.eq_dec b c) as [->|Nb]; try exact Hc;
      (rewrite upd2_other in H by tauto); eapply (i_kidlt _ _ _ _ _ _ _ _ I); exact H.
  - destruct (i_rank _ _ _ _ _ _ _ _ I) as [rk Hrk].
    exists (fun x => if rt s x =? c then rk x + rk p + 1 else rk x).
    intros a b H. destruct (Nat.eq_dec a p) as [->|Na].
    + destruct (Nat.eq_dec b c) as [->|Nb].
      * rewrite (proj2 (Nat.eqb_neq _ _) Hrp).
        rewrite (i_self _ _ _ _ _ _ _ _ I c Hdet), Nat.eqb_refl. lia.
      * rewrite upd2_other in H by tauto. apply (i_kid _ _ _ _ _ _ _ _ I) in H. destruct H as [H1 H2].
        assert (R : rt s b = rt s p) by (rewrite <- H1; symmetry; apply (i_rtpar _ _ _ _ _ _ _ _ I)).
        rewrite R. assert (L : rk p < rk b) by (rewrite <- H1; apply Hrk; congruence).
        destruct (rt s p =? c); lia.
    + rewrite upd2_other in H by tauto. apply (i_kid _ _ _ _ _ _ _ _ I) in H. destruct H as [H1 H2].
      assert (R : rt s b = rt s a) by (rewrite <- H1; symmetry; apply (i_rtpar _ _ _ _ _ _ _ _ I)).
      rewrite R. assert (L : rk a < rk b) by (rewrite <- H1; apply Hrk; congruence).
      destruct (rt s a =? c); lia.
  - exact Hc.
  - rewrite Hg. eexists. reflexivity.
Qed.

(* ------------------------------------------------------------------ a completion event only exists for a pending component *)

(* prepare_unregister(c) and prepare_unregister_complete(c) events in the queues of the pool and in the
   rest of the batch being dispatched *)
Definition occ (n : nat) (qf : comp -> list ev) (rem : list ev) (c : comp) : nat :=
  qcount n qf (PrepUnreg c) + qcount n qf (PrepDone c) + cnt (PrepUnreg c) rem + cnt (PrepDone c) rem.

Lemma cnt_cons : forall e e0 t, cnt e (e0 :: t) = (if ev_eqb e e0 then 1 else 0) + cnt e t.
Proof. intros. unfold cnt. simpl. destruct (ev_eqb e e0); reflexivity. Qed.

Lemma cnt_nil : forall e, cnt e [] = 0.
Proof. reflexivity. Qed.

Lemma qcount_enq_le : forall n e qf x e0,
  qcount n (upd qf x (qf x ++ [e0])) e <= qcount n qf e + (if ev_eqb e e0 then 1 else 0).
Proof.
  intros n e qf x e0. destruct (ev_eqb e e0) eqn:E.
  - apply ev_eqb_eq in E. subst e0. destruct (lt_dec x n) as [L|L].
    + rewrite qcount_enq_same by exact L. lia.
    + rewrite qcount_upd_out by exact L. lia.
  - rewrite qcount_enq_other by exact E. lia.
Qed.


Lemma remove1_in : forall e l, In e l -> exists l', remove1 e l = Some l'.
Proof.
  intros e. induction l as [|x t IH]; intro H; [contradiction|]. simpl.
  destruct (ev_eqb e x) eqn:E; [eexists; reflexivity|].
  destruct H as [->|H]; [rewrite (proj2 (ev_eqb_eq e e) eq_refl) in E; discriminate|].
  destruct (IH H) as [t' ->]. eexists; reflexivity.
Qed.

Lemma perm_is_perm : forall sched batch, Permutation sched batch -> is_perm sched batch = true.
Proof.
  induction sched as [|e t IH]; intros batch H; simpl.
  - apply Permutation_nil in H. subst. reflexivity.
  - assert (Hin : In e batch) by (eapply Permutation_in; [exact H | left; reflexivity]).
    destruct (remove1_in _ _ Hin) as [b R]. rewrite R. apply IH.
    apply remove1_perm in R. eapply Permutation_cons_inv. eapply perm_trans; [exact H | exact R].
Qed.


Lemma qcount_empty : forall n e, qcount n (fun _ => []) e = 0.
Proof.
  intros n e. unfold qcount, qsum. induction (seq 0 n) as [|a l IH]; simpl; [reflexivity | exact IH].
Qed.


(* ================================================================== the invariants, with a batch in flight *)

(* announcement events queued in the pool, dispatched so far and still to be dispatched in the current batch
   are as many as the completed registrations / unregistrations *)
Definition BI (n : nat) (s : st) (rem : list ev) : Prop :=
  forall e, isann e = true -> tot n s e + cnt e rem = gh s e.

Definition GI (n : nat) (s : st) (rem : list ev) : Prop := Inv n s /\ BI n s rem.

(* outcome discipline: Ok with the postcondition, or one of the two verdicts on the hypotheses; never a
   crash, never out of fuel *)
Definition post {A : Type} (P : A -> Prop) (r : res A) : Prop :=
  match r with Ok a => P a | PreViolated | BadSched => True | OutOfFuel | Crash => False end.

Lemma isann_prep : forall e c, isann e = true -> ev_eqb e (PrepUnreg c) = false /\ ev_eqb e (PrepDone c) = false.
Proof. intros e c A. destruct e; simpl in A; try discriminate; split; reflexivity. Qed.

(* the completion tracking does not enter the invariants *)
Lemma gi_set_fx : forall n s rem x, GI n s rem -> GI n (set_fx s x) rem.
Proof. intros n s rem x G. exact G. Qed.

Lemma emit_fx_wl : forall c R e x, wl (emit_fx c R e x) = wl x.
Proof. intros c R e x. destruct e; reflexivity. Qed.

Lemma with_fx_ok : forall r x s', with_fx r x = Ok s' -> exists s0, r = Ok s0 /\ s' = set_fx s0 x.
Proof. intros r x s' H. destruct r; try discriminate. inversion H. eexists. split; reflexivity. Qed.

(* ------------------------------------------------------------------ register *)

Lemma register_qcount : forall n c p s s', Inv n s -> register n c p s = Ok s' ->
  forall e, qcount n (q s') e = qcount n (q s) e + (if ev_eqb e (Registered c p) then 1 else 0).
Proof.
  intros n c p s s' I R e.
  pose proof (register_queue _ _ _ _ _ I R) as [Hrc _].
  destruct (register_ok _ _ _ _ _ R) as [Hc [Hp [_ [_ [Hrp [_ [f [_ E]]]]]]]].
  assert (HR : rt s p < n) by (apply (i_rtlt _ _ _ _ _ _ _ _ I); exact Hp).
  rewrite E in Hrc |- *. proj_in Hrc. proj. rewrite Hrc.
  assert (X : qcount n (upd (upd (q s) (rt s p) (q s (rt s p) ++ q s c)) c []) e = qcount n (q s) e).
  { pose proof (qcount_upd n e (q s) (rt s p) (q s (rt s p) ++ q s c) HR) as X1. rewrite cnt_app in X1.
    pose proof (qcount_upd n e (upd (q s) (rt s p) (q s (rt s p) ++ q s c)) c [] Hc) as X2.
    rewrite upd_other in X2 by (intro Y; apply Hrp; symmetry; exact Y). rewrite cnt_nil in X2. lia. }
  destruct (ev_eqb e (Registered c p)) eqn:Ee.
  - apply ev_eqb_eq in Ee. subst e. rewrite qcount_enq_same by exact HR. lia.
  - rewrite qcount_enq_other by exact Ee. lia.
Qed.

Lemma register_fields : forall n c p s s', register n c p s = Ok s' ->
  pend s' = pend s /\ disp s' = disp s /\ unregd s' = unregd s /\ regd s' = (c, p) :: regd s /\ fx s' = fx s.
Proof.
  intros n c p s s' R. destruct (register_ok _ _ _ _ _ R) as [_ [_ [_ [_ [_ [_ [f [_ ->]]]]]]]].
  repeat split; reflexivity.
Qed.

Lemma register_gi : forall n c p s s' rem, GI n s rem -> register n c p s = Ok s' -> GI n s' rem.
Proof.
  intros n c p s s' rem [I B] R.
  pose proof (register_qcount _ _ _ _ _ I R) as Q.
  destruct (register_fields _ _ _ _ _ R) as [Fp [Fd [Fu [Fr Fx]]]].
  split; [eapply register_inv; eassumption|].
  intros e A. specialize (B e A). unfold tot, gh in *. rewrite Q, Fd.
  destruct e as [|a b|a b| | |]; simpl in A; try discriminate.
  - rewrite Fr. simpl in B |- *. unfold cntp in *. simpl.
    destruct ((a =? c) && (b =? p)); simpl; lia.
  - rewrite Fu. simpl in B |- *. lia.
Qed.

Lemma register_safe : forall n c p s, Inv n s -> post (fun _ => True) (register n c p s).
Proof.
  intros n c p s I.
  destruct ((c <? n) && (p <? n) && (par s c =? c) && negb (pend s c) && negb (rt s p =? c) && negb (c =? p)) eqn:C.
  - repeat (apply andb_prop in C; destruct C as [C ?]).
    apply Nat.ltb_lt in C. apply Nat.ltb_lt in H3. apply Nat.eqb_eq in H2.
    apply negb_true_iff in H1. apply negb_true_iff in H0. apply Nat.eqb_neq in H0.
    destruct (register_progress n c p s I C H3 H2 H1) as [s' R].
    + intro D. apply H0. apply (inv_subtree_reading _ _ _ _ I H2). exact D.
    + rewrite R. exact Logic.I.
  - unfold register. rewrite C. exact Logic.I.
Qed.

(* registering c elsewhere leaves a root r <> c and its whole tree alone *)
Lemma register_other_tree : forall n c p s s' r, Inv n s -> register n c p s = Ok s' -> c <> r -> par s r = r ->
  par s' r = r /\ forall y, rt s y = r -> rt s' y = r.
Proof.
  intros n c p s s' r I R Ncr Hr.
  destruct (register_ok _ _ _ _ _ R) as [_ [_ [Hdet _]]].
  destruct (move_connected _ _ _ _ _ I R) as [_ [_ [_ Hout]]].
  assert (Hnot : forall y, rt s y = r -> ~ desc (kid s) c y).
  { intros y Hy D. apply Ncr. rewrite <- Hy, (desc_rt _ _ _ _ _ _ _ _ I c y D).
    symmetry. apply (i_self _ _ _ _ _ _ _ _ I). exact Hdet. }
  split.
  - destruct (Hout r (Hnot r (i_self _ _ _ _ _ _ _ _ I r Hr))) as [_ E]. rewrite E. exact Hr.
  - intros y Hy. destruct (Hout y (Hnot y Hy)) as [E _]. rewrite E. exact Hy.
Qed.

(* ------------------------------------------------------------------ unregister, fire *)

Lemma unregister_gi : forall n c s s' rem, GI n s rem -> unregister n c s = Ok s' ->
  GI n s' rem /\ par s' = par s /\ rt s' = rt s /\ disp s' = disp s /\ fx s' = fx s.
Proof.
  intros n c s s' rem [I B] U. pose proof (unregister_inv _ _ _ _ I U) as I'.
  unfold unregister in U. destruct (c <? n); [|discriminate].
  destruct (par s c =? c); [discriminate|]. cbn [andb negb] in U.
  destruct (pend s c) eqn:Hp; inversion U; subst; clear U.
  - split; [split; assumption | repeat split].
  - split; [|repeat split]. split; [exact I'|].
    intros e A. specialize (B e A). unfold tot, gh in *. proj.
    rewrite qcount_enq_other by (apply (isann_prep e c A)). exact B.
Qed.

Lemma fire_gi : forall n x i s s' rem, GI n s rem -> fire n x i s = Ok s' ->
  GI n s' rem /\ par s' = par s /\ rt s' = rt s /\ disp s' = disp s /\ fx s' = fx s.
Proof.
  intros n x i s s' rem [I B] F. unfold fire in F. destruct (x <? n); [|discriminate].
  inversion F; subst; clear F. split; [|repeat split]. split; [exact I|].
  intros e A. specialize (B e A). unfold tot, gh in *. proj.
  rewrite qcount_enq_other by (destruct e; simpl in A; try discriminate; reflexivity). exact B.
Qed.

(* ------------------------------------------------------------------ what handlers do *)

(* what is preserved for the root r whose flush is in progress *)
Definition keeps (r : comp) (s s' : st) : Prop :=
  par s' r = r /\ (forall y, rt s y = r -> rt s' y = r) /\ disp s' = disp s.

Lemma act_post : forall c0 n r a s rem, GI n s rem -> par s r = r ->
  post (fun s' => GI n s' rem /\ keeps r s s') (run_act c0 n r a s).
Proof.
  intros c0 n r a s rem G Hr. destruct a as [c p|c|x i]; simpl.
  - destruct (c =? r) eqn:E; [exact Logic.I|]. apply Nat.eqb_neq in E.
    pose proof (register_safe n c p s (proj1 G)) as S. unfold registerX.
    destruct (register n c p s) as [s'| | | |] eqn:R; try exact S.
    simpl. destruct (register_fields _ _ _ _ _ R) as [_ [Fd [_ [_ Fx]]]]. split.
    + apply gi_set_fx. eapply register_gi; eassumption.
    + destruct (register_other_tree _ _ _ _ _ r (proj1 G) R E Hr) as [K1 K2].
      split; [exact K1 | split; [exact K2 | exact Fd]].
  - unfold unregisterX. destruct (unregister n c s) as [s'| | | |] eqn:U; simpl; try exact Logic.I.
    + destruct (unregister_gi _ _ _ _ _ G U) as [G' [E1 [E2 [E3 E4]]]]. split.
      * apply gi_set_fx. exact G'.
      * split; [proj; rewrite E1; exact Hr | split; [intros y Hy; proj; rewrite E2; exact Hy | exact E3]].
    + unfold unregister in U. destruct ((c <? n) && negb (par s c =? c)); [destruct (pend s c)|]; discriminate.
    + unfold unregister in U. destruct ((c <? n) && negb (par s c =? c)); [destruct (pend s c)|]; discriminate.
  - unfold fireX. destruct (fire n x i s) as [s'| | | |] eqn:F; simpl; try exact Logic.I.
    + destruct (fire_gi _ _ _ _ _ _ G F) as [G' [E1 [E2 [E3 E4]]]]. split.
      * apply gi_set_fx. exact G'.
      * split; [proj; rewrite E1; exact Hr | split; [intros y Hy; proj; rewrite E2; exact Hy | exact E3]].
    + unfold fire in F. destruct (x <? n); discriminate.
    + unfold fire in F. destruct (x <? n); discriminate.
Qed.

Lemma keeps_refl : forall r s, par s r = r -> keeps r s s.
Proof. intros r s H. split; [exact H | split; [intros y Hy; exact Hy | reflexivity]]. Qed.

Lemma keeps_trans : forall r s1 s2 s3, keeps r s1 s2 -> keeps r s2 s3 -> keeps r s1 s3.
Proof.
  intros r s1 s2 s3 [A1 [A2 A3]] [B1 [B2 B3]]. split; [exact B1|]. split.
  - intros y Hy. apply B2. apply A2. exact Hy.
  - rewrite B3. exact A3.
Qed.

Lemma acts_post : forall c0 n r l s rem, GI n s rem -> par s r = r ->
  post (fun s' => GI n s' rem /\ keeps r s s') (run_acts c0 n r l s).
Proof.
  intros c0 n r. induction l as [|a t IH]; intros s rem G Hr; simpl.
  - split; [exact G | apply keeps_refl; exact Hr].
  - pose proof (act_post c0 n r a s rem G Hr) as P.
    destruct (run_act c0 n r a s) as [s1| | | |]; try exact P. simpl in P. destruct P as [G1 K1].
    pose proof (IH s1 rem G1 (proj1 K1)) as P2.
    destruct (run_acts c0 n r t s1) as [s2| | | |]; try exact P2. simpl in P2 |- *. destruct P2 as [G2 K2].
    split; [exact G2 | eapply keeps_trans; eassumption].
Qed.

Lemma handlers_post : forall c0 n r hs ms ok s rem, GI n s rem -> par s r = r ->
  (forall x, In x ms -> rt s x = r) ->
  post (fun so => GI n (fst so) rem /\ keeps r s (fst so) /\ snd so = ok) (run_handlers c0 n r ms hs ok s).
Proof.
  intros c0 n r hs. induction ms as [|x t IH]; intros ok s rem G Hr Hms; simpl.
  - split; [exact G | split; [apply keeps_refl; exact Hr | reflexivity]].
  - pose proof (acts_post c0 n r (acts_of x hs) s rem G Hr) as P.
    destruct (run_acts c0 n r (acts_of x hs) s) as [s1| | | |]; try exact P. simpl in P. destruct P as [G1 K1].
    assert (Hok : (ok && (rt s x =? r)) = ok).
    { rewrite (Hms x (or_introl eq_refl)), Nat.eqb_refl. apply andb_true_r. }
    rewrite Hok.
    assert (Hms1 : forall y, In y t -> rt s1 y = r).
    { intros y Hy. apply (proj1 (proj2 K1)). apply Hms. right. exact Hy. }
    pose proof (IH ok s1 rem G1 (proj1 K1) Hms1) as P2.
    destruct (run_handlers c0 n r t hs ok s1) as [so| | | |]; try exact P2. simpl in P2 |- *.
    destruct P2 as [G2 [K2 E]]. split; [exact G2 | split; [eapply keeps_trans; eassumption | exact E]].
Qed.

(* ------------------------------------------------------------------ the end of a dispatch: closures *)

Definition same_frame (s s' : st) : Prop := par s' = par s /\ rt s' = rt s /\ disp s' = disp s.

(* firing a completion event changes nothing the invariants look at *)
Lemma fire_done_gi : forall n R c s x rem, Inv n s -> BI n s rem ->
  Inv n (emitX None R (PrepDone c) (set_fx s x)) /\ BI n (emitX None R (PrepDone c) (set_fx s x)) rem /\
  same_frame s (emitX None R (PrepDone c) (set_fx s x)).
Proof.
  intros n R c s x rem I B. unfold emitX. split; [exact I|]. split; [|repeat split].
  intros e A. specialize (B e A). unfold tot, gh in *. proj.
  rewrite qcount_enq_other by (apply (isann_prep e c A)). exact B.
Qed.

Lemma finish_anc_gi : forall n r tg s rem, Inv n s -> BI n s rem ->
  GI n (finish_anc r tg s) rem /\ same_frame s (finish_anc r tg s).
Proof.
  intros n r. induction tg as [|A t IH]; intros s rem I B; cbn [finish_anc]; cbv zeta.
  - split; [split; assumption | repeat split].
  - destruct (wl_find A (wl (fx s))) as [c|] eqn:F; [|apply IH; assumption].
    destruct (out (dec (fx s) A) A =? 0).
    + destruct (fire_done_gi n (rt s r) c s (set_wl (dec (fx s) A) (wl_remove A (wl (dec (fx s) A)))) rem I B)
        as [I1 [B1 [F1 [F2 F3]]]].
      destruct (IH _ rem I1 B1) as [G2 [K1 [K2 K3]]].
      split; [exact G2|]. split; [rewrite K1; exact F1 | split; [rewrite K2; exact F2 | rewrite K3; exact F3]].
    + apply (IH (set_fx s (dec (fx s) A)) rem); assumption.
Qed.

Lemma finish_gi : forall n r e0 tg s rem, Inv n s -> BI n s rem ->
  GI n (finish r e0 tg s) rem /\ same_frame s (finish r e0 tg s).
Proof.
  intros n r e0 tg s rem I B.
  destruct e0 as [i|a b|a b|a|a|]; try (apply finish_anc_gi; assumption).
  unfold finish. cbv zeta. destruct tg as [|Bid t].
  - destruct (fire_done_gi n (rt s r) a s (fx s) rem I B) as [I1 [B1 Fr]].
    split; [split; [exact I1 | exact B1] | exact Fr].
  - destruct (out (dec (fx s) Bid) Bid =? 0).
    + destruct (fire_done_gi n (rt s r) a s (dec (fx s) Bid) rem I B) as [I1 [B1 [F1 [F2 F3]]]].
      destruct (finish_anc_gi n r t _ rem I1 B1) as [G2 [K1 [K2 K3]]].
      split; [exact G2|]. split; [rewrite K1; exact F1 | split; [rewrite K2; exact F2 | rewrite K3; exact F3]].
    + apply (finish_anc_gi n r t (set_fx s (set_wl (dec (fx s) Bid) ((Bid, a) :: wl (dec (fx s) Bid)))) rem);
        assumption.
Qed.

(* ------------------------------------------------------------------ one dispatch *)

Lemma gi_same : forall n s s1 rem, BI n s rem ->
  q s1 = q s -> disp s1 = disp s -> regd s1 = regd s -> unregd s1 = unregd s -> BI n s1 rem.
Proof.
  intros n s s1 rem B Q D R U e A. specialize (B e A). unfold tot, gh in *. rewrite Q, D, R, U. exact B.
Qed.

Lemma lookup_fx : forall n r e s, fx (fst (lookup n r e s)) = fx s.
Proof.
  intros n r e s. unfold lookup. destruct (dirty s r); destruct (find_key _ _); reflexivity.
Qed.

Definition disp1 (r : comp) (e : ev) (s s' : st) : Prop :=
  exists d, disp s' = d :: disp s /\ d_root d = r /\ d_ev d = e.

Lemma refire_qcount : forall n l c s e, (forall d, ev_eqb e (PrepUnreg d) = false) ->
  qcount n (q (refire l c s)) e = qcount n (q s) e.
Proof.
  intros n. induction l as [|d t IH]; intros c s e H; [reflexivity|].
  cbn [refire fold_left]. fold (refire t c (enq c (PrepUnreg d) s)). rewrite IH by exact H. proj.
  apply qcount_enq_other. apply H.
Qed.

Lemma dispatch_post : forall n r e0 hs tg t s, GI n s (e0 :: t) -> par s r = r ->
  post (fun s' => GI n s' t /\ par s' r = r /\ disp1 r e0 s s') (dispatch n r ((e0, hs), tg) s).
Proof.
  intros n r e0 hs tg t s [I B] Hr. unfold dispatch.
  destruct (lookup n r e0 s) as [s1 ms] eqn:Hl.
  destruct (lookup_inv _ _ _ _ _ _ I Hr Hl) as [I1 [Hms T]].
  destruct T as [T1 [T2 [T3 [T4 [T5 [T6 [T7 T8]]]]]]].
  pose proof (gi_same n s s1 (e0 :: t) B T5 T8 T6 T7) as B1.
  assert (Hr1 : par s1 r = r) by (rewrite T1; exact Hr).
  destruct (hs_ok e0 ms hs); [|exact Logic.I]. cbv zeta.
  set (c0 := match tg return ctx with [] => None | _ => Some (r, tg) end).
  pose proof (handlers_post c0 n r hs ms true s1 (e0 :: t) (conj I1 B1) Hr1 Hms) as P.
  destruct (run_handlers c0 n r ms hs true s1) as [[s1' ok]| | | |]; try exact P.
  simpl in P. destruct P as [[I1' B1'] [[K1 [K2 K3]] Eok]]. subst ok.
  set (d := mkd r e0 ms true).
  set (s2 := set_disp s1' (d :: disp s1')).
  assert (I2 : Inv n s2).
  { unfold s2, Inv; proj. apply invF_disp; [exact I1' | reflexivity]. }
  assert (Hr2 : par s2 r = r) by exact K1.
  assert (D2 : disp1 r e0 s s2).
  { exists d. unfold s2; proj. rewrite K3, T8. repeat split. }
  (* the event leaves the batch and enters the dispatch log *)
  assert (B2 : BI n s2 t).
  { intros e A. specialize (B1' e A). unfold tot, gh, s2 in *. proj. rewrite cnt_cons in B1'.
    unfold dcount in *. unfold d. simpl. destruct (ev_eqb e e0); simpl; lia. }
  clearbody s2.
  (* the last step: closures *)
  assert (Fin : forall s3, Inv n s3 -> BI n s3 t -> par s3 r = r -> disp1 r e0 s s3 ->
                GI n (finish r e0 tg s3) t /\ par (finish r e0 tg s3) r = r /\ disp1 r e0 s (finish r e0 tg s3)).
  { intros s3 I3 B3 Hr3 [d3 [E1 E2]].
    destruct (finish_gi n r e0 tg s3 t I3 B3) as [G4 [F1 [F2 F3]]].
    split; [exact G4|]. split; [rewrite F1; exact Hr3|]. exists d3. rewrite F3. split; assumption. }
  assert (Plain : post (fun s' => GI n s' t /\ par s' r = r /\ disp1 r e0 s s') (Ok (finish r e0 tg s2))).
  { simpl. apply Fin; [exact I2 | exact B2 | exact Hr2 | exact D2]. }
  destruct e0 as [i|a b|a b|a|a|]; try exact Plain.
  destruct (existsb (Nat.eqb a) ms); [|exact Plain].
  (* prepare_unregister_complete(a), a still listed *)
  unfold completeX. destruct (pend s2 a) eqn:Hp.
  2:{ (* stale: ignored *)
      assert (E : complete n a s2 = Ok s2) by (unfold complete; rewrite Hp; reflexivity).
      rewrite E. cbn [with_fx]. cbv beta iota delta [post]. apply Fin; assumption. }
  destruct (complete_progress n a s2 I2 Hp) as [s0 Hs0]. rewrite Hs0.
  cbn [with_fx]. cbv beta iota delta [post].
  destruct (complete_inv _ _ _ _ I2 Hs0) as [I0 Hroots].
  pose proof (complete_disp _ _ _ _ Hs0) as Dd.
  destruct (complete_ok _ _ _ _ Hs0) as [[Hp' _]|[_ Hrest]]; [congruence|].
  destruct (Hrest (i_pend _ _ _ _ _ _ _ _ I2 a Hp)) as [f [_ E]].
  assert (Hcn : rt s2 a < n).
  { apply (i_rtlt _ _ _ _ _ _ _ _ I2). apply (i_kidlt _ _ _ _ _ _ _ _ I2 (par s2 a)).
    apply (i_kid _ _ _ _ _ _ _ _ I2). split; [reflexivity|]. intro X.
    apply (i_pend _ _ _ _ _ _ _ _ I2 a Hp). symmetry. exact X. }
  apply Fin.
  - exact I0.
  - intros e A. specialize (B2 e A). subst s0.
    match goal with |- context [refire ?l a ?s4] => destruct (refire_frame l a s4) as [_ [_ [_ [_ [_ [_ [A7 [A8 [A9 _]]]]]]]]] end.
    unfold tot in *. proj. rewrite A9. rewrite refire_qcount by (intro d0; apply (isann_prep e d0 A)). proj.
    destruct e as [|x y|x y| | |]; simpl in A; try discriminate; unfold gh in *; proj.
    + rewrite A7. proj. rewrite qcount_enq_other by reflexivity. exact B2.
    + rewrite A8. proj. destruct (ev_eqb (Unregistered x y) (Unregistered a (par s2 a))) eqn:Ee.
      * apply ev_eqb_eq in Ee. inversion Ee; subst x y. rewrite qcount_enq_same by exact Hcn.
        unfold cntp in *. simpl. rewrite !Nat.eqb_refl. simpl. lia.
      * rewrite qcount_enq_other by exact Ee. unfold cntp in *. simpl. simpl in Ee. rewrite Ee. exact B2.
  - proj. apply Hroots. exact Hr2.
  - destruct D2 as [d' [E1 E2]]. exists d'. proj. rewrite Dd. split; assumption.
Qed.

(* ------------------------------------------------------------------ flushes, ticks, histories *)

Definition evs_of (l : list (item * list nat)) : list ev := map (fun x => fst (fst x)) l.

Lemma attach_evs : forall sched bev btg, evs_of (attach sched bev btg) = map fst sched.
Proof.
  induction sched as [|it t IH]; intros bev btg; [reflexivity|].
  cbn [attach]. destruct (take_tags (fst it) bev btg) as [g [bev' btg']].
  unfold evs_of in *. simpl. rewrite IH. reflexivity.
Qed.

Definition dispN (r : comp) (evs : list ev) (s s' : st) : Prop :=
  exists ds, disp s' = ds ++ disp s /\ map d_ev (rev ds) = evs /\ (forall d, In d ds -> d_root d = r).

Lemma dispatch_all_post : forall n r sched s, GI n s (evs_of sched) -> par s r = r ->
  post (fun s' => GI n s' [] /\ par s' r = r /\ dispN r (evs_of sched) s s') (dispatch_all n r sched s).
Proof.
  intros n r. induction sched as [|[[e0 hs] tg] t IH]; intros s G Hr;
    unfold evs_of in *; cbn [dispatch_all map fst] in G |- *.
  - cbv beta iota delta [post]. split; [exact G | split; [exact Hr|]]. exists [].
    split; [reflexivity | split; [reflexivity | intros d []]].
  - pose proof (dispatch_post n r e0 hs tg _ s G Hr) as P. unfold item in *.
    destruct (dispatch n r (e0, hs, tg) s) as [s1| | | |]; try exact P. simpl in P.
    destruct P as [G1 [Hr1 [d [E1 [E2 E3]]]]].
    pose proof (IH s1 G1 Hr1) as P2.
    destruct (dispatch_all n r t s1) as [s2| | | |]; try exact P2. cbv beta iota delta [post] in P2 |- *.
    destruct P2 as [G2 [Hr2 [ds [F1 [F2 F3]]]]].
    split; [exact G2 | split; [exact Hr2|]].
    exists (ds ++ [d]). split; [|split].
    + rewrite F1, E1, <- app_assoc. reflexivity.
    + rewrite rev_app_distr. simpl. rewrite E3, F2. reflexivity.
    + intros d' Hin. apply in_app_or in Hin. destruct Hin as [Hin|[<-|[]]]; [apply F3; exact Hin | exact E2].
Qed.

(* the state in which a flush starts dispatching: the batch has left the queue *)
Definition flush_start (r : comp) (s : st) : st :=
  set_fx (set_q s (upd (q s) r []))
         (mkfx (upd (qt (fx s)) r []) (nxt (fx s)) (out (fx s)) (wl (fx s))).

Lemma flush_start_gi : forall n r s evs, GI n s [] -> r < n -> Permutation evs (q s r) -> GI n (flush_start r s) evs.
Proof.
  intros n r s evs [I B] Hrn P. split; [exact I|].
  intros e A. specialize (B e A). unfold tot, gh, flush_start in *. proj. rewrite cnt_nil in B.
  rewrite (cnt_perm _ _ _ P). pose proof (qcount_upd n e (q s) r [] Hrn) as E1. rewrite cnt_nil in E1. lia.
Qed.

Lemma flush_post : forall n r sched s, GI n s [] -> par s r = r -> r < n ->
  post (fun s' => GI n s' [] /\ dispN r (map fst sched) s s' /\ Permutation (map fst sched) (q s r))
       (flush n r sched s).
Proof.
  intros n r sched s G Hr Hrn. unfold flush.
  destruct (is_perm (map fst sched) (q s r)) eqn:P; [|exact Logic.I].
  apply is_perm_perm in P. cbv zeta. fold (flush_start r s).
  pose proof (flush_start_gi n r s (map fst sched) G Hrn P) as G0.
  rewrite <- (attach_evs sched (q s r) (qt (fx s) r)) in G0.
  pose proof (dispatch_all_post n r _ (flush_start r s) G0 Hr) as Q.
  destruct (dispatch_all n r (attach sched (q s r) (qt (fx s) r)) (flush_start r s)) as [s'| | | |]; try exact Q.
  cbv beta iota delta [post] in Q |- *.
  destruct Q as [G' [_ D]]. rewrite attach_evs in D. split; [exact G' | split; [exact D | exact P]].
Qed.

Lemma ticks_post : forall n r scheds s, GI n s [] -> r < n -> post (fun s' => GI n s' []) (ticks n r scheds s).
Proof.
  intros n r. induction scheds as [|sc t IH]; intros s G Hr; simpl; [exact G|].
  unfold tick1. destruct (q s r) eqn:Q.
  - destruct sc; [apply IH; assumption | exact Logic.I].
  - pose proof (flush_post n (rt s r) sc s G (i_rtroot _ _ _ _ _ _ _ _ (proj1 G) r)
                  (i_rtlt _ _ _ _ _ _ _ _ (proj1 G) r Hr)) as P.
    destruct (flush n (rt s r) sc s) as [s1| | | |]; try exact P. simpl in P. apply IH; [exact (proj1 P) | exact Hr].
Qed.

Lemma registerX_post : forall c0 n c p s rem, GI n s rem -> post (fun s' => GI n s' rem) (registerX c0 n c p s).
Proof.
  intros c0 n c p s rem G. pose proof (register_safe n c p s (proj1 G)) as S. unfold registerX.
  destruct (register n c p s) as [s'| | | |] eqn:R; try exact S.
  simpl. destruct (register_fields _ _ _ _ _ R) as [_ [_ [_ [_ Fx]]]].
  apply gi_set_fx. eapply register_gi; eassumption.
Qed.

Lemma unregisterX_post : forall c0 n c s rem, GI n s rem -> post (fun s' => GI n s' rem) (unregisterX c0 n c s).
Proof.
  intros c0 n c s rem G. unfold unregisterX.
  destruct (unregister n c s) as [s'| | | |] eqn:U; simpl; try exact Logic.I.
  - destruct (unregister_gi _ _ _ _ _ G U) as [G' [_ [_ [_ E4]]]].
    apply gi_set_fx. exact G'.
  - unfold unregister in U. destruct ((c <? n) && negb (par s c =? c)); [destruct (pend s c)|]; discriminate.
  - unfold unregister in U. destruct ((c <? n) && negb (par s c =? c)); [destruct (pend s c)|]; discriminate.
Qed.

Lemma fireX_post : forall c0 n x i s rem, GI n s rem -> post (fun s' => GI n s' rem) (fireX c0 n x i s).
Proof.
  intros c0 n x i s rem G. unfold fireX.
  destruct (fire n x i s) as [s'| | | |] eqn:F; simpl; try exact Logic.I.
  - destruct (fire_gi _ _ _ _ _ _ G F) as [G' [_ [_ [_ E4]]]].
    apply gi_set_fx. exact G'.
  - unfold fire in F. destruct (x <? n); discriminate.
  - unfold fire in F. destruct (x <? n); discriminate.
Qed.

Lemma step_post : forall n o s, GI n s [] -> post (fun s' => GI n s' []) (step n o s).
Proof.
  intros n o s G. destruct o as [c p|c|x i|r scheds|x sched]; cbn [step].
  - apply registerX_post; exact G.
  - apply unregisterX_post; exact G.
  - apply fireX_post; exact G.
  - destruct ((r <? n) && (par s r =? r)) eqn:C; [|exact Logic.I].
    apply andb_prop in C. destruct C as [C1 _]. apply Nat.ltb_lt in C1. apply ticks_post; assumption.
  - destruct (x <? n) eqn:C; [|exact Logic.I]. apply Nat.ltb_lt in C.
    pose proof (flush_post n (rt s x) sched s G (i_rtroot _ _ _ _ _ _ _ _ (proj1 G) x)
                  (i_rtlt _ _ _ _ _ _ _ _ (proj1 G) x C)) as P.
    destruct (flush n (rt s x) sched s) as [s1| | | |]; try exact P. exact (proj1 P).
Qed.

Lemma run_post : forall n h s, GI n s [] -> post (fun s' => GI n s' []) (run n h s).
Proof.
  intros n. induction h as [|o t IH]; intros s G; simpl; [exact G|].
  pose proof (step_post n o s G) as P.
  destruct (step n o s) as [s1| | | |]; try exact P. apply IH. exact P.
Qed.

Lemma gi_init : forall n, GI n init [].
Proof.
  intro n. split; [apply inv_init|].
  intros e A. unfold tot, gh. change (q init) with (fun _ : comp => @nil ev).
  rewrite qcount_empty, cnt_nil. destruct e; reflexivity.
Qed.

Lemma run_gi : forall n h s, run n h init = Ok s -> GI n s [].
Proof. intros n h s R. pose proof (run_post n h init (gi_init n)) as P. rewrite R in P. exact P. Qed.

(* for EVERY history, every schedule and whatever the handlers do: the outcome is Ok, PreViolated or
   BadSched - never a crash, never out of fuel *)
Lemma run_safe : forall n h, run n h init <> Crash /\ run n h init <> OutOfFuel.
Proof.
  intros n h. pose proof (run_post n h init (gi_init n)) as P.
  split; intro E; rewrite E in P; exact P.
Qed.
(* ------------------------------------------------------------------ the theorems, on final states *)

Lemma run_inv0 : forall n h s, run n h init = Ok s -> Inv n s.
Proof. intros n h s R. exact (proj1 (run_gi _ _ _ R)). Qed.

Lemma run_forest : forall n h s, run n h init = Ok s -> forest s.
Proof. intros n h s H. eapply inv_forest. eapply run_inv0; exact H. Qed.

Lemma run_subtree_reading : forall n h s c p, run n h init = Ok s -> par s c = c ->
  (rt s p = c <-> desc (kid s) c p).
Proof. intros n h s c p H. eapply inv_subtree_reading. eapply run_inv0; exact H. Qed.

Lemma run_pending_attached : forall n h s c, run n h init = Ok s -> pend s c = true -> par s c <> c.
Proof. intros n h s c H. eapply inv_pending_attached. eapply run_inv0; exact H. Qed.

Lemma run_deliveries : forall n h s d, run n h init = Ok s -> In d (disp s) -> d_ok d = true.
Proof. intros n h s d H. apply (i_disp _ _ _ _ _ _ _ _ (run_inv0 _ _ _ H)). Qed.

Lemma run_detach_connected : forall n h s c s', run n h init = Ok s -> pend s c = true -> complete n c s = Ok s' ->
  par s' c = c /\ pend s' c = false /\ kid s' (par s c) c = false /\
  (forall x, desc (kid s) c x ->
     rt s' x = c /\ desc (kid s') c x /\ (x <> c -> par s' x = par s x /\ kid s' (par s x) x = kid s (par s x) x)) /\
  (forall x, ~ desc (kid s) c x -> rt s' x = rt s x /\ par s' x = par s x).
Proof. intros n h s c s' H. apply detach_connected. eapply run_inv0; exact H. Qed.

Lemma run_move_connected : forall n h s c p s', run n h init = Ok s -> register n c p s = Ok s' ->
  par s' c = p /\ kid s' p c = true /\
  (forall x, desc (kid s) c x ->
     rt s' x = rt s p /\ desc (kid s') c x /\ (x <> c -> par s' x = par s x /\ kid s' (par s x) x = kid s (par s x) x)) /\
  (forall x, ~ desc (kid s) c x -> rt s' x = rt s x /\ par s' x = par s x).
Proof. intros n h s c p s' H. apply move_connected. eapply run_inv0; exact H. Qed.

Lemma run_register_queue : forall n h s c p s', run n h init = Ok s -> register n c p s = Ok s' ->
  rt s' c = rt s p /\
  q s' (rt s p) = q s (rt s p) ++ q s c ++ [Registered c p] /\
  q s' c = [] /\
  (forall x, x <> c -> x <> rt s p -> q s' x = q s x).
Proof. intros n h s c p s' H. apply register_queue. eapply run_inv0; exact H. Qed.

(* registered(c,p) events queued or dispatched = completed registrations (c,p) (the ghost list regd is
   extended by register and by nothing else: register_fields); likewise unregistered / unregd *)
Lemma run_announce_registered : forall n h s c p, run n h init = Ok s ->
  qcount n (q s) (Registered c p) + dcount (disp s) (Registered c p) = cntp c p (regd s).
Proof.
  intros n h s c p R. destruct (run_gi _ _ _ R) as [_ B].
  specialize (B (Registered c p) eq_refl). unfold tot, gh in B. rewrite cnt_nil in B. lia.
Qed.

Lemma run_announce_unregistered : forall n h s c p, run n h init = Ok s ->
  qcount n (q s) (Unregistered c p) + dcount (disp s) (Unregistered c p) = cntp c p (unregd s).
Proof.
  intros n h s c p R. destruct (run_gi _ _ _ R) as [_ B].
  specialize (B (Unregistered c p) eq_refl). unfold tot, gh in B. rewrite cnt_nil in B. lia.
Qed.

Lemma flush_dispatches_batch : forall n h s r sched s', run n h init = Ok s -> par s r = r -> r < n ->
  flush n r sched s = Ok s' ->
  Permutation (map fst sched) (q s r) /\
  exists ds, disp s' = ds ++ disp s /\ map d_ev (rev ds) = map fst sched /\ (forall d, In d ds -> d_root d = r).
Proof.
  intros n h s r sched s' R Hr Hrn F.
  pose proof (flush_post n r sched s (run_gi _ _ _ R) Hr Hrn) as P. rewrite F in P. simpl in P.
  destruct P as [_ [D Pm]]. split; [exact Pm | exact D].
Qed.

(* ================================================================== histories that satisfy the preconditions *)

(* ================================================================== histories that satisfy the preconditions *)

(* the preconditions of the property's quantifier, read on the state the op is applied to *)
Definition op_pre (n : nat) (o : op) (s : st) : Prop :=
  match o with
  | OReg c p => c < n /\ p < n /\ par s c = c /\ pend s c = false /\ ~ desc (kid s) c p
  | OUnreg c => c < n /\ par s c <> c
  | OFire x _ => x < n
  | OTick r _ => r < n /\ par s r = r
  | OFlush x _ => x < n
  end.

(* the same preconditions for what a handler does, at the moment it does it; r = the root that is flushing *)
Definition act_pre (n : nat) (r : comp) (a : act) (s : st) : Prop :=
  match a with
  | AReg c p => c <> r /\ op_pre n (OReg c p) s
  | AUnreg c => op_pre n (OUnreg c) s
  | AFire x i => op_pre n (OFire x i) s
  end.

Fixpoint acts_pre (c0 : ctx) (n : nat) (r : comp) (l : list act) (s : st) : Prop :=
  match l with
  | [] => True
  | a :: t => act_pre n r a s /\ forall s', run_act c0 n r a s = Ok s' -> acts_pre c0 n r t s'
  end.

Fixpoint handlers_pre (c0 : ctx) (n : nat) (r : comp) (ms : list comp) (hs : list (comp * list act)) (s : st)
  : Prop :=
  match ms with
  | [] => True
  | x :: t => acts_pre c0 n r (acts_of x hs) s /\
              forall s', run_acts c0 n r (acts_of x hs) s = Ok s' -> handlers_pre c0 n r t hs s'
  end.

Definition ctx_of (r : comp) (tg : list nat) : ctx := match tg with [] => None | _ => Some (r, tg) end.

(* only receivers act, only on probe / registered / unregistered / prepare_unregister events, and what they
   do is allowed *)
Definition item_pre (n : nat) (r : comp) (it : item * list nat) (s : st) : Prop :=
  let e := fst (fst it) in let hs := snd (fst it) in
  hs_ok e (snd (lookup n r e s)) hs = true /\
  handlers_pre (ctx_of r (snd it)) n r (snd (lookup n r e s)) hs (fst (lookup n r e s)).

Fixpoint items_pre (n : nat) (r : comp) (sched : list (item * list nat)) (s : st) : Prop :=
  match sched with
  | [] => True
  | it :: t => item_pre n r it s /\ forall s', dispatch n r it s = Ok s' -> items_pre n r t s'
  end.

(* a flush dispatches its batch in some order *)
Definition flush_pre (n : nat) (r : comp) (sched : list item) (s : st) : Prop :=
  Permutation (map fst sched) (q s r) /\
  items_pre n r (attach sched (q s r) (qt (fx s) r)) (flush_start r s).

Fixpoint ticks_sched (n : nat) (r : comp) (scheds : list (list item)) (s : st) : Prop :=
  match scheds with
  | [] => True
  | sc :: t => match q s r with
               | [] => sc = [] /\ ticks_sched n r t s
               | _ => flush_pre n (rt s r) sc s /\
                      forall s', flush n (rt s r) sc s = Ok s' -> ticks_sched n r t s'
               end
  end.

Definition op_sched (n : nat) (o : op) (s : st) : Prop :=
  match o with
  | OTick r scheds => ticks_sched n r scheds s
  | OFlush x sched => flush_pre n (rt s x) sched s
  | _ => True
  end.

Fixpoint valid (n : nat) (h : list op) (s : st) : Prop :=
  match h with
  | [] => True
  | o :: t => op_pre n o s /\ op_sched n o s /\ forall s', step n o s = Ok s' -> valid n t s'
  end.

(* not one of the two verdicts on the hypotheses *)
Definition good {A : Type} (r : res A) : Prop :=
  match r with PreViolated | BadSched => False | _ => True end.

Lemma post_good_ok : forall A (P : A -> Prop) (r : res A), post P r -> good r -> exists a, r = Ok a /\ P a.
Proof. intros A P r Hp Hg. destruct r; try contradiction. exists a. split; [reflexivity | exact Hp]. Qed.

Lemma good_with_fx : forall r x, good r -> good (with_fx r x).
Proof. intros r x H. destruct r; exact H. Qed.

Lemma register_good : forall n c p s, Inv n s -> op_pre n (OReg c p) s -> good (register n c p s).
Proof.
  intros n c p s I [Hc [Hp [Hdet [Hnp Hout]]]]. unfold register.
  assert (Hrp : rt s p <> c).
  { intro E. apply Hout. apply (inv_subtree_reading _ _ _ _ I Hdet). exact E. }
  assert (Hcp : c <> p) by (intro E; subst; apply Hout; apply desc_refl).
  rewrite (proj2 (Nat.ltb_lt _ _) Hc), (proj2 (Nat.ltb_lt _ _) Hp), (proj2 (Nat.eqb_eq _ _) Hdet), Hnp,
          (proj2 (Nat.eqb_neq _ _) Hrp), (proj2 (Nat.eqb_neq _ _) Hcp). cbn [andb negb].
  destruct (upd_root _ _ _ _ _ _); exact Logic.I.
Qed.

Lemma unregister_good : forall n c s, op_pre n (OUnreg c) s -> good (unregister n c s).
Proof.
  intros n c s [Hc Hatt]. unfold unregister.
  rewrite (proj2 (Nat.ltb_lt _ _) Hc), (proj2 (Nat.eqb_neq _ _) Hatt). cbn [andb negb].
  destruct (pend s c); exact Logic.I.
Qed.

Lemma fire_good : forall n x i s, op_pre n (OFire x i) s -> good (fire n x i s).
Proof. intros n x i s H. unfold fire. simpl in H. rewrite (proj2 (Nat.ltb_lt _ _) H). exact Logic.I. Qed.

Lemma complete_good : forall n c s, good (complete n c s).
Proof.
  intros n c s. unfold complete. destruct (negb (pend s c)); [exact Logic.I|]. proj.
  destruct (par s c =? c).
  - destruct (upd_root _ _ _ _ _ _); exact Logic.I.
  - destruct (negb (kid s (par s c) c)); [exact Logic.I|]. proj. destruct (upd_root _ _ _ _ _ _); exact Logic.I.
Qed.

Lemma act_good : forall c0 n r a s, Inv n s -> act_pre n r a s -> good (run_act c0 n r a s).
Proof.
  intros c0 n r a s I H. destruct a as [c p|c|x i]; simpl in H |- *.
  - destruct H as [N H]. rewrite (proj2 (Nat.eqb_neq _ _) N). apply good_with_fx. apply register_good; assumption.
  - apply good_with_fx. apply unregister_good; exact H.
  - apply good_with_fx. apply fire_good; exact H.
Qed.

Lemma acts_good : forall c0 n r l s rem, GI n s rem -> par s r = r -> acts_pre c0 n r l s ->
  good (run_acts c0 n r l s).
Proof.
  intros c0 n r. induction l as [|a t IH]; intros s rem G Hr H; simpl; [exact Logic.I|].
  destruct H as [Ha Ht]. pose proof (act_good c0 n r a s (proj1 G) Ha) as Ga.
  pose proof (act_post c0 n r a s rem G Hr) as Pa.
  destruct (run_act c0 n r a s) as [s1| | | |]; try contradiction; try exact Logic.I.
  simpl in Pa. destruct Pa as [G1 K1]. eapply IH; [exact G1 | exact (proj1 K1) | apply Ht; reflexivity].
Qed.

Lemma handlers_good : forall c0 n r hs ms ok s rem, GI n s rem -> par s r = r -> handlers_pre c0 n r ms hs s ->
  good (run_handlers c0 n r ms hs ok s).
Proof.
  intros c0 n r hs. induction ms as [|x t IH]; intros ok s rem G Hr H; simpl; [exact Logic.I|].
  destruct H as [Ha Ht]. pose proof (acts_good c0 n r (acts_of x hs) s rem G Hr Ha) as Ga.
  pose proof (acts_post c0 n r (acts_of x hs) s rem G Hr) as Pa.
  destruct (run_acts c0 n r (acts_of x hs) s) as [s1| | | |]; try contradiction; try exact Logic.I.
  simpl in Pa. destruct Pa as [G1 K1]. eapply IH; [exact G1 | exact (proj1 K1) | apply Ht; reflexivity].
Qed.

Lemma dispatch_good : forall n r e0 hs tg t s, GI n s (e0 :: t) -> par s r = r ->
  item_pre n r ((e0, hs), tg) s -> good (dispatch n r ((e0, hs), tg) s).
Proof.
  intros n r e0 hs tg t s [I B] Hr [Hok Hh]. unfold dispatch. simpl in Hok, Hh.
  destruct (lookup n r e0 s) as [s1 ms] eqn:Hl. simpl in Hok, Hh. rewrite Hok. cbv zeta.
  destruct (lookup_inv _ _ _ _ _ _ I Hr Hl) as [I1 [Hms T]].
  destruct T as [T1 [T2 [T3 [T4 [T5 [T6 [T7 T8]]]]]]].
  pose proof (gi_same n s s1 (e0 :: t) B T5 T8 T6 T7) as B1.
  assert (Hr1 : par s1 r = r) by (rewrite T1; exact Hr).
  fold (ctx_of r tg).
  pose proof (handlers_good (ctx_of r tg) n r hs ms true s1 (e0 :: t) (conj I1 B1) Hr1 Hh) as Gh.
  destruct (run_handlers (ctx_of r tg) n r ms hs true s1) as [[s1' ok]| | | |]; try contradiction; try exact Logic.I.
  destruct e0; try exact Logic.I.
  destruct (existsb (Nat.eqb c) ms); [|exact Logic.I].
  unfold completeX.
  pose proof (complete_good n c (set_disp s1' (mkd r (PrepDone c) ms ok :: disp s1'))) as Gc.
  destruct (complete n c (set_disp s1' (mkd r (PrepDone c) ms ok :: disp s1'))); simpl; try contradiction; exact Logic.I.
Qed.

Lemma dispatch_all_good : forall n r sched s, GI n s (evs_of sched) -> par s r = r -> items_pre n r sched s ->
  good (dispatch_all n r sched s).
Proof.
  intros n r. induction sched as [|[[e0 hs] tg] t IH]; intros s G Hr H;
    unfold evs_of in *; cbn [dispatch_all map fst] in G |- *; [exact Logic.I|].
  destruct H as [Hi Ht]. pose proof (dispatch_good n r e0 hs tg _ s G Hr Hi) as Gd.
  pose proof (dispatch_post n r e0 hs tg _ s G Hr) as Pd. unfold item in *.
  destruct (dispatch n r (e0, hs, tg) s) as [s1| | | |]; try contradiction; try exact Logic.I.
  cbv beta iota delta [post] in Pd. destruct Pd as [G1 [Hr1 _]].
  apply IH; [exact G1 | exact Hr1 | apply Ht; reflexivity].
Qed.

Lemma flush_good : forall n r sched s, GI n s [] -> par s r = r -> r < n -> flush_pre n r sched s ->
  good (flush n r sched s).
Proof.
  intros n r sched s G Hr Hrn [P Hi]. unfold flush. rewrite (perm_is_perm _ _ P). cbv zeta.
  fold (flush_start r s). apply dispatch_all_good; [|exact Hr | exact Hi].
  rewrite attach_evs. apply flush_start_gi; assumption.
Qed.

Lemma ticks_good : forall n r scheds s, GI n s [] -> r < n -> ticks_sched n r scheds s -> good (ticks n r scheds s).
Proof.
  intros n r. induction scheds as [|sc t IH]; intros s G Hr V; simpl in V |- *; [exact Logic.I|].
  unfold tick1. destruct (q s r) eqn:Q.
  - destruct V as [-> V]. apply IH; assumption.
  - destruct V as [Pf V].
    pose proof (flush_good n (rt s r) sc s G (i_rtroot _ _ _ _ _ _ _ _ (proj1 G) r)
                  (i_rtlt _ _ _ _ _ _ _ _ (proj1 G) r Hr) Pf) as Gf.
    pose proof (flush_post n (rt s r) sc s G (i_rtroot _ _ _ _ _ _ _ _ (proj1 G) r)
                  (i_rtlt _ _ _ _ _ _ _ _ (proj1 G) r Hr)) as Pp.
    destruct (flush n (rt s r) sc s) as [s1| | | |]; try contradiction; try exact Logic.I.
    cbv beta iota delta [post] in Pp. apply IH; [exact (proj1 Pp) | exact Hr | apply V; reflexivity].
Qed.

Lemma step_good : forall n o s, GI n s [] -> op_pre n o s -> op_sched n o s -> good (step n o s).
Proof.
  intros n o s G Pre Sch. destruct o as [c p|c|x i|r scheds|x sched]; simpl in Sch; cbn [step].
  - apply good_with_fx. apply register_good; [exact (proj1 G) | exact Pre].
  - apply good_with_fx. apply unregister_good; exact Pre.
  - apply good_with_fx. apply fire_good; exact Pre.
  - destruct Pre as [Hr Hroot]. rewrite (proj2 (Nat.ltb_lt _ _) Hr), (proj2 (Nat.eqb_eq _ _) Hroot). cbn [andb].
    apply ticks_good; assumption.
  - simpl in Pre. rewrite (proj2 (Nat.ltb_lt _ _) Pre).
    apply flush_good; [exact G | apply (i_rtroot _ _ _ _ _ _ _ _ (proj1 G)) |
                       apply (i_rtlt _ _ _ _ _ _ _ _ (proj1 G)); exact Pre | exact Sch].
Qed.
Lemma run_valid_ok : forall n h s, GI n s [] -> valid n h s -> exists s', run n h s = Ok s' /\ GI n s' [].
Proof.
  intros n. induction h as [|o t IH]; intros s G V; simpl.
  - exists s. split; [reflexivity | exact G].
  - destruct V as [Pre [Sch V]].
    destruct (post_good_ok _ _ _ (step_post n o s G) (step_good n o s G Pre Sch)) as [s1 [S G1]].
    rewrite S. apply IH; [exact G1 | apply V; exact S].
Qed.

(* every history whose operations - those of the history and those performed by handlers - satisfy the
   preconditions when they run, under every schedule, runs to Ok *)
Lemma run_ok : forall n h, valid n h init -> exists s, run n h init = Ok s.
Proof.
  intros n h V. destruct (run_valid_ok n h init (gi_init n) V) as [s [R _]]. exists s. exact R.
Qed.

(* ------------------------------------------------------------------ the theorems for all valid histories *)

Lemma valid_app : forall n h o s0, valid n (h ++ [o]) s0 ->
  valid n h s0 /\ forall s, run n h s0 = Ok s -> op_pre n o s /\ op_sched n o s.
Proof.
  intros n. induction h as [|a t IH]; intros o s0 V.
  - simpl in V. destruct V as [P [S _]]. split; [exact Logic.I|].
    intros s R. simpl in R. inversion R; subst. split; assumption.
  - simpl in V. destruct V as [P [S V]]. split.
    + simpl. split; [exact P | split; [exact S|]]. intros s' St. exact (proj1 (IH o s' (V s' St))).
    + intros s R. simpl in R. destruct (step n a s0) as [s1| | | |] eqn:St; try discriminate.
      exact (proj2 (IH o s1 (V s1 eq_refl)) s R).
Qed.

Lemma valid_forest : forall n h, valid n h init -> exists s, run n h init = Ok s /\ forest s.
Proof. intros n h V. destruct (run_ok n h V) as [s R]. exists s. split; [exact R | eapply run_forest; exact R]. Qed.

Lemma valid_pending_attached : forall n h, valid n h init ->
  exists s, run n h init = Ok s /\ forall c, pend s c = true -> par s c <> c.
Proof.
  intros n h V. destruct (run_ok n h V) as [s R]. exists s. split; [exact R|].
  intros c. eapply run_pending_attached; exact R.
Qed.

Lemma valid_announce : forall n h, valid n h init ->
  exists s, run n h init = Ok s /\
    forall c p, qcount n (q s) (Registered c p) + dcount (disp s) (Registered c p) = cntp c p (regd s) /\
                qcount n (q s) (Unregistered c p) + dcount (disp s) (Unregistered c p) = cntp c p (unregd s).
Proof.
  intros n h V. destruct (run_ok n h V) as [s R]. exists s. split; [exact R|].
  intros c p. split; [eapply run_announce_registered | eapply run_announce_unregistered]; exact R.
Qed.

Lemma valid_deliveries : forall n h, valid n h init ->
  exists s, run n h init = Ok s /\ forall d, In d (disp s) -> d_ok d = true.
Proof.
  intros n h V. destruct (run_ok n h V) as [s R]. exists s. split; [exact R|].
  intro d. eapply run_deliveries; exact R.
Qed.

Lemma valid_register : forall n h c p, valid n (h ++ [OReg c p]) init ->
  exists s s', run n h init = Ok s /\ register n c p s = Ok s' /\
    (rt s' c = rt s p /\ q s' (rt s p) = q s (rt s p) ++ q s c ++ [Registered c p] /\ q s' c = [] /\
     (forall x, x <> c -> x <> rt s p -> q s' x = q s x)) /\
    (par s' c = p /\ kid s' p c = true /\
     (forall x, desc (kid s) c x ->
        rt s' x = rt s p /\ desc (kid s') c x /\
        (x <> c -> par s' x = par s x /\ kid s' (par s x) x = kid s (par s x) x)) /\
     (forall x, ~ desc (kid s) c x -> rt s' x = rt s x /\ par s' x = par s x)).
Proof.
  intros n h c p V. destruct (valid_app _ _ _ _ V) as [Vh Pre].
  destruct (run_ok n h Vh) as [s R]. destruct (Pre s R) as [[Hc [Hp [Hdet [Hnp Hout]]]] _].
  destruct (register_progress n c p s (run_inv0 _ _ _ R) Hc Hp Hdet Hnp Hout) as [s' Rg].
  exists s, s'. split; [exact R|]. split; [exact Rg|]. split.
  - eapply run_register_queue; eassumption.
  - eapply run_move_connected; eassumption.
Qed.

Lemma valid_detach : forall n h, valid n h init ->
  exists s, run n h init = Ok s /\
    forall c, pend s c = true ->
    exists s', complete n c s = Ok s' /\
      par s' c = c /\ pend s' c = false /\ kid s' (par s c) c = false /\
      (forall x, desc (kid s) c x ->
         rt s' x = c /\ desc (kid s') c x /\
         (x <> c -> par s' x = par s x /\ kid s' (par s x) x = kid s (par s x) x)) /\
      (forall x, ~ desc (kid s) c x -> rt s' x = rt s x /\ par s' x = par s x).
Proof.
  intros n h V. destruct (run_ok n h V) as [s R]. exists s. split; [exact R|].
  intros c Hp. destruct (complete_progress n c s (run_inv0 _ _ _ R) Hp) as [s' C].
  exists s'. split; [exact C|]. eapply run_detach_connected; eassumption.
Qed.

Lemma valid_flush : forall n h x sched, valid n (h ++ [OFlush x sched]) init ->
  exists s s', run n h init = Ok s /\ flush n (rt s x) sched s = Ok s' /\
    Permutation (map fst sched) (q s (rt s x)) /\
    exists ds, disp s' = ds ++ disp s /\ map d_ev (rev ds) = map fst sched /\
               (forall d, In d ds -> d_root d = rt s x).
Proof.
  intros n h x sched V. destruct (valid_app _ _ _ _ V) as [Vh Pre].
  destruct (run_valid_ok n h init (gi_init n) Vh) as [s [R G]]. destruct (Pre s R) as [Hx P]. simpl in Hx, P.
  pose proof (i_rtroot _ _ _ _ _ _ _ _ (proj1 G) x) as Hroot.
  pose proof (i_rtlt _ _ _ _ _ _ _ _ (proj1 G) x Hx) as Hlt.
  destruct (post_good_ok _ _ _ (flush_post n (rt s x) sched s G Hroot Hlt)
              (flush_good n (rt s x) sched s G Hroot Hlt P)) as [s' [F [_ [D Pm]]]].
  exists s, s'. split; [exact R|]. split; [exact F|]. split; [exact Pm | exact D].
Qed.

(* ------------------------------------------------------------------ the validity hypothesis is satisfiable *)


(* ------------------------------------------------------------------ the validity hypothesis is satisfiable *)

Lemma ex_valid :
  valid 2 [OReg 1 0; OFlush 0 [(Registered 1 0, [(0, [AFire 1 5])])]] init.
Proof.
  cbn [valid]. split; [|split; [exact I|]].
  - cbn [op_pre]. repeat split; try lia.
    intro D. inversion D; subst. discriminate.
  - intros s1 E. assert (E1 : s1 = match step 2 (OReg 1 0) init with Ok s => s | _ => init end) by (rewrite E; reflexivity).
    clear E. split; [cbn [op_pre]; lia|]. split.
    + cbn [op_sched]. split.
      * subst s1. vm_compute. apply Permutation_refl.
      * assert (A : attach [(Registered 1 0, [(0, [AFire 1 5])])] (q s1 (rt s1 0)) (qt (fx s1) (rt s1 0))
                    = [((Registered 1 0, [(0, [AFire 1 5])]), [])]) by (subst s1; vm_compute; reflexivity).
        rewrite A. cbn [items_pre]. split; [|intros; exact I].
        unfold item_pre. cbn [fst snd]. split.
        -- subst s1. vm_compute. reflexivity.
        -- assert (M : snd (lookup 2 (rt s1 0) (Registered 1 0) (flush_start (rt s1 0) s1)) = [0;1])
             by (subst s1; vm_compute; reflexivity).
           rewrite M.
           cbn [handlers_pre acts_of Nat.eqb acts_pre act_pre op_pre].
           split; [split; [lia | intros; exact I]|].
           intros s2 _. split; [exact I | intros; exact I].
    + intros; exact I.
Qed.

(* ================================================================== a detaching component restarts the pending unregistrations of its members *)

Lemma last_cons_shift : forall (k c : comp) l, last (k :: l) c = last l k.
Proof.
  intros k c l. revert k c. induction l as [|a t IH]; intros k c; [reflexivity|].
  change (last (k :: a :: t) c) with (last (a :: t) c). rewrite (IH a c). symmetry. apply IH.
Qed.

Lemma desc_chain : forall kd c x, desc kd c x -> exists l, chain kd c l /\ last l c = x.
Proof.
  intros kd c x H. induction H as [c | c k x Hk Hd [l [Hc Hl]]].
  - exists []. split; [constructor | reflexivity].
  - exists (k :: l). split; [constructor; assumption|]. rewrite last_cons_shift. exact Hl.
Qed.

Lemma reachb_chain : forall n kd, (forall a b, kd a b = true -> b < n) ->
  forall l c fuel, chain kd c l -> length l < fuel -> reachb n fuel kd c (last l c) = true.
Proof.
  intros n kd Hlt. induction l as [|k t IH]; intros c fuel Hc Hf.
  - destruct fuel; [inversion Hf|]. simpl. rewrite Nat.eqb_refl. reflexivity.
  - destruct fuel as [|f]; [inversion Hf|]. inversion Hc as [|c' k' t' Hk Ht]; subst.
    rewrite last_cons_shift. cbn [reachb]. destruct (last t k =? c); [reflexivity|].
    apply existsb_exists. exists k. split.
    + apply in_seq. split; [lia|]. simpl. eapply Hlt; exact Hk.
    + rewrite Hk. apply IH; [exact Ht | simpl in Hf; lia].
Qed.

(* the getHandlers / subtree recursion reaches every member of the subtree *)
Lemma members_complete : forall n kd c x,
  (forall a b, kd a b = true -> b < n) ->
  (exists rk : comp -> nat, forall a b, kd a b = true -> rk a < rk b) ->
  c < n -> desc kd c x -> In x (members n kd c).
Proof.
  intros n kd c x Hlt [rk Hrk] Hc D.
  destruct (desc_chain _ _ _ D) as [l [Hch Hl]].
  destruct (chain_nodup kd rk Hrk l c Hch) as [_ Hnd].
  assert (Hincl : incl (c :: l) (seq 0 n)).
  { intros y Hy. apply in_seq. split; [lia|]. simpl.
    destruct Hy as [<-|Hy]; [exact Hc | eapply chain_lt; eassumption]. }
  pose proof (NoDup_incl_length Hnd Hincl) as Hlen. rewrite seq_length in Hlen. simpl in Hlen.
  unfold members. apply filter_In. split.
  - apply Hincl. subst x. destruct l as [|k t]; [left; reflexivity|].
    right. rewrite last_cons_shift. clear - t. revert k. induction t as [|a t IH]; intro k; [left; reflexivity|].
    rewrite last_cons_shift. right. apply IH.
  - subst x. apply reachb_chain; [exact Hlt | exact Hch | lia].
Qed.

Lemma refire_q : forall l c s, q (refire l c s) c = q s c ++ map PrepUnreg l.
Proof.
  induction l as [|d t IH]; intros c s; simpl; [symmetry; apply app_nil_r|].
  fold (refire t c (enq c (PrepUnreg d) s)). rewrite IH. proj. rewrite upd_same, <- app_assoc. reflexivity.
Qed.

Lemma detach_restarts : forall n c s s', Inv n s -> pend s c = true -> complete n c s = Ok s' ->
  forall d, d <> c -> desc (kid s') c d -> pend s' d = true ->
  rt s' d = c /\ In (PrepUnreg d) (q s' (rt s' d)).
Proof.
  intros n c s s' I Hp H d Nd D Pd.
  destruct (detach_connected _ _ _ _ I Hp H) as [_ [_ [_ [Hin _]]]].
  destruct (complete_ok _ _ _ _ H) as [[Hp' _]|[_ Hrest]]; [congruence|].
  assert (Hatt : par s c <> c) by (apply (i_pend _ _ _ _ _ _ _ _ I); exact Hp).
  destruct (Hrest Hatt) as [f [Hu E]].
  assert (Hkc : kid s (par s c) c = true).
  { apply (i_kid _ _ _ _ _ _ _ _ I). split; [reflexivity | congruence]. }
  assert (Hcn : c < n) by (eapply (i_kidlt _ _ _ _ _ _ _ _ I); exact Hkc).
  assert (Hsub : forall a b, upd2 (kid s) (par s c) c false a b = true -> kid s a b = true).
  { intros a b X. destruct (Nat.eq_dec a (par s c)) as [->|Na]; destruct (Nat.eq_dec b c) as [->|Nb];
      try (rewrite upd2_same in X; discriminate); (rewrite upd2_other in X by tauto); exact X. }
  (* the links and pending flags of s' *)
  assert (K' : kid s' = upd2 (kid s) (par s c) c false /\ pend s' d = pend s d).
  { rewrite E. match goal with |- kid (refire ?l c ?s4) = _ /\ _ => destruct (refire_frame l c s4) as [_ [_ [A3 [A4 _]]]] end.
    rewrite A3, A4. proj. split; [reflexivity | apply upd_other; exact Nd]. }
  destruct K' as [K' P']. rewrite K' in D. rewrite P' in Pd.
  assert (Dold : desc (kid s) c d) by (eapply desc_mono; [exact Hsub | exact D]).
  destruct (Hin d Dold) as [Hr _]. split; [exact Hr|]. rewrite Hr.
  assert (InL : In d (refire_list n c s)).
  { unfold refire_list. rewrite (proj2 (Nat.eqb_neq _ _) Hatt). apply filter_In. split.
    - apply members_complete; [| | exact Hcn | exact D].
      + intros a b X. eapply (i_kidlt _ _ _ _ _ _ _ _ I). apply Hsub. exact X.
      + destruct (inv_rank_down _ _ _ _ _ _ _ _ I) as [rk Hrk]. exists rk. intros a b X. apply Hrk. apply Hsub. exact X.
    - rewrite (proj2 (Nat.eqb_neq _ _) Nd), Pd. reflexivity. }
  rewrite E, refire_q. apply in_or_app. right. apply in_map. exact InL.
Qed.

Lemma run_detach_restarts : forall n h s c s', run n h init = Ok s -> pend s c = true -> complete n c s = Ok s' ->
  forall d, d <> c -> desc (kid s') c d -> pend s' d = true ->
  rt s' d = c /\ In (PrepUnreg d) (q s' (rt s' d)).
Proof. intros n h s c s' R. apply detach_restarts. eapply run_inv0; exact R. Qed.
