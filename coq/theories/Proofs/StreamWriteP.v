(* Proofs about Model/StreamWrite.v (property C11). *)
From Coq Require Import List NArith Arith Bool Lia.
From Circ Require Import Model.StreamWrite Model.StreamWriteObs.
Import ListNotations.

(* ---------------------------------------------------------------- small facts *)

Lemma accepted_app a b : accepted (a ++ b) = accepted a ++ accepted b.
Proof.
  induction a as [|e a IH]; [reflexivity|].
  destruct e; cbn [app accepted]; rewrite ?IH, ?app_assoc; reflexivity.
Qed.

Lemma accepted_closing : accepted closing = [].
Proof. reflexivity. Qed.

Lemma written_app a b : written (a ++ b) = written a ++ written b.
Proof.
  unfold written. induction a as [|o a IH]; [reflexivity|].
  destruct o; cbn [app payloads concat]; rewrite ?IH, ?app_assoc; reflexivity.
Qed.

Lemma run_app p st a b :
  run p st (a ++ b) =
  let '(st1, e1) := run p st a in let '(st2, e2) := run p st1 b in (st2, e1 ++ e2).
Proof.
  revert st; induction a as [|o a IH]; intros st; cbn [app run].
  - destruct (run p st b); reflexivity.
  - destruct (step p st o) as [st1 e1]. rewrite IH.
    destruct (run p st1 a) as [st2 e2]. destruct (run p st2 b) as [st3 e3].
    rewrite app_assoc. reflexivity.
Qed.

(* the transitions of a closed endpoint (patched code): every operation is a no-op *)
Lemma step_closed k o : step (fixed k) (Closed empty) o = (Closed empty, []).
Proof. destruct o as [d| |oc]; destruct k; reflexivity. Qed.

Lemma run_closed k ops : run (fixed k) (Closed empty) ops = (Closed empty, []).
Proof. induction ops as [|o r IH]; [reflexivity|]. cbn [run]. rewrite step_closed, IH. reflexivity. Qed.

Lemma sock_closed_app a b : sock_closed (a ++ b) = sock_closed a || sock_closed b.
Proof. unfold sock_closed. apply existsb_app. Qed.

Lemma accept_le (k : N) (d : list N) : N.to_nat (N.min k (N.of_nat (length d))) <= length d.
Proof. lia. Qed.

Lemma take_drop_all (n : nat) (d : list N) (rest : list (list N)) :
  n <= length d ->
  firstn n d ++ concat (if n <? length d then skipn n d :: rest else rest) = d ++ concat rest.
Proof.
  intros Hle. destruct (n <? length d) eqn:E.
  - cbn [concat]. rewrite app_assoc, firstn_skipn. reflexivity.
  - apply Nat.ltb_ge in E. rewrite firstn_all2 by lia. reflexivity.
Qed.

(* ---------------------------------------------------------------- the invariant of an open endpoint *)

Definition nonempty {A} (l : list A) : bool := match l with [] => false | _ :: _ => true end.

(* writer interest exactly while something is buffered; a close is pending only while something is buffered *)
Definition inv (s : ostate) : Prop :=
  writing s = nonempty (buf s) /\ (closereq s = true -> nonempty (buf s) = true).

Lemma inv_init : inv empty.
Proof. split; [reflexivity|discriminate]. Qed.

Definition pay (o : op) : list N := match o with Write d => d | _ => [] end.

Definition has_fatal (evs : list ev) : bool := existsb fatal_ev evs.

(* events of one step: sends first, then possibly error, then possibly the close pair; never a send
   after the descriptor was closed *)
Definition close_last (st : state) (evs : list ev) : Prop :=
  match st with
  | Open _ => sock_closed evs = false
  | Closed _ => exists a, evs = a ++ closing /\ sock_closed a = false
  end.

(* everything the proofs need to know about one step from an open state *)
Record step_ok (s : ostate) (o : op) (st' : state) (evs : list ev) : Prop := {
  ok_open : forall s', st' = Open s' ->
            inv s' /\ accepted evs ++ concat (buf s') = concat (buf s) ++ pay o /\ has_fatal evs = false;
  ok_closed : forall c, st' = Closed c -> c = empty /\
            (exists rest, accepted evs ++ rest = concat (buf s) ++ pay o /\
                          (has_fatal evs = false -> rest = [] /\ (closereq s = true \/ o = Close))) /\
            signalled evs = true;
  ok_last : close_last st' evs
}.

Lemma fixed_requeue k : requeue (fixed k) = transient.
Proof. destruct k; reflexivity. Qed.
Lemma fixed_ignore k e : ignore (fixed k) e = false.
Proof. destruct k; reflexivity. Qed.

Lemma concat_snoc (b : list (list N)) d : concat (b ++ [d]) = concat b ++ d.
Proof. rewrite concat_app. cbn [concat]. rewrite app_nil_r. reflexivity. Qed.

Lemma nonempty_snoc {A} (b : list A) d : nonempty (b ++ [d]) = true.
Proof. destruct b; reflexivity. Qed.

Lemma step_fixed k s o :
  inv s -> step_ok s o (fst (step (fixed k) (Open s) o)) (snd (step (fixed k) (Open s) o)).
Proof.
  intros [Hw Hc]. destruct s as [b cr w]. cbn [buf closereq writing] in *.
  destruct o as [d| |oc]; cbn [step buf closereq writing fst snd].
  - (* Write *)
    split; cbn [fst snd].
    + intros s' E. injection E as <-. cbn [buf closereq writing pay accepted app].
      split; [split; [symmetry; apply nonempty_snoc|intros _; apply nonempty_snoc]|].
      split; [apply concat_snoc|reflexivity].
    + discriminate.
    + reflexivity.
  - (* Close *)
    destruct b as [|d0 b0]; cbn [fst snd].
    + split.
      * discriminate.
      * intros c E; injection E as <-; split; [reflexivity|]. split; [|reflexivity]. exists []. split; [reflexivity|].
        intros _. split; [reflexivity|right; reflexivity].
      * exists []. split; reflexivity.
    + split.
      * intros s' E. injection E as <-. cbn [buf closereq writing pay accepted app].
        rewrite app_nil_r. split; [split; [exact Hw|reflexivity]|split; reflexivity].
      * discriminate.
      * reflexivity.
  - (* Tick *)
    unfold tick. cbn [buf closereq writing]. destruct w; cbn [negb].
    2:{ split; cbn [fst snd].
        - intros s' E. injection E as <-. cbn [buf pay accepted app]. rewrite app_nil_r.
          split; [split; assumption|split; reflexivity].
        - discriminate.
        - reflexivity. }
    destruct b as [|d rest]; [discriminate Hw|]. clear Hw.
    destruct oc as [kk|e].
    + (* Accept *)
      set (n := N.to_nat (N.min kk (N.of_nat (length d)))).
      assert (Hn : n <= length d) by apply accept_le.
      pose proof (take_drop_all n d rest Hn) as TD.
      unfold after_write, set_buf. cbn [buf closereq writing].
      destruct (if n <? length d then skipn n d :: rest else rest) as [|d1 b1] eqn:EB;
        rewrite ?EB in TD; cbn [concat] in TD; rewrite ?app_nil_r in TD.
      * destruct cr; cbn [fst snd].
        -- split.
           ++ discriminate.
           ++ intros c E; injection E as <-; split; [reflexivity|]. split; [|reflexivity].
              exists []. rewrite accepted_app, accepted_closing. cbn [accepted pay].
              rewrite ?app_nil_r.
              split; [exact TD|]. intros _. split; [reflexivity|left; reflexivity].
           ++ exists [Send d n]. split; reflexivity.
        -- split.
           ++ intros s' E. injection E as <-. cbn [buf closereq writing accepted pay concat].
              rewrite ?app_nil_r.
              split; [apply inv_init|split; [exact TD|reflexivity]].
           ++ discriminate.
           ++ reflexivity.
      * cbn [fst snd]. split.
        -- intros s' E. injection E as <-. cbn [buf closereq writing accepted pay].
           rewrite ?app_nil_r. split; [split; [reflexivity|reflexivity]|].
           split; [exact TD|reflexivity].
        -- discriminate.
        -- reflexivity.
    + (* Refuse *)
      rewrite fixed_requeue, fixed_ignore.
      destruct (transient e) eqn:ET.
      * unfold after_write, set_buf. cbn [buf closereq writing fst snd]. split.
        -- intros s' E. injection E as <-. cbn [buf closereq writing accepted pay app].
           rewrite app_nil_r. split; [split; [reflexivity|reflexivity]|].
           split; [reflexivity|]. unfold has_fatal. cbn [existsb fatal_ev]. rewrite ET. reflexivity.
        -- discriminate.
        -- reflexivity.
      * assert (HF : forall l, has_fatal (SendErr d e :: l) = true).
        { intros l. unfold has_fatal. cbn [existsb fatal_ev]. rewrite ET. reflexivity. }
        destruct (quiet (fixed k) e); cbn [fst snd].
        -- split.
           ++ discriminate.
           ++ intros c E; injection E as <-; split; [reflexivity|]. split; [|reflexivity].
              exists (concat (d :: rest)). cbn [accepted closing pay app].
              rewrite app_nil_r. split; [reflexivity|]. rewrite HF. discriminate.
           ++ exists [SendErr d e]. split; reflexivity.
        -- split.
           ++ discriminate.
           ++ intros c E; injection E as <-; split; [reflexivity|]. split; [|reflexivity].
              exists (concat (d :: rest)). cbn [accepted closing pay app].
              rewrite app_nil_r. split; [reflexivity|]. rewrite HF. discriminate.
           ++ exists [SendErr d e; EvError]. split; reflexivity.
Qed.

(* ---------------------------------------------------------------- whole runs *)

Lemma has_fatal_app a b : has_fatal (a ++ b) = has_fatal a || has_fatal b.
Proof. apply existsb_app. Qed.

Lemma signalled_app a b : signalled (a ++ b) = signalled a || signalled b.
Proof. apply existsb_app. Qed.

(* a run from an open state that satisfies the invariant *)
Lemma run_fixed k : forall ops s, inv s ->
  let st' := fst (run (fixed k) (Open s) ops) in
  let evs := snd (run (fixed k) (Open s) ops) in
  (forall s', st' = Open s' ->
      inv s' /\ accepted evs ++ concat (buf s') = concat (buf s) ++ written ops /\ has_fatal evs = false) /\
  (forall c, st' = Closed c -> c = empty /\ exists rest, accepted evs ++ rest = concat (buf s) ++ written ops) /\
  close_last st' evs.
Proof.
  induction ops as [|o r IH]; intros s Hi; cbn [run fst snd].
  - unfold written. cbn [payloads concat]. rewrite app_nil_r. split; [|split].
    + intros s' E. injection E as <-. split; [exact Hi|split; reflexivity].
    + discriminate.
    + reflexivity.
  - pose proof (step_fixed k s o Hi) as [SO SC SL].
    destruct (step (fixed k) (Open s) o) as [st1 e1]. cbn [fst snd] in *.
    assert (HW : written (o :: r) = pay o ++ written r).
    { unfold written. destruct o; reflexivity. }
    destruct st1 as [s1|c1].
    + destruct (SO s1 eq_refl) as (Hi1 & Hacc1 & Hf1).
      specialize (IH s1 Hi1). destruct (run (fixed k) (Open s1) r) as [st2 e2]. cbn [fst snd] in *.
      destruct IH as (IO & IC & IL). split; [|split].
      * intros s' E. destruct (IO s' E) as (Hi2 & Hacc2 & Hf2). split; [exact Hi2|]. split.
        -- rewrite accepted_app, <- app_assoc, Hacc2, app_assoc, Hacc1, HW, <- app_assoc. reflexivity.
        -- rewrite has_fatal_app, Hf1, Hf2. reflexivity.
      * intros c E. destruct (IC c E) as [-> [rest Hr]]. split; [reflexivity|]. exists rest.
        rewrite accepted_app, <- app_assoc, Hr, app_assoc, Hacc1, HW, <- app_assoc. reflexivity.
      * cbn [close_last] in SL. destruct st2 as [s2|c2]; cbn [close_last] in *.
        -- rewrite sock_closed_app, SL, IL. reflexivity.
        -- destruct IL as [a [Ea Ha]]. exists (e1 ++ a). rewrite Ea, app_assoc. split; [reflexivity|].
           rewrite sock_closed_app, SL, Ha. reflexivity.
    + destruct (SC c1 eq_refl) as [-> [[rest [Hr _]] _]].
      rewrite run_closed. cbn [fst snd]. rewrite app_nil_r. split; [|split].
      * discriminate.
      * intros c E. injection E as <-. split; [reflexivity|]. exists (rest ++ written r).
        rewrite app_assoc, Hr, HW, <- app_assoc. reflexivity.
      * exact SL.
Qed.

Lemma run_init k ops :
  let st' := fst (run (fixed k) init ops) in
  let evs := snd (run (fixed k) init ops) in
  (forall s', st' = Open s' ->
      inv s' /\ accepted evs ++ concat (buf s') = written ops /\ has_fatal evs = false) /\
  (forall c, st' = Closed c -> c = empty /\ exists rest, accepted evs ++ rest = written ops) /\
  close_last st' evs.
Proof. exact (run_fixed k ops empty inv_init). Qed.

(* ---------------------------------------------------------------- the theorems of Props/C11.v *)

(* sent ++ buffered = written, for every payload sequence, outcome script and close position *)
Lemma prefix_all k ops :
  exists rest, accepted (snd (run (fixed k) init ops)) ++ rest = written ops /\
               forall s, fst (run (fixed k) init ops) = Open s -> rest = concat (buf s).
Proof.
  destruct (run_init k ops) as (IO & IC & _). cbn [buf concat app] in *.
  fold init in IO, IC.
  destruct (fst (run (fixed k) init ops)) as [s|c] eqn:E.
  - destruct (IO s eq_refl) as (_ & H & _). exists (concat (buf s)). split; [exact H|].
    intros s0 E0. injection E0 as <-. reflexivity.
  - destruct (IC c eq_refl) as [_ [rest H]]. exists rest. split; [exact H|]. discriminate.
Qed.

Lemma interest_iff_buffered k ops s :
  fst (run (fixed k) init ops) = Open s ->
  (writing s = true <-> buf s <> []) /\ (closereq s = true -> buf s <> []).
Proof.
  intros E. destruct (run_init k ops) as (IO & _ & _). fold init in IO.
  destruct (IO s E) as ([Hw Hc] & _ & _). split.
  - rewrite Hw. destruct (buf s); cbn [nonempty]; split; intros H; congruence.
  - intros H. specialize (Hc H). destruct (buf s); [discriminate|discriminate].
Qed.

(* the endpoint closes without a fatal refusal only on request and with everything written accepted *)
Lemma close_after_drain k ops s evs1 o :
  run (fixed k) init ops = (Open s, evs1) ->
  fst (step (fixed k) (Open s) o) = Closed empty ->
  has_fatal (snd (step (fixed k) (Open s) o)) = false ->
  accepted (evs1 ++ snd (step (fixed k) (Open s) o)) = written (ops ++ [o]) /\
  (closereq s = true \/ o = Close) /\ o <> Write (pay o).
Proof.
  intros R C F.
  destruct (run_init k ops) as (IO & _ & _). fold init in IO. rewrite R in IO. cbn [fst snd] in IO.
  destruct (IO s eq_refl) as (Hi & Hacc & _). cbn [buf concat app] in Hacc.
  pose proof (step_fixed k s o Hi) as [_ SC _].
  destruct (SC _ C) as [_ [[rest [Hr Hn]] _]]. destruct (Hn F) as [-> Hq].
  rewrite app_nil_r in Hr. split; [|split; [exact Hq|]].
  - assert (WS : written [o] = pay o).
    { unfold written. destruct o; cbn [payloads concat pay]; rewrite ?app_nil_r; reflexivity. }
    rewrite accepted_app, Hr, written_app, WS, <- Hacc, app_assoc. reflexivity.
  - destruct o; cbn [pay]; [cbn [step fst] in C|..]; discriminate.
Qed.

(* after the close: no state is kept (the tables are empty), and whatever operations follow - writes, closes,
   poller iterations with any outcome - change nothing and produce nothing: no send call, no event *)
Lemma nothing_after_close k ops1 ops2 c :
  fst (run (fixed k) init ops1) = Closed c ->
  c = empty /\ run (fixed k) init (ops1 ++ ops2) = run (fixed k) init ops1.
Proof.
  intros C. destruct (run_init k ops1) as (_ & IC & _). fold init in IC.
  destruct (IC c C) as [-> _]. split; [reflexivity|].
  rewrite run_app. destruct (run (fixed k) init ops1) as [st e]. cbn [fst] in C. subst st.
  rewrite run_closed, app_nil_r. reflexivity.
Qed.

(* the transitions the model does not transcribe (a `_write` event for a closed endpoint that still has writer
   interest) are never reached by the patched code *)
Lemma step_open_modelled k s o : existsb is_unmodelled (snd (step (fixed k) (Open s) o)) = false.
Proof.
  destruct s as [b cr w]. destruct o as [d| |oc]; cbn [step buf closereq writing].
  - reflexivity.
  - destruct b; reflexivity.
  - unfold tick. cbn [buf closereq writing]. destruct w; cbn [negb]; [|reflexivity].
    unfold after_write, set_buf. cbn [buf closereq writing].
    destruct b as [|d rest]; [destruct cr; reflexivity|].
    destruct oc as [kk|e].
    + destruct (if N.to_nat (N.min kk (N.of_nat (length d))) <? length d
                then skipn (N.to_nat (N.min kk (N.of_nat (length d)))) d :: rest else rest);
        [destruct cr|]; reflexivity.
    + rewrite fixed_requeue, fixed_ignore. destruct (transient e); [reflexivity|].
      destruct (quiet (fixed k) e); reflexivity.
Qed.

Lemma always_modelled k ops : existsb is_unmodelled (snd (run (fixed k) init ops)) = false.
Proof.
  unfold init. generalize inv_init. generalize empty as s.
  induction ops as [|o r IH]; intros s Hi; [reflexivity|]. cbn [run].
  pose proof (step_fixed k s o Hi) as [SO SC _]. pose proof (step_open_modelled k s o) as M.
  destruct (step (fixed k) (Open s) o) as [st1 e1]. cbn [fst snd] in *.
  destruct st1 as [s1|c1].
  - destruct (SO s1 eq_refl) as (Hi1 & _). specialize (IH s1 Hi1).
    destruct (run (fixed k) (Open s1) r) as [st2 e2]. cbn [snd] in *.
    rewrite existsb_app, M, IH. reflexivity.
  - destruct (SC c1 eq_refl) as [-> _]. rewrite run_closed. cbn [snd]. rewrite app_nil_r. exact M.
Qed.

Lemma no_send_after_sockclose_aux a : sock_closed a = false ->
  forall x y, a ++ closing = x ++ SockClose :: y -> y = [EvDisc].
Proof.
  induction a as [|e a IH]; intros H x y E.
  - destruct x as [|e0 x]; cbn in E.
    + injection E as <-. reflexivity.
    + injection E as <- E. destruct x as [|e1 x]; cbn in E; [discriminate|].
      injection E as <- E. destruct x; discriminate.
  - unfold sock_closed in H. cbn [existsb] in H. apply orb_false_iff in H. destruct H as [He Ha].
    destruct x as [|e0 x]; cbn [app] in E.
    + injection E as -> _. discriminate.
    + injection E as _ E. exact (IH Ha x y E).
Qed.

Lemma close_is_last k ops x y :
  snd (run (fixed k) init ops) = x ++ SockClose :: y ->
  y = [EvDisc] /\ fst (run (fixed k) init ops) = Closed empty.
Proof.
  intros E. destruct (run_init k ops) as (_ & _ & IL). fold init in IL.
  destruct (run_init k ops) as (_ & IC & _). fold init in IC.
  destruct (fst (run (fixed k) init ops)) as [s|c]; cbn [close_last] in IL.
  - rewrite E, sock_closed_app in IL. cbn in IL. rewrite orb_true_r in IL. discriminate.
  - destruct (IC c eq_refl) as [-> _].
    destruct IL as [a [Ea Ha]]. rewrite Ea in E. split; [|reflexivity].
    exact (no_send_after_sockclose_aux a Ha x y E).
Qed.

(* a fatal refusal closes the endpoint, is signalled, and the accepted bytes are a prefix *)
Lemma fatal_signalled k ops s evs1 e :
  run (fixed k) init ops = (Open s, evs1) -> transient e = false -> buf s <> [] ->
  fst (step (fixed k) (Open s) (Tick (Refuse e))) = Closed empty /\
  signalled (snd (step (fixed k) (Open s) (Tick (Refuse e)))) = true /\
  accepted (snd (step (fixed k) (Open s) (Tick (Refuse e)))) = [] /\
  exists rest, accepted evs1 ++ rest = written ops.
Proof.
  intros R T B.
  destruct (run_init k ops) as (IO & _ & _). fold init in IO. rewrite R in IO. cbn [fst snd] in IO.
  destruct (IO s eq_refl) as ([Hw Hc] & Hacc & _). cbn [buf concat app] in Hacc.
  assert (W : writing s = true). { rewrite Hw. destruct (buf s); [contradiction|reflexivity]. }
  cbn [step]. unfold tick. rewrite W. cbn [negb].
  destruct (buf s) as [|d rest] eqn:EB; [contradiction|].
  rewrite fixed_requeue, fixed_ignore, T.
  destruct (quiet (fixed k) e); cbn [fst snd]; (split; [reflexivity|split; [reflexivity|split; [reflexivity|]]]);
    exists (concat (d :: rest)); exact Hacc.
Qed.

(* a transient refusal changes nothing *)
Lemma transient_harmless k s e :
  transient e = true -> buf s <> [] ->
  fst (step (fixed k) (Open s) (Tick (Refuse e))) = Open s /\
  accepted (snd (step (fixed k) (Open s) (Tick (Refuse e)))) = [] /\
  sock_closed (snd (step (fixed k) (Open s) (Tick (Refuse e)))) = false /\
  signalled (snd (step (fixed k) (Open s) (Tick (Refuse e)))) = false.
Proof.
  intros T B. destruct s as [b cr w]. cbn [buf] in B. cbn [step]. unfold tick. cbn [buf closereq writing].
  destruct w; cbn [negb]; [|repeat split; reflexivity].
  destruct b as [|d rest]; [contradiction|].
  rewrite fixed_requeue, T. unfold after_write, set_buf. cbn [buf closereq writing fst snd].
  repeat split; reflexivity.
Qed.

(* ---------------------------------------------------------------- liveness: an accepting OS drains the buffer *)

Definition drained : ostate := empty.

Lemma accept_all (kk : N) (d : list N) :
  (N.of_nat (length d) <= kk)%N -> N.to_nat (N.min kk (N.of_nat (length d))) = length d.
Proof. lia. Qed.

Lemma drains_aux k kk : forall b cr,
  Forall (fun d => (N.of_nat (length d) <= kk)%N) b -> b <> [] ->
  let r := run (fixed k) (Open {| buf := b; closereq := cr; writing := true |})
               (repeat (Tick (Accept kk)) (length b)) in
  fst r = (if cr then Closed empty else Open drained) /\ accepted (snd r) = concat b /\
  sock_closed (snd r) = cr.
Proof.
  induction b as [|d rest IH]; intros cr HF NE; [contradiction|].
  inversion HF as [|? ? Hd Hrest]; subst.
  cbn [length repeat run step]. unfold tick. cbn [buf closereq writing negb].
  rewrite (accept_all kk d Hd), Nat.ltb_irrefl.
  unfold after_write, set_buf. cbn [buf closereq writing].
  destruct rest as [|d2 rest2].
  - cbn [length repeat run]. destruct cr; cbn [fst snd concat accepted app];
      rewrite ?app_nil_r, ?firstn_all; repeat split; try reflexivity.
  - specialize (IH cr Hrest ltac:(discriminate)).
    destruct (run (fixed k) (Open {| buf := d2 :: rest2; closereq := cr; writing := true |})
                  (repeat (Tick (Accept kk)) (length (d2 :: rest2)))) as [st2 e2].
    cbn [fst snd] in *. destruct IH as (I1 & I2 & I3). split; [exact I1|]. split.
    + cbn [app accepted]. rewrite firstn_all, I2. reflexivity.
    + cbn [app]. unfold sock_closed in *. cbn [existsb]. exact I3.
Qed.

Lemma drains k ops s evs1 kk :
  run (fixed k) init ops = (Open s, evs1) ->
  Forall (fun d => (N.of_nat (length d) <= kk)%N) (buf s) ->
  let r := run (fixed k) init (ops ++ repeat (Tick (Accept kk)) (length (buf s))) in
  fst r = (if closereq s then Closed empty else Open drained) /\
  accepted (snd r) = written ops /\
  sock_closed (snd r) = closereq s.
Proof.
  intros R HF. cbn zeta. rewrite run_app, R.
  destruct (run_init k ops) as (IO & _ & IL). fold init in IO, IL. rewrite R in IO, IL.
  cbn [fst snd close_last] in IO, IL.
  destruct (IO s eq_refl) as ([Hw Hc] & Hacc & _). cbn [buf concat app] in Hacc.
  destruct s as [b cr w]. cbn [buf closereq writing] in *.
  destruct b as [|d rest].
  - cbn [length repeat run nonempty] in *. subst w. destruct cr.
    + specialize (Hc eq_refl). discriminate.
    + cbn [fst snd]. rewrite ?app_nil_r in *. cbn [concat] in Hacc. rewrite ?app_nil_r in Hacc.
      repeat split; assumption.
  - cbn [nonempty] in Hw. subst w.
    pose proof (drains_aux k kk (d :: rest) cr HF ltac:(discriminate)) as D. cbn zeta in D.
    destruct (run (fixed k) (Open {| buf := d :: rest; closereq := cr; writing := true |})
                  (repeat (Tick (Accept kk)) (length (d :: rest)))) as [st2 e2].
    cbn [fst snd] in *. destruct D as (D1 & D2 & D3). split; [exact D1|]. split.
    + rewrite accepted_app, D2. exact Hacc.
    + rewrite sock_closed_app, IL, D3. reflexivity.
Qed.

(* every accepting send makes progress: the buffered amount (bytes + payloads) strictly decreases *)
Definition load (b : list (list N)) : nat := length (concat b) + length b.

Lemma progress k s kk s' :
  writing s = true -> buf s <> [] -> (1 <= kk)%N ->
  fst (step (fixed k) (Open s) (Tick (Accept kk))) = Open s' -> load (buf s') < load (buf s).
Proof.
  intros W B K. destruct s as [b cr w]. cbn [buf writing] in *. subst w.
  destruct b as [|d rest]; [contradiction|].
  cbn [step]. unfold tick. cbn [buf closereq writing negb].
  set (n := N.to_nat (N.min kk (N.of_nat (length d)))).
  assert (Hn : n <= length d) by apply accept_le.
  unfold after_write, set_buf. cbn [buf closereq writing].
  destruct (n <? length d) eqn:E.
  - cbn [fst]. intros E'. injection E' as <-. cbn [buf]. unfold load. cbn [concat length].
    rewrite !app_length, skipn_length. apply Nat.ltb_lt in E.
    assert (1 <= n). { subst n. destruct d; cbn [length] in *; lia. } lia.
  - destruct rest as [|d2 rest2].
    + destruct cr; cbn [fst]; intros E'; [discriminate|]. injection E' as <-. unfold empty. cbn [buf].
      unfold load. cbn [concat length]. lia.
    + cbn [fst]. intros E'. injection E' as <-. cbn [buf]. unfold load. cbn [concat length].
      rewrite !app_length. lia.
Qed.

(* ---------------------------------------------------------------- the per-operation trace used by the
   correspondence check is the same run *)
Lemma last_default {A} (l : list A) : forall x d d', last (x :: l) d = last (x :: l) d'.
Proof. induction l as [|y l IH]; intros x d d'; [reflexivity|]. exact (IH y d d'). Qed.

Lemma trace_is_run p : forall ops st,
  concat (map fst (trace p st ops)) = snd (run p st ops) /\
  last (map snd (trace p st ops)) st = fst (run p st ops).
Proof.
  induction ops as [|o r IH]; intros st; cbn [trace run map concat last fst snd].
  - split; reflexivity.
  - destruct (step p st o) as [st1 e1]. specialize (IH st1).
    destruct (run p st1 r) as [st2 e2]. cbn [fst snd map concat] in *. destruct IH as [I1 I2].
    split; [rewrite I1; reflexivity|].
    destruct (trace p st1 r) as [|t ts] eqn:ET.
    + cbn [map last] in *. exact I2.
    + cbn [map] in *. rewrite <- I2. exact (last_default _ _ st st1).
Qed.

(* ---------------------------------------------------------------- the code before the patches *)

Definition lost_witness : list op :=
  [Write [1%N]; Write [2%N]; Tick (Refuse EAGAIN); Tick (Accept 5%N)].

Lemma legacy_client_loses :
  ~ exists rest, accepted (snd (run (legacy Client) init lost_witness)) ++ rest = written lost_witness.
Proof. vm_compute. intros [rest H]. discriminate H. Qed.

Lemma legacy_file_loses :
  ~ exists rest, accepted (snd (run (legacy File) init lost_witness)) ++ rest = written lost_witness.
Proof. vm_compute. intros [rest H]. discriminate H. Qed.

Definition reset_witness : list op :=
  [Write [1%N]; Write [2%N]; Tick (Refuse 104%N); Tick (Accept 5%N)].

Lemma legacy_client_gap :
  ~ exists rest, accepted (snd (run (legacy Client) init reset_witness)) ++ rest = written reset_witness.
Proof. vm_compute. intros [rest H]. discriminate H. Qed.

(* ---------------------------------------------------------------- data of the Examples in Props/C11.v *)
Definition ex_ops : list op :=
  [Write [1; 2; 3]%N; Write []; Write [4; 5]%N; Tick (Refuse EAGAIN); Tick (Accept 2); Close;
   Tick (Accept 9); Tick (Refuse EINTR); Tick (Accept 0); Tick (Accept 9); Write [6]%N; Tick (Accept 9)].

(* ---------------------------------------------------------------- the code before the repairs keeps state for,
   and reacts to, operations that arrive after the close *)
Definition late_witness : list op := [Close; Write [7%N]; Close].

Lemma legacy_file_keeps_state :
  fst (run (legacy File) init late_witness) =
  Closed {| buf := [[7%N]]; closereq := true; writing := true |}.
Proof. vm_compute. reflexivity. Qed.

Lemma legacy_file_late_unmodelled :
  existsb is_unmodelled (snd (run (legacy File) init (late_witness ++ [Tick (Accept 9%N)]))) = true.
Proof. vm_compute. reflexivity. Qed.

(* ================================================================ the Server with its tables *)

Lemma mem_In t l : mem t l = true <-> In t l.
Proof.
  unfold mem. rewrite existsb_exists. split.
  - intros [x [Hx E]]. apply Nat.eqb_eq in E. subst. exact Hx.
  - intros H. exists t. split; [exact H|apply Nat.eqb_refl].
Qed.

Lemma mem_notIn t l : mem t l = false <-> ~ In t l.
Proof. rewrite <- mem_In. destruct (mem t l); split; congruence. Qed.

Lemma mem_cons s x l : mem s (x :: l) = Nat.eqb s x || mem s l.
Proof. reflexivity. Qed.

Lemma mem_remove1_neq s t l : s <> t -> mem s (remove1 t l) = mem s l.
Proof.
  intros N. induction l as [|x r IH]; [reflexivity|]. cbn [remove1].
  destruct (Nat.eqb t x) eqn:E.
  - apply Nat.eqb_eq in E. subst x. rewrite mem_cons.
    replace (Nat.eqb s t) with false by (symmetry; apply Nat.eqb_neq; exact N). reflexivity.
  - rewrite !mem_cons, IH. reflexivity.
Qed.

Lemma mem_remove1_eq t l : NoDup l -> mem t (remove1 t l) = false.
Proof.
  induction 1 as [|x r Hx Hr IH]; [reflexivity|]. cbn [remove1].
  destruct (Nat.eqb t x) eqn:E.
  - apply Nat.eqb_eq in E. subst x. apply mem_notIn. exact Hx.
  - rewrite mem_cons, E, IH. reflexivity.
Qed.

Lemma In_remove1 s t l : In s (remove1 t l) -> In s l.
Proof.
  induction l as [|x r IH]; [intros []|]. cbn [remove1]. destruct (Nat.eqb t x).
  - intros H. right. exact H.
  - intros [H|H]; [left; exact H|right; exact (IH H)].
Qed.

Lemma NoDup_remove1 t l : NoDup l -> NoDup (remove1 t l).
Proof.
  induction 1 as [|x r Hx Hr IH]; [constructor|]. cbn [remove1]. destruct (Nat.eqb t x); [exact Hr|].
  constructor; [|exact IH]. intros H. apply Hx. exact (In_remove1 _ _ _ H).
Qed.

Lemma mem_app s a b : mem s (a ++ b) = mem s a || mem s b.
Proof. apply existsb_app. Qed.

Lemma mem_add1_eq t l : mem t (add1 t l) = true.
Proof.
  unfold add1. destruct (mem t l) eqn:E; [exact E|].
  rewrite mem_app, E. cbn. rewrite Nat.eqb_refl. reflexivity.
Qed.

Lemma mem_add1_neq s t l : s <> t -> mem s (add1 t l) = mem s l.
Proof.
  intros N. unfold add1. destruct (mem t l); [reflexivity|].
  rewrite mem_app. cbn. replace (Nat.eqb s t) with false by (symmetry; apply Nat.eqb_neq; exact N).
  rewrite !orb_false_r. reflexivity.
Qed.

Lemma NoDup_add1 t l : NoDup l -> NoDup (add1 t l).
Proof.
  intros H. unfold add1. destruct (mem t l) eqn:E; [exact H|].
  apply mem_notIn in E. induction H as [|x r Hx Hr IH]; cbn [app].
  - constructor; [intros []|constructor].
  - constructor.
    + rewrite in_app_iff. intros [I|[I|[]]]; [exact (Hx I)|]. subst. apply E. left. reflexivity.
    + apply IH. intros I. apply E. right. exact I.
Qed.

Lemma dget_dset_eq t v b : dget t (dset t v b) = v.
Proof.
  induction b as [|[x w] r IH]; cbn [dset dget].
  - rewrite Nat.eqb_refl. reflexivity.
  - destruct (Nat.eqb t x) eqn:E; cbn [dget]; [rewrite Nat.eqb_refl|rewrite E]; [reflexivity|exact IH].
Qed.

Lemma dget_dset_neq s t v b : s <> t -> dget s (dset t v b) = dget s b.
Proof.
  intros N. apply Nat.eqb_neq in N. induction b as [|[x w] r IH]; cbn [dset dget].
  - rewrite N. reflexivity.
  - destruct (Nat.eqb t x) eqn:E; cbn [dget].
    + apply Nat.eqb_eq in E. subst x. rewrite N. reflexivity.
    + rewrite IH. reflexivity.
Qed.

Lemma dget_ddel_eq t b : dget t (ddel t b) = [].
Proof.
  unfold ddel. induction b as [|[x w] r IH]; [reflexivity|]. cbn [filter fst].
  destruct (Nat.eqb t x) eqn:E; cbn [negb]; [exact IH|]. cbn [dget]. rewrite E. exact IH.
Qed.

Lemma dget_ddel_neq s t b : s <> t -> dget s (ddel t b) = dget s b.
Proof.
  intros N. unfold ddel. induction b as [|[x w] r IH]; [reflexivity|]. cbn [filter fst].
  destruct (Nat.eqb t x) eqn:E; cbn [negb dget].
  - apply Nat.eqb_eq in E. subst x. apply Nat.eqb_neq in N. rewrite N. exact IH.
  - rewrite IH. reflexivity.
Qed.

Definition wf (m : srv) : Prop := NoDup (clients m) /\ NoDup (closeq m) /\ NoDup (writers m).

Definition SP : policy := fixed Server.

Ltac tables := cbn [clients buffers closeq writers with_buffers].
Ltac other N :=
  unfold view; tables;
  rewrite ?(mem_remove1_neq _ _ _ N), ?(mem_add1_neq _ _ _ N), ?(dget_dset_neq _ _ _ _ N),
          ?(dget_ddel_neq _ _ _ N); reflexivity.

(* Server._close(t) for a connected socket *)
Lemma s_close1_ref m t : wf m -> mem t (clients m) = true ->
  snd (s_close1 m t) = closing /\ wf (fst (s_close1 m t)) /\
  view (fst (s_close1 m t)) t = Closed empty /\
  forall s, s <> t -> view (fst (s_close1 m t)) s = view m s.
Proof.
  intros (W1 & W2 & W3) C. unfold s_close1. rewrite C. cbn [fst snd]. split; [reflexivity|]. split; [|split].
  - repeat split; tables; apply NoDup_remove1; assumption.
  - unfold view. tables. rewrite !mem_remove1_eq, dget_ddel_eq by assumption. reflexivity.
  - intros s N. other N.
Qed.

Lemma s_after_ref m t evs : wf m -> mem t (clients m) = true -> mem t (writers m) = true ->
  wf (fst (s_after m t evs)) /\
  (view (fst (s_after m t evs)) t, snd (s_after m t evs)) =
    after_write {| buf := dget t (buffers m); closereq := mem t (closeq m); writing := true |} evs /\
  forall s, s <> t -> view (fst (s_after m t evs)) s = view m s.
Proof.
  intros W C Wr. pose proof W as (W1 & W2 & W3). unfold s_after, after_write. cbn [buf closereq writing].
  destruct (dget t (buffers m)) as [|d0 b0] eqn:B.
  - destruct (mem t (closeq m)) eqn:Q.
    + set (m0 := {| clients := clients m; buffers := buffers m; closeq := remove1 t (closeq m);
                    writers := writers m |}).
      assert (W0 : wf m0) by (repeat split; tables; try assumption; apply NoDup_remove1; assumption).
      destruct (s_close1_ref m0 t W0 C) as (E1 & E2 & E3 & E4).
      destruct (s_close1 m0 t) as [m1 e1]. cbn [fst snd] in *. subst e1. split; [exact E2|]. split.
      * rewrite E3. reflexivity.
      * intros s N. rewrite (E4 s N). unfold m0. other N.
    + cbn [fst snd]. split; [|split].
      * repeat split; tables; try assumption. apply NoDup_remove1; assumption.
      * unfold view. tables. rewrite C, B, Q, mem_remove1_eq by assumption. reflexivity.
      * intros s N. other N.
  - cbn [fst snd]. split; [exact W|]. split; [|reflexivity].
    unfold view. rewrite C, B, Wr. reflexivity.
Qed.

Lemma wf_with_buffers m b : wf m -> wf (with_buffers m b).
Proof. intros H. exact H. Qed.

Lemma view_with_buffers_neq m t b s : s <> t -> view (with_buffers m (dset t b (buffers m))) s = view m s.
Proof. intros N. other N. Qed.

(* one operation on socket t: socket t makes the per-connection step, every other socket keeps its state *)
Lemma s_op_ref m t o : wf m ->
  let r := match o with Write d => s_write m t d | Close => s_close m t | Tick oc => s_tick m t oc end in
  wf (fst r) /\ (view (fst r) t, snd r) = step SP (view m t) o /\
  forall s, s <> t -> view (fst r) s = view m s.
Proof.
  intros W. pose proof W as (W1 & W2 & W3). destruct o as [d| |oc]; cbn zeta.
  - (* write *)
    unfold s_write. destruct (mem t (clients m)) eqn:C; cbn [fst snd].
    + split; [|split].
      * repeat split; tables; try assumption. apply NoDup_add1; assumption.
      * unfold view. tables. rewrite C, dget_dset_eq, mem_add1_eq. reflexivity.
      * intros s N. other N.
    + split; [exact W|]. split; [|reflexivity]. unfold view. rewrite C. reflexivity.
  - (* close *)
    unfold s_close. destruct (mem t (clients m)) eqn:C.
    + destruct (dget t (buffers m)) as [|d0 b0] eqn:B.
      * destruct (s_close1_ref m t W C) as (E1 & E2 & E3 & E4).
        destruct (s_close1 m t) as [m1 e1]. cbn [fst snd] in *. subst e1. split; [exact E2|]. split; [|exact E4].
        rewrite E3. unfold view. rewrite C. cbn [step buf]. rewrite B. reflexivity.
      * cbn [fst snd]. split; [|split].
        -- repeat split; tables; try assumption. apply NoDup_add1; assumption.
        -- unfold view. tables. rewrite C, mem_add1_eq. cbn [step buf closereq writing]. rewrite B. reflexivity.
        -- intros s N. other N.
    + cbn [fst snd]. split; [exact W|]. split; [|reflexivity]. unfold view. rewrite C. reflexivity.
  - (* poller iteration *)
    unfold s_tick. destruct (mem t (writers m)) eqn:Wr; cbn [negb].
    2:{ cbn [fst snd]. split; [exact W|]. split; [|reflexivity]. unfold view.
        destruct (mem t (clients m)); cbn [step]; unfold tick; cbn [writing]; rewrite Wr; reflexivity. }
    destruct (mem t (clients m)) eqn:C; cbn [negb].
    2:{ cbn [fst snd]. split; [exact W|]. split; [|reflexivity]. unfold view. rewrite C. cbn [step writing].
        rewrite Wr. reflexivity. }
    assert (V : view m t = Open {| buf := dget t (buffers m); closereq := mem t (closeq m); writing := true |}).
    { unfold view. rewrite C, Wr. reflexivity. }
    rewrite V. cbn [step]. unfold tick. cbn [buf closereq writing negb].
    destruct (dget t (buffers m)) as [|d rest] eqn:B.
    + destruct (s_after_ref m t [] W C Wr) as (A1 & A2 & A3). rewrite B in A2.
      split; [exact A1|]. split; [exact A2|exact A3].
    + destruct oc as [kk|e].
      * set (n := N.to_nat (N.min kk (N.of_nat (length d)))).
        set (b := if n <? length d then skipn n d :: rest else rest).
        set (m0 := with_buffers m (dset t b (buffers m))).
        destruct (s_after_ref m0 t [Send d n] W C Wr) as (A1 & A2 & A3).
        unfold m0 at 2 3 in A2. tables. cbn [buffers with_buffers closeq] in A2. rewrite dget_dset_eq in A2.
        split; [exact A1|]. split; [exact A2|].
        intros s N. rewrite (A3 s N). apply view_with_buffers_neq. exact N.
      * unfold SP. rewrite fixed_requeue, fixed_ignore. destruct (transient e) eqn:T.
        -- set (m0 := with_buffers m (dset t (d :: rest) (buffers m))).
           destruct (s_after_ref m0 t [SendErr d e] W C Wr) as (A1 & A2 & A3).
           unfold m0 at 2 3 in A2. cbn [buffers with_buffers closeq] in A2. rewrite dget_dset_eq in A2.
           split; [exact A1|]. split; [exact A2|].
           intros s N. rewrite (A3 s N). apply view_with_buffers_neq. exact N.
        -- cbn [quiet fixed].
           set (m0 := with_buffers m (dset t rest (buffers m))).
           destruct (s_close1_ref m0 t W C) as (E1 & E2 & E3 & E4).
           destruct (s_close1 m0 t) as [m1 e1]. cbn [fst snd] in *. subst e1.
           split; [exact E2|]. split; [rewrite E3; reflexivity|].
           intros s N. rewrite (E4 s N). apply view_with_buffers_neq. exact N.
Qed.

Lemma projev_app s a b : projev s (a ++ b) = projev s a ++ projev s b.
Proof.
  induction a as [|[t e] a IH]; [reflexivity|]. cbn [app projev]. destruct (Nat.eqb t s); rewrite IH; reflexivity.
Qed.

Lemma projev_tag_eq t evs : projev t (tag t evs) = evs.
Proof. induction evs as [|e r IH]; [reflexivity|]. cbn [tag map projev]. rewrite Nat.eqb_refl. f_equal. exact IH. Qed.

Lemma projev_tag_neq s t evs : s <> t -> projev s (tag t evs) = [].
Proof.
  intros N. induction evs as [|e r IH]; [reflexivity|]. cbn [tag map projev].
  replace (Nat.eqb t s) with false by (symmetry; apply Nat.eqb_neq; congruence). exact IH.
Qed.

(* close(): the loop over a duplicate-free list of sockets *)
Lemma s_close_list_ref : forall l m, wf m -> NoDup l ->
  wf (fst (s_close_list m l)) /\
  forall s,
    view (fst (s_close_list m l)) s = (if mem s l then fst (step SP (view m s) Close) else view m s) /\
    projev s (snd (s_close_list m l)) = (if mem s l then snd (step SP (view m s) Close) else []).
Proof.
  induction l as [|t r IH]; intros m W ND; cbn [s_close_list].
  - cbn [fst snd]. split; [exact W|]. intros s. split; reflexivity.
  - inversion ND as [|? ? Ht Hr]; subst.
    destruct (s_op_ref m t Close W) as (O1 & O2 & O3). cbn zeta in *.
    destruct (s_close m t) as [m1 e1]. cbn [fst snd] in *.
    destruct (IH m1 O1 Hr) as (I1 & I2). destruct (s_close_list m1 r) as [m2 e2]. cbn [fst snd] in *.
    split; [exact I1|]. intros s. destruct (I2 s) as (J1 & J2). rewrite mem_cons, projev_app.
    destruct (Nat.eqb s t) eqn:E; cbn [orb].
    + apply Nat.eqb_eq in E. subst s. apply mem_notIn in Ht. rewrite Ht in J1, J2.
      rewrite J1, J2, projev_tag_eq, app_nil_r. rewrite <- O2. split; reflexivity.
    + apply Nat.eqb_neq in E. rewrite (projev_tag_neq s t e1 E), J1, J2, (O3 s E). split; reflexivity.
Qed.

Lemma proj_single s t o : proj s [On t o] = if Nat.eqb t s then [o] else [].
Proof. cbn [proj]. destruct (Nat.eqb t s); reflexivity. Qed.

(* one server operation, seen from any socket s: s makes exactly the per-connection steps that concern it *)
Lemma mstep_ref m o : wf m ->
  wf (fst (mstep m o)) /\
  forall s, view (fst (mstep m o)) s = fst (run SP (view m s) (proj s [o])) /\
            projev s (snd (mstep m o)) = snd (run SP (view m s) (proj s [o])).
Proof.
  intros W. destruct o as [t o|].
  - pose proof (s_op_ref m t o W) as R. cbn zeta in R.
    assert (G : forall r, wf (fst r) /\ (view (fst r) t, snd r) = step SP (view m t) o /\
                          (forall s, s <> t -> view (fst r) s = view m s) ->
                wf (fst r) /\ forall s, view (fst r) s = fst (run SP (view m s) (proj s [On t o])) /\
                                        projev s (tag t (snd r)) = snd (run SP (view m s) (proj s [On t o]))).
    { intros r (R1 & R2 & R3). split; [exact R1|]. intros s. rewrite proj_single.
      destruct (Nat.eqb t s) eqn:E.
      - apply Nat.eqb_eq in E. subst s. cbn [run]. rewrite <- R2. cbn [fst snd].
        rewrite projev_tag_eq, app_nil_r. split; reflexivity.
      - apply Nat.eqb_neq in E. cbn [run fst snd]. rewrite R3 by congruence.
        rewrite projev_tag_neq by congruence. split; reflexivity. }
    destruct o as [d| |oc]; cbn [mstep].
    + specialize (G (s_write m t d) R). destruct (s_write m t d). exact G.
    + specialize (G (s_close m t) R). destruct (s_close m t). exact G.
    + specialize (G (s_tick m t oc) R). destruct (s_tick m t oc). exact G.
  - cbn [mstep]. pose proof W as (W1 & _).
    destruct (s_close_list_ref (clients m) m W W1) as (L1 & L2). split; [exact L1|].
    intros s. destruct (L2 s) as (J1 & J2). cbn [proj run].
    destruct (step SP (view m s) Close) as [st e] eqn:ES. cbn [fst snd] in *. rewrite app_nil_r.
    destruct (mem s (clients m)) eqn:C; [split; assumption|].
    rewrite J1, J2. unfold view in ES. rewrite C in ES. cbn [step SP fixed closed_guard] in ES.
    injection ES as <- <-. unfold view. rewrite C. split; reflexivity.
Qed.

Lemma proj_cons s o r : proj s (o :: r) = proj s [o] ++ proj s r.
Proof. destruct o as [t o|]; cbn [proj]; [destruct (Nat.eqb t s)|]; reflexivity. Qed.

(* the refinement: the Server's tables, projected on any socket, behave as the per-connection model *)
Lemma server_refines : forall ops m s, wf m ->
  view (fst (mrun m ops)) s = fst (run SP (view m s) (proj s ops)) /\
  projev s (snd (mrun m ops)) = snd (run SP (view m s) (proj s ops)).
Proof.
  induction ops as [|o r IH]; intros m s W; [split; reflexivity|].
  cbn [mrun]. destruct (mstep_ref m o W) as (W1 & R). destruct (R s) as (R1 & R2).
  destruct (mstep m o) as [m1 e1]. cbn [fst snd] in *.
  destruct (IH m1 s W1) as (I1 & I2). destruct (mrun m1 r) as [m2 e2]. cbn [fst snd] in *.
  rewrite proj_cons, run_app, projev_app.
  destruct (run SP (view m s) (proj s [o])) as [st1 x1]. cbn [fst snd] in *. subst st1 x1.
  destruct (run SP (view m1 s) (proj s r)) as [st2 x2]. cbn [fst snd] in *. subst st2 x2.
  split; reflexivity.
Qed.

Lemma wf_fresh l : NoDup l -> wf (fresh l).
Proof. intros H. repeat split; [exact H|constructor|constructor]. Qed.

Lemma view_fresh l s : In s l -> view (fresh l) s = init.
Proof. intros H. apply mem_In in H. unfold view, fresh. tables. rewrite H. reflexivity. Qed.

(* isolation: what socket s is handed, and its state, depend only on the operations and outcomes for s *)
Lemma server_isolation l ops1 ops2 s : NoDup l -> proj s ops1 = proj s ops2 ->
  projev s (snd (mrun (fresh l) ops1)) = projev s (snd (mrun (fresh l) ops2)) /\
  view (fst (mrun (fresh l) ops1)) s = view (fst (mrun (fresh l) ops2)) s.
Proof.
  intros ND E. destruct (server_refines ops1 (fresh l) s (wf_fresh l ND)) as (A1 & A2).
  destruct (server_refines ops2 (fresh l) s (wf_fresh l ND)) as (B1 & B2).
  rewrite A1, A2, B1, B2, E. split; reflexivity.
Qed.

(* per connection, for any interleaving: sent ++ buffered = written *)
Lemma server_prefix l ops s : NoDup l -> In s l ->
  exists rest, accepted (projev s (snd (mrun (fresh l) ops))) ++ rest = written (proj s ops) /\
               forall o, view (fst (mrun (fresh l) ops)) s = Open o -> rest = concat (buf o).
Proof.
  intros ND I. destruct (server_refines ops (fresh l) s (wf_fresh l ND)) as (A1 & A2).
  rewrite A1, A2, (view_fresh l s I). apply prefix_all.
Qed.

Lemma server_nothing_after_close l ops1 ops2 s c : NoDup l -> In s l ->
  view (fst (mrun (fresh l) ops1)) s = Closed c ->
  c = empty /\
  view (fst (mrun (fresh l) (ops1 ++ ops2))) s = Closed empty /\
  projev s (snd (mrun (fresh l) (ops1 ++ ops2))) = projev s (snd (mrun (fresh l) ops1)).
Proof.
  intros ND I C. pose proof (wf_fresh l ND) as W.
  destruct (server_refines ops1 (fresh l) s W) as (A1 & A2).
  destruct (server_refines (ops1 ++ ops2) (fresh l) s W) as (B1 & B2).
  rewrite (view_fresh l s I) in *. rewrite A1 in C.
  assert (P : proj s (ops1 ++ ops2) = proj s ops1 ++ proj s ops2).
  { clear. induction ops1 as [|o r IH]; [reflexivity|]. cbn [app]. rewrite proj_cons, (proj_cons s o r), IH, app_assoc.
    reflexivity. }
  rewrite P in B1, B2. destruct (nothing_after_close Server (proj s ops1) (proj s ops2) c C) as (-> & N).
  fold SP in N. rewrite N in B1, B2. rewrite B1, B2, A2, C. repeat split; reflexivity.
Qed.
