(* Proofs about Model/StreamWrite.v (property C11). *)
From Coq Require Import List NArith Arith Bool Lia.
From Circ Require Import Model.StreamWrite Model.StreamWriteObs.
Import ListNotations.

(* ---------------------------------------------------------------- small facts *)

Lemma accepted_app a b : accepted (a ++ b) = accepted a ++ accepted b.
Proof.
  induction a as [|e a IH]; [reflexivity|].
  destruct e; cbn [app accepted]; rewrite ?IH, ?app_assoc; reflexivity.
Qed.

Lemma accepted_closing : accepted closing = [].
Proof. reflexivity. Qed.

Lemma written_app a b : written (a ++ b) = written a ++ written b.
Proof.
  unfold written. induction a as [|o a IH]; [reflexivity|].
  destruct o; cbn [app payloads concat]; rewrite ?IH, ?app_assoc; reflexivity.
Qed.

Lemma run_app p st a b :
  run p st (a ++ b) =
  let '(st1, e1) := run p st a in let '(st2, e2) := run p st1 b in (st2, e1 ++ e2).
Proof.
  revert st; induction a as [|o a IH]; intros st; cbn [app run].
  - destruct (run p st b); reflexivity.
  - destruct (step p st o) as [st1 e1]. rewrite IH.
    destruct (run p st1 a) as [st2 e2]. destruct (run p st2 b) as [st3 e3].
    rewrite app_assoc. reflexivity.
Qed.

Lemma run_closed p ops : run p Closed ops = (Closed, []).
Proof. induction ops as [|o r IH]; [reflexivity|]. cbn [run step]. rewrite IH. reflexivity. Qed.

Lemma sock_closed_app a b : sock_closed (a ++ b) = sock_closed a || sock_closed b.
Proof. unfold sock_closed. apply existsb_app. Qed.

Lemma accept_le (k : N) (d : list N) : N.to_nat (N.min k (N.of_nat (length d))) <= length d.
Proof. lia. Qed.

Lemma take_drop_all (n : nat) (d : list N) (rest : list (list N)) :
  n <= length d ->
  firstn n d ++ concat (if n <? length d then skipn n d :: rest else rest) = d ++ concat rest.
Proof.
  intros Hle. destruct (n <? length d) eqn:E.
  - cbn [concat]. rewrite app_assoc, firstn_skipn. reflexivity.
  - apply Nat.ltb_ge in E. rewrite firstn_all2 by lia. reflexivity.
Qed.

(* ---------------------------------------------------------------- the invariant of an open endpoint *)

Definition nonempty {A} (l : list A) : bool := match l with [] => false | _ :: _ => true end.

(* writer interest exactly while something is buffered; a close is pending only while something is buffered *)
Definition inv (s : ostate) : Prop :=
  writing s = nonempty (buf s) /\ (closereq s = true -> nonempty (buf s) = true).

Lemma inv_init : inv {| buf := []; closereq := false; writing := false |}.
Proof. split; [reflexivity|discriminate]. Qed.

Definition pay (o : op) : list N := match o with Write d => d | _ => [] end.

Definition has_fatal (evs : list ev) : bool := existsb fatal_ev evs.

(* events of one step: sends first, then possibly error, then possibly the close pair; never a send
   after the descriptor was closed *)
Definition close_last (st : state) (evs : list ev) : Prop :=
  match st with
  | Open _ => sock_closed evs = false
  | Closed => exists a, evs = a ++ closing /\ sock_closed a = false
  end.

(* everything the proofs need to know about one step from an open state *)
Record step_ok (s : ostate) (o : op) (st' : state) (evs : list ev) : Prop := {
  ok_open : forall s', st' = Open s' ->
            inv s' /\ accepted evs ++ concat (buf s') = concat (buf s) ++ pay o /\ has_fatal evs = false;
  ok_closed : st' = Closed ->
            (exists rest, accepted evs ++ rest = concat (buf s) ++ pay o /\
                          (has_fatal evs = false -> rest = [] /\ (closereq s = true \/ o = Close))) /\
            signalled evs = true;
  ok_last : close_last st' evs
}.

Lemma fixed_requeue k : requeue (fixed k) = transient.
Proof. destruct k; reflexivity. Qed.
Lemma fixed_ignore k e : ignore (fixed k) e = false.
Proof. destruct k; reflexivity. Qed.

Lemma concat_snoc (b : list (list N)) d : concat (b ++ [d]) = concat b ++ d.
Proof. rewrite concat_app. cbn [concat]. rewrite app_nil_r. reflexivity. Qed.

Lemma nonempty_snoc {A} (b : list A) d : nonempty (b ++ [d]) = true.
Proof. destruct b; reflexivity. Qed.

Lemma step_fixed k s o :
  inv s -> step_ok s o (fst (step (fixed k) (Open s) o)) (snd (step (fixed k) (Open s) o)).
Proof.
  intros [Hw Hc]. destruct s as [b cr w]. cbn [buf closereq writing] in *.
  destruct o as [d| |oc]; cbn [step buf closereq writing fst snd].
  - (* Write *)
    split; cbn [fst snd].
    + intros s' E. injection E as <-. cbn [buf closereq writing pay accepted app].
      split; [split; [symmetry; apply nonempty_snoc|intros _; apply nonempty_snoc]|].
      split; [apply concat_snoc|reflexivity].
    + discriminate.
    + reflexivity.
  - (* Close *)
    destruct b as [|d0 b0]; cbn [fst snd].
    + split.
      * discriminate.
      * intros _. split; [|reflexivity]. exists []. split; [reflexivity|].
        intros _. split; [reflexivity|right; reflexivity].
      * exists []. split; reflexivity.
    + split.
      * intros s' E. injection E as <-. cbn [buf closereq writing pay accepted app].
        rewrite app_nil_r. split; [split; [exact Hw|reflexivity]|split; reflexivity].
      * discriminate.
      * reflexivity.
  - (* Tick *)
    unfold tick. cbn [buf closereq writing]. destruct w; cbn [negb].
    2:{ split; cbn [fst snd].
        - intros s' E. injection E as <-. cbn [buf pay accepted app]. rewrite app_nil_r.
          split; [split; assumption|split; reflexivity].
        - discriminate.
        - reflexivity. }
    destruct b as [|d rest]; [discriminate Hw|]. clear Hw.
    destruct oc as [kk|e].
    + (* Accept *)
      set (n := N.to_nat (N.min kk (N.of_nat (length d)))).
      assert (Hn : n <= length d) by apply accept_le.
      pose proof (take_drop_all n d rest Hn) as TD.
      unfold after_write, set_buf. cbn [buf closereq writing].
      destruct (if n <? length d then skipn n d :: rest else rest) as [|d1 b1] eqn:EB;
        rewrite ?EB in TD; cbn [concat] in TD; rewrite ?app_nil_r in TD.
      * destruct cr; cbn [fst snd].
        -- split.
           ++ discriminate.
           ++ intros _. split; [|reflexivity].
              exists []. rewrite accepted_app, accepted_closing. cbn [accepted pay].
              rewrite ?app_nil_r.
              split; [exact TD|]. intros _. split; [reflexivity|left; reflexivity].
           ++ exists [Send d n]. split; reflexivity.
        -- split.
           ++ intros s' E. injection E as <-. cbn [buf closereq writing accepted pay concat].
              rewrite ?app_nil_r.
              split; [apply inv_init|split; [exact TD|reflexivity]].
           ++ discriminate.
           ++ reflexivity.
      * cbn [fst snd]. split.
        -- intros s' E. injection E as <-. cbn [buf closereq writing accepted pay].
           rewrite ?app_nil_r. split; [split; [reflexivity|reflexivity]|].
           split; [exact TD|reflexivity].
        -- discriminate.
        -- reflexivity.
    + (* Refuse *)
      rewrite fixed_requeue, fixed_ignore.
      destruct (transient e) eqn:ET.
      * unfold after_write, set_buf. cbn [buf closereq writing fst snd]. split.
        -- intros s' E. injection E as <-. cbn [buf closereq writing accepted pay app].
           rewrite app_nil_r. split; [split; [reflexivity|reflexivity]|].
           split; [reflexivity|]. unfold has_fatal. cbn [existsb fatal_ev]. rewrite ET. reflexivity.
        -- discriminate.
        -- reflexivity.
      * assert (HF : forall l, has_fatal (SendErr d e :: l) = true).
        { intros l. unfold has_fatal. cbn [existsb fatal_ev]. rewrite ET. reflexivity. }
        destruct (quiet (fixed k) e); cbn [fst snd].
        -- split.
           ++ discriminate.
           ++ intros _. split; [|reflexivity].
              exists (concat (d :: rest)). cbn [accepted closing pay app].
              rewrite app_nil_r. split; [reflexivity|]. rewrite HF. discriminate.
           ++ exists [SendErr d e]. split; reflexivity.
        -- split.
           ++ discriminate.
           ++ intros _. split; [|reflexivity].
              exists (concat (d :: rest)). cbn [accepted closing pay app].
              rewrite app_nil_r. split; [reflexivity|]. rewrite HF. discriminate.
           ++ exists [SendErr d e; EvError]. split; reflexivity.
Qed.

(* ---------------------------------------------------------------- whole runs *)

Lemma has_fatal_app a b : has_fatal (a ++ b) = has_fatal a || has_fatal b.
Proof. apply existsb_app. Qed.

Lemma signalled_app a b : signalled (a ++ b) = signalled a || signalled b.
Proof. apply existsb_app. Qed.

(* a run from an open state that satisfies the invariant *)
Lemma run_fixed k : forall ops s, inv s ->
  let st' := fst (run (fixed k) (Open s) ops) in
  let evs := snd (run (fixed k) (Open s) ops) in
  (forall s', st' = Open s' ->
      inv s' /\ accepted evs ++ concat (buf s') = concat (buf s) ++ written ops /\ has_fatal evs = false) /\
  (st' = Closed -> exists rest, accepted evs ++ rest = concat (buf s) ++ written ops) /\
  close_last st' evs.
Proof.
  induction ops as [|o r IH]; intros s Hi; cbn [run fst snd].
  - unfold written. cbn [payloads concat]. rewrite app_nil_r. split; [|split].
    + intros s' E. injection E as <-. split; [exact Hi|split; reflexivity].
    + discriminate.
    + reflexivity.
  - pose proof (step_fixed k s o Hi) as [SO SC SL].
    destruct (step (fixed k) (Open s) o) as [st1 e1]. cbn [fst snd] in *.
    assert (HW : written (o :: r) = pay o ++ written r).
    { unfold written. destruct o; reflexivity. }
    destruct st1 as [s1|].
    + destruct (SO s1 eq_refl) as (Hi1 & Hacc1 & Hf1).
      specialize (IH s1 Hi1). destruct (run (fixed k) (Open s1) r) as [st2 e2]. cbn [fst snd] in *.
      destruct IH as (IO & IC & IL). split; [|split].
      * intros s' E. destruct (IO s' E) as (Hi2 & Hacc2 & Hf2). split; [exact Hi2|]. split.
        -- rewrite accepted_app, <- app_assoc, Hacc2, app_assoc, Hacc1, HW, <- app_assoc. reflexivity.
        -- rewrite has_fatal_app, Hf1, Hf2. reflexivity.
      * intros E. destruct (IC E) as [rest Hr]. exists rest.
        rewrite accepted_app, <- app_assoc, Hr, app_assoc, Hacc1, HW, <- app_assoc. reflexivity.
      * cbn [close_last] in SL. destruct st2 as [s2|]; cbn [close_last] in *.
        -- rewrite sock_closed_app, SL, IL. reflexivity.
        -- destruct IL as [a [Ea Ha]]. exists (e1 ++ a). rewrite Ea, app_assoc. split; [reflexivity|].
           rewrite sock_closed_app, SL, Ha. reflexivity.
    + rewrite run_closed. cbn [fst snd]. rewrite app_nil_r. split; [|split].
      * discriminate.
      * intros _. destruct (SC eq_refl) as [[rest [Hr _]] _]. exists (rest ++ written r).
        rewrite app_assoc, Hr, HW, <- app_assoc. reflexivity.
      * exact SL.
Qed.

(* ---------------------------------------------------------------- the theorems of Props/C11.v *)

(* sent ++ buffered = written, for every payload sequence, outcome script and close position *)
Lemma prefix_all k ops :
  exists rest, accepted (snd (run (fixed k) init ops)) ++ rest = written ops /\
               forall s, fst (run (fixed k) init ops) = Open s -> rest = concat (buf s).
Proof.
  destruct (run_fixed k ops _ inv_init) as (IO & IC & _). cbn [buf concat app] in *.
  fold init in IO, IC.
  destruct (fst (run (fixed k) init ops)) as [s|] eqn:E.
  - destruct (IO s eq_refl) as (_ & H & _). exists (concat (buf s)). split; [exact H|].
    intros s0 E0. injection E0 as <-. reflexivity.
  - destruct (IC eq_refl) as [rest H]. exists rest. split; [exact H|]. discriminate.
Qed.

Lemma interest_iff_buffered k ops s :
  fst (run (fixed k) init ops) = Open s ->
  (writing s = true <-> buf s <> []) /\ (closereq s = true -> buf s <> []).
Proof.
  intros E. destruct (run_fixed k ops _ inv_init) as (IO & _ & _). fold init in IO.
  destruct (IO s E) as ([Hw Hc] & _ & _). split.
  - rewrite Hw. destruct (buf s); cbn [nonempty]; split; intros H; congruence.
  - intros H. specialize (Hc H). destruct (buf s); [discriminate|discriminate].
Qed.

(* the endpoint closes without a fatal refusal only on request and with everything written accepted *)
Lemma close_after_drain k ops s evs1 o :
  run (fixed k) init ops = (Open s, evs1) ->
  fst (step (fixed k) (Open s) o) = Closed ->
  has_fatal (snd (step (fixed k) (Open s) o)) = false ->
  accepted (evs1 ++ snd (step (fixed k) (Open s) o)) = written (ops ++ [o]) /\
  (closereq s = true \/ o = Close) /\ o <> Write (pay o).
Proof.
  intros R C F.
  destruct (run_fixed k ops _ inv_init) as (IO & _ & _). fold init in IO. rewrite R in IO. cbn [fst snd] in IO.
  destruct (IO s eq_refl) as (Hi & Hacc & _). cbn [buf concat app] in Hacc.
  pose proof (step_fixed k s o Hi) as [_ SC _].
  destruct (SC C) as [[rest [Hr Hn]] _]. destruct (Hn F) as [-> Hq].
  rewrite app_nil_r in Hr. split; [|split; [exact Hq|]].
  - assert (WS : written [o] = pay o).
    { unfold written. destruct o; cbn [payloads concat pay]; rewrite ?app_nil_r; reflexivity. }
    rewrite accepted_app, Hr, written_app, WS, <- Hacc, app_assoc. reflexivity.
  - destruct o; cbn [pay]; [cbn [step fst] in C|..]; discriminate.
Qed.

Lemma nothing_after_close k ops1 ops2 :
  fst (run (fixed k) init ops1) = Closed ->
  run (fixed k) init (ops1 ++ ops2) = run (fixed k) init ops1.
Proof.
  intros C. rewrite run_app. destruct (run (fixed k) init ops1) as [st e]. cbn [fst] in C. subst st.
  rewrite run_closed, app_nil_r. reflexivity.
Qed.

Lemma no_send_after_sockclose_aux a : sock_closed a = false ->
  forall x y, a ++ closing = x ++ SockClose :: y -> y = [EvDisc].
Proof.
  induction a as [|e a IH]; intros H x y E.
  - destruct x as [|e0 x]; cbn in E.
    + injection E as <-. reflexivity.
    + injection E as <- E. destruct x as [|e1 x]; cbn in E; [discriminate|].
      injection E as <- E. destruct x; discriminate.
  - unfold sock_closed in H. cbn [existsb] in H. apply orb_false_iff in H. destruct H as [He Ha].
    destruct x as [|e0 x]; cbn [app] in E.
    + injection E as -> _. discriminate.
    + injection E as _ E. exact (IH Ha x y E).
Qed.

Lemma close_is_last k ops x y :
  snd (run (fixed k) init ops) = x ++ SockClose :: y ->
  y = [EvDisc] /\ fst (run (fixed k) init ops) = Closed.
Proof.
  intros E. destruct (run_fixed k ops _ inv_init) as (_ & _ & IL). fold init in IL.
  destruct (fst (run (fixed k) init ops)) as [s|]; cbn [close_last] in IL.
  - rewrite E, sock_closed_app in IL. cbn in IL. rewrite orb_true_r in IL. discriminate.
  - destruct IL as [a [Ea Ha]]. rewrite Ea in E. split; [|reflexivity].
    exact (no_send_after_sockclose_aux a Ha x y E).
Qed.

(* a fatal refusal closes the endpoint, is signalled, and the accepted bytes are a prefix *)
Lemma fatal_signalled k ops s evs1 e :
  run (fixed k) init ops = (Open s, evs1) -> transient e = false -> buf s <> [] ->
  fst (step (fixed k) (Open s) (Tick (Refuse e))) = Closed /\
  signalled (snd (step (fixed k) (Open s) (Tick (Refuse e)))) = true /\
  accepted (snd (step (fixed k) (Open s) (Tick (Refuse e)))) = [] /\
  exists rest, accepted evs1 ++ rest = written ops.
Proof.
  intros R T B.
  destruct (run_fixed k ops _ inv_init) as (IO & _ & _). fold init in IO. rewrite R in IO. cbn [fst snd] in IO.
  destruct (IO s eq_refl) as ([Hw Hc] & Hacc & _). cbn [buf concat app] in Hacc.
  assert (W : writing s = true). { rewrite Hw. destruct (buf s); [contradiction|reflexivity]. }
  cbn [step]. unfold tick. rewrite W. cbn [negb].
  destruct (buf s) as [|d rest] eqn:EB; [contradiction|].
  rewrite fixed_requeue, fixed_ignore, T.
  destruct (quiet (fixed k) e); cbn [fst snd]; (split; [reflexivity|split; [reflexivity|split; [reflexivity|]]]);
    exists (concat (d :: rest)); exact Hacc.
Qed.

(* a transient refusal changes nothing *)
Lemma transient_harmless k s e :
  transient e = true -> buf s <> [] ->
  fst (step (fixed k) (Open s) (Tick (Refuse e))) = Open s /\
  accepted (snd (step (fixed k) (Open s) (Tick (Refuse e)))) = [] /\
  sock_closed (snd (step (fixed k) (Open s) (Tick (Refuse e)))) = false /\
  signalled (snd (step (fixed k) (Open s) (Tick (Refuse e)))) = false.
Proof.
  intros T B. destruct s as [b cr w]. cbn [buf] in B. cbn [step]. unfold tick. cbn [buf closereq writing].
  destruct w; cbn [negb]; [|repeat split; reflexivity].
  destruct b as [|d rest]; [contradiction|].
  rewrite fixed_requeue, T. unfold after_write, set_buf. cbn [buf closereq writing fst snd].
  repeat split; reflexivity.
Qed.

(* ---------------------------------------------------------------- liveness: an accepting OS drains the buffer *)

Definition drained : ostate := {| buf := []; closereq := false; writing := false |}.

Lemma accept_all (kk : N) (d : list N) :
  (N.of_nat (length d) <= kk)%N -> N.to_nat (N.min kk (N.of_nat (length d))) = length d.
Proof. lia. Qed.

Lemma drains_aux k kk : forall b cr,
  Forall (fun d => (N.of_nat (length d) <= kk)%N) b -> b <> [] ->
  let r := run (fixed k) (Open {| buf := b; closereq := cr; writing := true |})
               (repeat (Tick (Accept kk)) (length b)) in
  fst r = (if cr then Closed else Open drained) /\ accepted (snd r) = concat b /\
  sock_closed (snd r) = cr.
Proof.
  induction b as [|d rest IH]; intros cr HF NE; [contradiction|].
  inversion HF as [|? ? Hd Hrest]; subst.
  cbn [length repeat run step]. unfold tick. cbn [buf closereq writing negb].
  rewrite (accept_all kk d Hd), Nat.ltb_irrefl.
  unfold after_write, set_buf. cbn [buf closereq writing].
  destruct rest as [|d2 rest2].
  - cbn [length repeat run]. destruct cr; cbn [fst snd concat accepted app];
      rewrite ?app_nil_r, ?firstn_all; repeat split; try reflexivity.
  - specialize (IH cr Hrest ltac:(discriminate)).
    destruct (run (fixed k) (Open {| buf := d2 :: rest2; closereq := cr; writing := true |})
                  (repeat (Tick (Accept kk)) (length (d2 :: rest2)))) as [st2 e2].
    cbn [fst snd] in *. destruct IH as (I1 & I2 & I3). split; [exact I1|]. split.
    + cbn [app accepted]. rewrite firstn_all, I2. reflexivity.
    + cbn [app]. unfold sock_closed in *. cbn [existsb]. exact I3.
Qed.

Lemma drains k ops s evs1 kk :
  run (fixed k) init ops = (Open s, evs1) ->
  Forall (fun d => (N.of_nat (length d) <= kk)%N) (buf s) ->
  let r := run (fixed k) init (ops ++ repeat (Tick (Accept kk)) (length (buf s))) in
  fst r = (if closereq s then Closed else Open drained) /\
  accepted (snd r) = written ops /\
  sock_closed (snd r) = closereq s.
Proof.
  intros R HF. cbn zeta. rewrite run_app, R.
  destruct (run_fixed k ops _ inv_init) as (IO & _ & IL). fold init in IO, IL. rewrite R in IO, IL.
  cbn [fst snd close_last] in IO, IL.
  destruct (IO s eq_refl) as ([Hw Hc] & Hacc & _). cbn [buf concat app] in Hacc.
  destruct s as [b cr w]. cbn [buf closereq writing] in *.
  destruct b as [|d rest].
  - cbn [length repeat run nonempty] in *. subst w. destruct cr.
    + specialize (Hc eq_refl). discriminate.
    + cbn [fst snd]. rewrite ?app_nil_r in *. cbn [concat] in Hacc. rewrite ?app_nil_r in Hacc.
      repeat split; assumption.
  - cbn [nonempty] in Hw. subst w.
    pose proof (drains_aux k kk (d :: rest) cr HF ltac:(discriminate)) as D. cbn zeta in D.
    destruct (run (fixed k) (Open {| buf := d :: rest; closereq := cr; writing := true |})
                  (repeat (Tick (Accept kk)) (length (d :: rest)))) as [st2 e2].
    cbn [fst snd] in *. destruct D as (D1 & D2 & D3). split; [exact D1|]. split.
    + rewrite accepted_app, D2. exact Hacc.
    + rewrite sock_closed_app, IL, D3. reflexivity.
Qed.

(* every accepting send makes progress: the buffered amount (bytes + payloads) strictly decreases *)
Definition load (b : list (list N)) : nat := length (concat b) + length b.

Lemma progress k s kk s' :
  writing s = true -> buf s <> [] -> (1 <= kk)%N ->
  fst (step (fixed k) (Open s) (Tick (Accept kk))) = Open s' -> load (buf s') < load (buf s).
Proof.
  intros W B K. destruct s as [b cr w]. cbn [buf writing] in *. subst w.
  destruct b as [|d rest]; [contradiction|].
  cbn [step]. unfold tick. cbn [buf closereq writing negb].
  set (n := N.to_nat (N.min kk (N.of_nat (length d)))).
  assert (Hn : n <= length d) by apply accept_le.
  unfold after_write, set_buf. cbn [buf closereq writing].
  destruct (n <? length d) eqn:E.
  - cbn [fst]. intros E'. injection E' as <-. cbn [buf]. unfold load. cbn [concat length].
    rewrite !app_length, skipn_length. apply Nat.ltb_lt in E.
    assert (1 <= n). { subst n. destruct d; cbn [length] in *; lia. } lia.
  - destruct rest as [|d2 rest2].
    + destruct cr; cbn [fst]; intros E'; [discriminate|]. injection E' as <-. cbn [buf]. unfold load.
      cbn [concat length]. lia.
    + cbn [fst]. intros E'. injection E' as <-. cbn [buf]. unfold load. cbn [concat length].
      rewrite !app_length. lia.
Qed.

(* ---------------------------------------------------------------- the per-operation trace used by the
   correspondence check is the same run *)
Lemma last_default {A} (l : list A) : forall x d d', last (x :: l) d = last (x :: l) d'.
Proof. induction l as [|y l IH]; intros x d d'; [reflexivity|]. exact (IH y d d'). Qed.

Lemma trace_is_run p : forall ops st,
  concat (map fst (trace p st ops)) = snd (run p st ops) /\
  last (map snd (trace p st ops)) st = fst (run p st ops).
Proof.
  induction ops as [|o r IH]; intros st; cbn [trace run map concat last fst snd].
  - split; reflexivity.
  - destruct (step p st o) as [st1 e1]. specialize (IH st1).
    destruct (run p st1 r) as [st2 e2]. cbn [fst snd map concat] in *. destruct IH as [I1 I2].
    split; [rewrite I1; reflexivity|].
    destruct (trace p st1 r) as [|t ts] eqn:ET.
    + cbn [map last] in *. exact I2.
    + cbn [map] in *. rewrite <- I2. exact (last_default _ _ st st1).
Qed.

(* ---------------------------------------------------------------- the code before the patches *)

Definition lost_witness : list op :=
  [Write [1%N]; Write [2%N]; Tick (Refuse EAGAIN); Tick (Accept 5%N)].

Lemma legacy_client_loses :
  ~ exists rest, accepted (snd (run (legacy Client) init lost_witness)) ++ rest = written lost_witness.
Proof. vm_compute. intros [rest H]. discriminate H. Qed.

Lemma legacy_file_loses :
  ~ exists rest, accepted (snd (run (legacy File) init lost_witness)) ++ rest = written lost_witness.
Proof. vm_compute. intros [rest H]. discriminate H. Qed.

Definition reset_witness : list op :=
  [Write [1%N]; Write [2%N]; Tick (Refuse 104%N); Tick (Accept 5%N)].

Lemma legacy_client_gap :
  ~ exists rest, accepted (snd (run (legacy Client) init reset_witness)) ++ rest = written reset_witness.
Proof. vm_compute. intros [rest H]. discriminate H. Qed.

(* ---------------------------------------------------------------- data of the Examples in Props/C11.v *)
Definition ex_ops : list op :=
  [Write [1; 2; 3]%N; Write []; Write [4; 5]%N; Tick (Refuse EAGAIN); Tick (Accept 2); Close;
   Tick (Accept 9); Tick (Refuse EINTR); Tick (Accept 0); Tick (Accept 9); Write [6]%N; Tick (Accept 9)].
