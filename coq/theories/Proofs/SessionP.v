(* Proofs about Model/Session.v: a session id is bound to the fingerprint of the
   client it was served to; stored data only goes back to that fingerprint. *)
From Coq Require Import List NArith Bool.
From Circ Require Import Model.Auth Model.Session Proofs.AuthP.
Import ListNotations.
Open Scope N_scope.

(* uuid4().hex contains no '/' *)
Definition no_slash (u : str) : Prop := ~ In SLASH u.

Lemma split_at_app_gen : forall c u t, ~ In c u -> split_at c (u ++ c :: t) = Some (u, t).
Proof.
  intros c. induction u as [|x u IH]; intros t H; simpl.
  - rewrite N.eqb_refl. reflexivity.
  - destruct (x =? c) eqn:E.
    + apply N.eqb_eq in E. exfalso. apply H. left. exact E.
    + rewrite IH; [reflexivity|]. intro Hin. apply H. right. exact Hin.
Qed.

Lemma split_at_app : forall u t, no_slash u -> split_at SLASH (u ++ SLASH :: t) = Some (u, t).
Proof. intros u t H. apply split_at_app_gen. exact H. Qed.

(* an address (request.remote.ip) contains no '|' *)
Definition no_sep (s : str) : Prop := ~ In SEP s.

Lemma app_sep_inj : forall a1 b1 a2 b2, no_sep a1 -> no_sep a2 ->
  a1 ++ SEP :: b1 = a2 ++ SEP :: b2 -> a1 = a2 /\ b1 = b2.
Proof.
  intros a1 b1 a2 b2 H1 H2 E.
  pose proof (split_at_app_gen SEP a1 b1 H1) as S1. rewrite E in S1.
  rewrite (split_at_app_gen SEP a2 b2 H2) in S1. injection S1 as -> ->. split; reflexivity.
Qed.

(* the hash as an ideal fingerprint: the hypothesis under which "same fingerprint" means
   "same (address, agent) pair" *)
Definition injective (f : str -> str) : Prop := forall a b, f a = f b -> a = b.

Lemma lookup_set_key : forall (s : store) k k' d,
  lookup k (set_key k' d s) = if str_eqb k k' then Some d else lookup k s.
Proof.
  induction s as [|[k0 d0] s IH]; intros k k' d; simpl.
  - reflexivity.
  - destruct (str_eqb k' k0) eqn:E; simpl.
    + apply str_eqb_eq in E. subst k0. destruct (str_eqb k k'); reflexivity.
    + rewrite IH. destruct (str_eqb k k0) eqn:E0; [|reflexivity].
      destruct (str_eqb k k') eqn:E1; [|reflexivity].
      apply str_eqb_eq in E0. apply str_eqb_eq in E1. subst. rewrite str_eqb_refl in E. discriminate.
Qed.

Lemma lookup_del_key : forall (s : store) k k',
  lookup k (del_key k' s) = if str_eqb k k' then None else lookup k s.
Proof.
  induction s as [|[k0 d0] s IH]; intros k k'; simpl.
  - destruct (str_eqb k k'); reflexivity.
  - destruct (str_eqb k' k0) eqn:E; simpl.
    + rewrite IH. apply str_eqb_eq in E. subst k0. destruct (str_eqb k k'); reflexivity.
    + rewrite IH. destruct (str_eqb k k0) eqn:E0; [|reflexivity].
      destruct (str_eqb k k') eqn:E1; [|reflexivity].
      apply str_eqb_eq in E0. apply str_eqb_eq in E1. subst. rewrite str_eqb_refl in E. discriminate.
Qed.

Lemma lookup_In : forall (s : store) k d, lookup k s = Some d -> In (k, d) s.
Proof.
  induction s as [|[k0 d0] s IH]; intros k d H; simpl in *.
  - discriminate.
  - destruct (str_eqb k k0) eqn:E.
    + apply str_eqb_eq in E. injection H as ->. subst. left. reflexivity.
    + right. apply IH. exact H.
Qed.

Section P.
  Variable sha : str -> str.
  Notation who := (who sha).
  Notation create := (create sha).
  Notation serve := (serve sha).
  Notation step := (step sha).
  Notation run := (run sha).

  (* the store after a history *)
  Fixpoint final (s : store) (h : list (req * action * str)) : store :=
    match h with
    | [] => s
    | x :: t => final (fst (step s x)) t
    end.

  (* ---- which id a request is served *)

  (* either the presented cookie, whose part after the first '/' is the requester's own
     fingerprint, or a newly created id *)
  Lemma serve_cases : forall u r,
    serve u r = create u r \/
    (cookie r = Some (serve u r) /\ exists h, split_at SLASH (serve u r) = Some (h, who r)).
  Proof.
    intros u r. unfold Session.serve. destruct (cookie r) as [c|] eqn:C; [|left; reflexivity].
    unfold verify. destruct (split_at SLASH c) as [[h user]|] eqn:S; [|left; reflexivity].
    destruct (str_eqb user (who r)) eqn:E; [|left; reflexivity].
    apply str_eqb_eq in E. subst user. right. split; [reflexivity|]. exists h. exact S.
  Qed.

  Lemma served_suffix : forall u r, no_slash u ->
    exists h, split_at SLASH (serve u r) = Some (h, who r).
  Proof.
    intros u r Hu. destruct (serve_cases u r) as [H|[_ H]]; [|exact H].
    rewrite H. exists u. apply split_at_app. exact Hu.
  Qed.

  (* every pair of requests: the same id is only ever served to one fingerprint *)
  Lemma same_sid_same_fingerprint : forall u1 r1 u2 r2,
    no_slash u1 -> no_slash u2 -> serve u1 r1 = serve u2 r2 -> who r1 = who r2.
  Proof.
    intros u1 r1 u2 r2 H1 H2 E.
    destruct (served_suffix u1 r1 H1) as [h1 S1]. destruct (served_suffix u2 r2 H2) as [h2 S2].
    rewrite E in S1. rewrite S1 in S2. injection S2 as _ W. exact W.
  Qed.

  (* a request that does not present an id bound to its own fingerprint gets a new one *)
  Lemma others_get_new_id : forall u r,
    (forall c h, cookie r = Some c -> split_at SLASH c <> Some (h, who r)) ->
    serve u r = create u r.
  Proof.
    intros u r H. destruct (serve_cases u r) as [E|[C [h S]]]; [exact E|].
    exfalso. exact (H _ h C S).
  Qed.

  (* uuid freshness: no key of the store starts with the drawn uuid and a '/' *)
  Definition fresh (u : str) (s : store) : Prop :=
    forall k d, In (k, d) s -> forall t, k <> u ++ SLASH :: t.

  Lemma new_id_unused : forall u r s, fresh u s ->
    lookup (create u r) s = None /\ fst (load (create u r) s) = None.
  Proof.
    intros u r s F.
    assert (L : lookup (create u r) s = None).
    { destruct (lookup (create u r) s) as [d|] eqn:L; [|reflexivity].
      apply lookup_In in L. exfalso. exact (F _ _ L (who r) eq_refl). }
    split; [exact L|]. unfold load. rewrite L. reflexivity.
  Qed.

  (* ---- where stored data can come from *)

  Lemma step_out : forall s r a u,
    snd (step s (r, a, u)) = (serve u r, fst (load (serve u r) s)).
  Proof.
    intros s r a u. unfold Session.step. destruct (load (serve u r) s) as [d s1]. reflexivity.
  Qed.

  Lemma load_lookup : forall k s k' v,
    lookup k' (snd (load k s)) = Some (Some v) -> lookup k' s = Some (Some v).
  Proof.
    intros k s k' v. unfold load. destruct (lookup k s) eqn:L; simpl; [tauto|].
    rewrite lookup_set_key. destruct (str_eqb k' k); [discriminate|tauto].
  Qed.

  Lemma load_data : forall k s v, fst (load k s) = Some v -> lookup k s = Some (Some v).
  Proof.
    intros k s v. unfold load. destruct (lookup k s) as [d|] eqn:L; simpl; [intros ->; reflexivity|discriminate].
  Qed.

  Lemma step_store : forall s r a u k v,
    lookup k (fst (step s (r, a, u))) = Some (Some v) ->
    lookup k s = Some (Some v) \/ (a = Write v /\ serve u r = k).
  Proof.
    intros s r a u k v. unfold Session.step.
    pose proof (load_lookup (serve u r) s k v) as LL.
    destruct (load (serve u r) s) as [d s1]. simpl in *. destruct a as [|w|]; simpl.
    - intro H. left. apply LL. exact H.
    - rewrite lookup_set_key. destruct (str_eqb k (serve u r)) eqn:E.
      + intro H. injection H as ->. apply str_eqb_eq in E. right. split; [reflexivity|symmetry; exact E].
      + intro H. left. apply LL. exact H.
    - rewrite lookup_del_key. destruct (str_eqb k (serve u r)); [discriminate|].
      intro H. left. apply LL. exact H.
  Qed.

  Lemma store_provenance : forall h s k v,
    lookup k (final s h) = Some (Some v) ->
    lookup k s = Some (Some v) \/ exists r u, In (r, Write v, u) h /\ serve u r = k.
  Proof.
    induction h as [|[[r a] u] t IH]; intros s k v H; simpl in H.
    - left. exact H.
    - apply IH in H. destruct H as [H|(r' & u' & Hin & E)].
      + apply step_store in H. destruct H as [H|[-> E]]; [left; exact H|].
        right. exists r, u. split; [left; reflexivity|exact E].
      + right. exists r', u'. split; [right; exact Hin|exact E].
  Qed.

  Lemma run_nth : forall h1 s x h2,
    nth_error (run s (h1 ++ x :: h2)) (length h1) = Some (snd (step (final s h1) x)).
  Proof.
    induction h1 as [|y h1 IH]; intros s x h2; simpl.
    - destruct (step s x) as [s' o]. reflexivity.
    - destruct (step s y) as [s' o] eqn:E. simpl. rewrite IH. reflexivity.
  Qed.

  (* The binding theorem.  In any history started with an empty store, the request at any
     position is served [serve u r]; if its session carries stored data v, then v was written
     by an earlier request that was served the same id, and that request had the same client
     fingerprint.  *)
  Theorem session_binding : forall h1 r a u h2,
    Forall (fun x : req * action * str => no_slash (snd x)) (h1 ++ (r, a, u) :: h2) ->
    exists d,
      nth_error (run [] (h1 ++ (r, a, u) :: h2)) (length h1) = Some (serve u r, d) /\
      forall v, d = Some v ->
        exists r' u', In (r', Write v, u') h1 /\ serve u' r' = serve u r /\ who r' = who r.
  Proof.
    intros h1 r a u h2 F. rewrite run_nth, step_out. eexists. split; [reflexivity|].
    intros v D. apply load_data in D. apply store_provenance in D.
    destruct D as [D|(r' & u' & Hin & E)]; [discriminate|].
    exists r', u'. split; [exact Hin|]. split; [exact E|].
    rewrite Forall_forall in F.
    assert (Hu' : no_slash u'). { apply (F (r', Write v, u')). apply in_or_app. left. exact Hin. }
    assert (Hu : no_slash u). { apply (F (r, a, u)). apply in_or_app. right. left. reflexivity. }
    exact (same_sid_same_fingerprint u' r' u r Hu' Hu E).
  Qed.

  (* ... and the requester presented exactly that id, unless its uuid collided *)
  Theorem data_needs_cookie : forall h1 r a u h2 d,
    nth_error (run [] (h1 ++ (r, a, u) :: h2)) (length h1) = Some (serve u r, Some d) ->
    fresh u (final [] h1) ->
    cookie r = Some (serve u r).
  Proof.
    intros h1 r a u h2 d H F. rewrite run_nth, step_out in H. injection H as H.
    destruct (serve_cases u r) as [E|[C _]]; [|exact C].
    rewrite E in H. destruct (new_id_unused u r _ F) as [_ N]. rewrite N in H. discriminate.
  Qed.
  (* ---- the client as the (address, user agent) pair ---- *)

  (* no fingerprint collision: with an injective hash, two requests have the same fingerprint
     only if they come from the same address with the same user agent *)
  Lemma fingerprint_pair : injective sha -> forall r1 r2,
    no_sep (ip r1) -> no_sep (ip r2) -> who r1 = who r2 -> ip r1 = ip r2 /\ agent r1 = agent r2.
  Proof.
    intros I r1 r2 H1 H2 W. unfold Session.who in W. apply I in W.
    exact (app_sep_inj _ _ _ _ H1 H2 W).
  Qed.

  Lemma same_sid_same_client : injective sha -> forall u1 r1 u2 r2,
    no_slash u1 -> no_slash u2 -> no_sep (ip r1) -> no_sep (ip r2) ->
    serve u1 r1 = serve u2 r2 -> ip r1 = ip r2 /\ agent r1 = agent r2.
  Proof.
    intros I u1 r1 u2 r2 U1 U2 S1 S2 E. apply (fingerprint_pair I); try assumption.
    exact (same_sid_same_fingerprint u1 r1 u2 r2 U1 U2 E).
  Qed.

  Theorem session_binding_client : injective sha -> forall h1 r a u h2,
    Forall (fun x : req * action * str => no_slash (snd x) /\ no_sep (ip (fst (fst x))))
           (h1 ++ (r, a, u) :: h2) ->
    exists d,
      nth_error (run [] (h1 ++ (r, a, u) :: h2)) (length h1) = Some (serve u r, d) /\
      forall v, d = Some v ->
        exists r' u', In (r', Write v, u') h1 /\ serve u' r' = serve u r /\
                      ip r' = ip r /\ agent r' = agent r.
  Proof.
    intros I h1 r a u h2 F.
    assert (F' : Forall (fun x : req * action * str => no_slash (snd x)) (h1 ++ (r, a, u) :: h2)).
    { rewrite Forall_forall in *. intros x Hx. exact (proj1 (F x Hx)). }
    destruct (session_binding h1 r a u h2 F') as (d & Hn & Hd). exists d. split; [exact Hn|].
    intros v Dv. destruct (Hd v Dv) as (r' & u' & Hin & E & W). exists r', u'.
    split; [exact Hin|]. split; [exact E|].
    rewrite Forall_forall in F.
    assert (S' : no_sep (ip r')). { apply (F (r', Write v, u')). apply in_or_app. left. exact Hin. }
    assert (S : no_sep (ip r)). { apply (F (r, a, u)). apply in_or_app. right. left. reflexivity. }
    exact (fingerprint_pair I r' r S' S W).
  Qed.
End P.


Lemma others_fresh : forall sha u r s,
  (forall c h, cookie r = Some c -> split_at SLASH c <> Some (h, who sha r)) ->
  serve sha u r = create sha u r /\
  (fresh u s -> lookup (create sha u r) s = None /\ fst (load (create sha u r) s) = None).
Proof. intros sha u r s H. split; [apply others_get_new_id; exact H | apply new_id_unused]. Qed.

(* the separator-less fingerprint sha1(ip ++ agent) of the unrepaired code: two different
   (address, agent) pairs with one fingerprint, whatever the hash *)
Lemma concat_fingerprint_collides :
  exists ip1 a1 ip2 a2 : str, (ip1, a1) <> (ip2, a2) /\
    forall sha : str -> str, sha (ip1 ++ a1) = sha (ip2 ++ a2).
Proof.
  exists [49; 46; 49], [50; 85], [49; 46; 49; 50], [85]. split.
  - intro H. discriminate H.
  - intro sha. reflexivity.
Qed.
