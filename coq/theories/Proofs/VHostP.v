(* Proofs about Model/VHost.v: the trusted-gateway rule of VirtualHosts. *)
From Coq Require Import List NArith Bool.
From Circ Require Import Model.Auth Model.VHost Proofs.AuthP.
Import ListNotations.
Open Scope N_scope.

Lemma addr_eqb_eq : forall a b, addr_eqb a b = true <-> a = b.
Proof.
  intros [x|] [y|]; simpl; split; intro H; try reflexivity; try discriminate.
  - apply str_eqb_eq in H. subst. reflexivity.
  - injection H as ->. apply str_eqb_refl.
Qed.

Lemma mem_addr_In : forall x l, mem_addr x l = true <-> In x l.
Proof.
  intros x l. induction l as [|y l IH]; simpl.
  - split; [discriminate | tauto].
  - rewrite orb_true_iff, IH, addr_eqb_eq. split; intros [H|H]; auto.
Qed.

Definition set_xfh (r : vreq) (x : str) : vreq :=
  {| remote_ip := remote_ip r; host := host r; xfh := x; path := path r |}.

(* trusted, as the property words it *)
Definition is_trusted (tg : option (list (option str))) (ip : option str) : Prop :=
  match tg with None => True | Some l => In ip l end.

Lemma trusted_iff : forall tg r, trusted tg r = true <-> is_trusted tg (remote_ip r).
Proof.
  intros [l|] r; simpl.
  - apply mem_addr_In.
  - tauto.
Qed.

Section P.
  Variable urljoin : str -> str -> str.

  (* a request from an address outside the configured gateways is routed by its Host
     header alone: whatever X-Forwarded-Host it carries makes no difference *)
  Lemma untrusted_ignored : forall domains l r x,
    ~ In (remote_ip r) l ->
    on_request urljoin domains (Some l) (set_xfh r x) = on_request urljoin domains (Some l) r
    /\ domain (Some l) r = host r.
  Proof.
    intros domains l r x Hn.
    assert (Hf : forall y, mem_addr (remote_ip (set_xfh r y)) l = false).
    { intro y. simpl. destruct (mem_addr (remote_ip r) l) eqn:E; [|reflexivity].
      apply mem_addr_In in E. contradiction. }
    assert (Hr : mem_addr (remote_ip r) l = false) by (apply (Hf [])).
    unfold on_request, domain, trusted. rewrite Hf, Hr. simpl. split; reflexivity.
  Qed.

  (* the header decides the looked-up domain exactly when the sender is trusted
     (or no gateway list is configured) and the first entry is not blank *)
  Lemma domain_rule : forall tg r,
    (is_trusted tg (remote_ip r) /\ forwarded r <> [] -> domain tg r = forwarded r)
    /\ (~ (is_trusted tg (remote_ip r) /\ forwarded r <> []) -> domain tg r = host r).
  Proof.
    intros tg r. unfold domain. destruct (trusted tg r) eqn:T.
    - apply trusted_iff in T. split.
      + intros [_ Hne]. destruct (forwarded r); [contradiction Hne; reflexivity | reflexivity].
      + intro Hn. destruct (forwarded r) eqn:F; [reflexivity|].
        exfalso. apply Hn. split; [exact T | discriminate].
    - split.
      + intros [Ht _]. apply trusted_iff in Ht. rewrite Ht in T. discriminate.
      + reflexivity.
  Qed.

  Lemma influence_only_trusted : forall domains tg r x,
    on_request urljoin domains tg (set_xfh r x) <> on_request urljoin domains tg r ->
    is_trusted tg (remote_ip r).
  Proof.
    intros domains tg r x Hd. destruct tg as [l|]; simpl; [|exact I].
    destruct (mem_addr (remote_ip r) l) eqn:E; [apply mem_addr_In; exact E|].
    exfalso. apply Hd. apply untrusted_ignored. intro Hin. apply mem_addr_In in Hin. rewrite Hin in E. discriminate.
  Qed.
  (* a peer without an address (remote.ip = None: a UNIX-socket peer) is an ordinary untrusted
     sender unless the configured list names None itself *)
  Lemma addressless_untrusted : forall domains l r x,
    remote_ip r = None -> ~ In None l ->
    on_request urljoin domains (Some l) (set_xfh r x) = on_request urljoin domains (Some l) r
    /\ domain (Some l) r = host r.
  Proof.
    intros domains l r x Hn Hl. apply untrusted_ignored. rewrite Hn. exact Hl.
  Qed.
End P.

