(* Round trip  parsemsg (to_str m) = m  for canonical IRC messages, and a
   witness that the canonical hypothesis cannot be dropped. *)
From Coq Require Import List NArith Bool Lia.
From Circ Require Import Model.Irc Proofs.IrcP.
Import ListNotations.
Open Scope N_scope.

(* a token: non-empty, no whitespace code point (is_ws), does not start with ':' *)
Definition tok (s : list N) : Prop :=
  s <> [] /\ Forall (fun c => is_ws c = false) s /\ starts_colon s = false.
(* last argument: either a token, or contains a space and does not start with ':' *)
Definition last_ok (s : list N) : Prop :=
  tok s \/ (mem SP s = true /\ starts_colon s = false).
Definition canonical (m : msg) : Prop :=
  tok (command m) /\
  match rev (args m) with
  | [] => True
  | l :: front_rev => last_ok l /\ Forall tok front_rev
  end.

(* ---------- space-free strings ---------- *)

Definition nosp (s : list N) : Prop := Forall (fun c => (c =? SP) = false) s.

Lemma is_ws_SP : is_ws SP = true.
Proof. reflexivity. Qed.

Lemma mem_nosp s : mem SP s = false -> nosp s.
Proof.
  unfold mem. intros H. apply existsb_false_Forall in H.
  eapply Forall_impl; [|exact H]. cbv beta. intros c Hc. now rewrite N.eqb_sym.
Qed.

Lemma nows_nosp s : Forall (fun c => is_ws c = false) s -> nosp s.
Proof.
  apply Forall_impl. intros c Hc. destruct (N.eqb_spec c SP) as [->|]; [|reflexivity].
  rewrite is_ws_SP in Hc. discriminate.
Qed.

Lemma tok_nosp t : tok t -> nosp t.
Proof. intros (_ & H & _). now apply nows_nosp. Qed.

Lemma nosp_mem s : nosp s -> mem SP s = false.
Proof.
  induction 1 as [|c s Hc Hs IH]; [reflexivity|].
  unfold mem in *. cbn [existsb]. rewrite N.eqb_sym, Hc, IH. reflexivity.
Qed.

Lemma rev_ne {A} (t cur : list A) : t <> [] -> rev t ++ cur <> [].
Proof.
  intros Hne E. apply app_eq_nil in E as [E _].
  apply (f_equal (@rev A)) in E. rewrite rev_involutive in E. exact (Hne E).
Qed.

Lemma starts_colon_app s r : s <> [] -> starts_colon (s ++ r) = starts_colon s.
Proof. destruct s; [contradiction|reflexivity]. Qed.

(* ---------- join / mark_last ---------- *)

Lemma join_cons sep x ts : ts <> [] -> join sep (x :: ts) = x ++ sep ++ join sep ts.
Proof. destruct ts; [contradiction|reflexivity]. Qed.

Lemma join_snoc sep ts x : ts <> [] -> join sep (ts ++ [x]) = join sep ts ++ sep ++ x.
Proof.
  induction ts as [|t ts IH]; [contradiction|]. intros _.
  destruct ts as [|t2 ts]; [reflexivity|].
  change ((t :: t2 :: ts) ++ [x]) with (t :: ((t2 :: ts) ++ [x])).
  rewrite join_cons by discriminate. rewrite IH by discriminate.
  rewrite (join_cons sep t (t2 :: ts)) by discriminate.
  now rewrite <- !app_assoc.
Qed.

Lemma join_head t ts : tok t ->
  exists d rest, join [SP] (t :: ts) = d :: rest /\ (d =? COLON) = false.
Proof.
  intros (Hne & _ & Hc). destruct t as [|d t]; [contradiction|].
  exists d. destruct ts as [|t2 ts]; cbn [join app]; eexists; (split; [reflexivity|exact Hc]).
Qed.

Lemma mark_last_snoc front l :
  mark_last (front ++ [l]) =
  front ++ [if mem SP l && negb (starts_colon l) then COLON :: l else l].
Proof.
  induction front as [|a f IH].
  - cbn [app mark_last]. destruct (mem SP l && negb (starts_colon l)); reflexivity.
  - change ((a :: f) ++ [l]) with (a :: (f ++ [l])).
    destruct (f ++ [l]) as [|y r] eqn:E; [destruct f; discriminate|].
    change (mark_last (a :: y :: r)) with (a :: mark_last (y :: r)).
    rewrite IH. reflexivity.
Qed.

(* ---------- split(' ', 1) ---------- *)

Lemma split_sp_walk p : nosp p -> forall cur r,
  split_sp cur (p ++ SP :: r) = Some (rev cur ++ p, r).
Proof.
  induction 1 as [|c p Hc Hp IH]; intros cur r.
  - cbn [app split_sp]. rewrite N.eqb_refl. now rewrite app_nil_r.
  - cbn [app split_sp]. rewrite Hc, IH. cbn [rev]. now rewrite <- app_assoc.
Qed.

(* ---------- split(' :', 1) ---------- *)

Lemma spc_step c cur t : (c =? SP) = false ->
  split_spcolon cur (c :: t) = split_spcolon (c :: cur) t.
Proof.
  intros H. destruct t as [|d t]; [reflexivity|].
  change (split_spcolon cur (c :: d :: t))
    with (if (c =? SP) && (d =? COLON) then Some (rev cur, t)
          else split_spcolon (c :: cur) (d :: t)).
  rewrite H. reflexivity.
Qed.

Lemma spc_walk t : nosp t -> forall cur s,
  split_spcolon cur (t ++ s) = split_spcolon (rev t ++ cur) s.
Proof.
  induction 1 as [|c t Hc Ht IH]; intros cur s; [reflexivity|].
  cbn [app rev]. rewrite spc_step by exact Hc. rewrite IH. now rewrite <- app_assoc.
Qed.

Lemma spc_at_sp cur d r :
  split_spcolon cur (SP :: d :: r) =
  if d =? COLON then Some (rev cur, r) else split_spcolon (SP :: cur) (d :: r).
Proof. reflexivity. Qed.

(* no ' :' inside a space-joined sequence of tokens *)
Lemma spc_none ts : Forall tok ts -> forall cur, split_spcolon cur (join [SP] ts) = None.
Proof.
  induction 1 as [|t ts Ht Hts IH]; intros cur; [reflexivity|].
  destruct ts as [|t2 ts].
  - cbn [join]. rewrite <- (app_nil_r t). rewrite spc_walk by now apply tok_nosp.
    reflexivity.
  - rewrite join_cons by discriminate. change ([SP] ++ join [SP] (t2 :: ts))
      with (SP :: join [SP] (t2 :: ts)).
    rewrite spc_walk by now apply tok_nosp.
    inversion Hts as [|? ? Ht2 _]; subst.
    destruct (join_head t2 ts Ht2) as (d & rest & E & Hd).
    specialize (IH (SP :: rev t ++ cur)). rewrite E in *.
    rewrite spc_at_sp, Hd. exact IH.
Qed.

Lemma spc_none_trailing_sp t cur : nosp t -> split_spcolon cur (t ++ [SP]) = None.
Proof. intros H. rewrite spc_walk by exact H. reflexivity. Qed.

(* the first ' :' after a space-joined sequence of tokens is the one that follows it *)
Lemma spc_found ts l : Forall tok ts -> ts <> [] -> forall cur,
  split_spcolon cur (join [SP] ts ++ SP :: COLON :: l) = Some (rev cur ++ join [SP] ts, l).
Proof.
  induction 1 as [|t ts Ht Hts IH]; intros Hne cur; [contradiction|].
  destruct ts as [|t2 ts].
  - cbn [join]. rewrite spc_walk by now apply tok_nosp. rewrite spc_at_sp.
    rewrite N.eqb_refl. rewrite rev_app_distr, rev_involutive. reflexivity.
  - rewrite join_cons by discriminate.
    change ([SP] ++ join [SP] (t2 :: ts)) with (SP :: join [SP] (t2 :: ts)).
    rewrite <- (app_assoc t). rewrite spc_walk by now apply tok_nosp.
    inversion Hts as [|? ? Ht2 _]; subst.
    destruct (join_head t2 ts Ht2) as (d & rest & E & Hd).
    specialize (IH ltac:(discriminate) (SP :: rev t ++ cur)). rewrite E in *.
    cbn [app] in *. rewrite spc_at_sp, Hd, IH. cbn [rev].
    rewrite rev_app_distr, rev_involutive. rewrite <- !app_assoc. reflexivity.
Qed.

(* ---------- str.split() ---------- *)

Lemma ws_walk t : Forall (fun c => is_ws c = false) t -> forall cur s,
  ws_split_aux cur (t ++ s) = ws_split_aux (rev t ++ cur) s.
Proof.
  induction 1 as [|c t Hc Ht IH]; intros cur s; [reflexivity|].
  cbn [app rev ws_split_aux]. rewrite Hc, IH. now rewrite <- app_assoc.
Qed.

Lemma ws_flush_nil cur : cur <> [] -> ws_split_aux cur [] = [rev cur].
Proof. destruct cur; [contradiction|reflexivity]. Qed.

Lemma ws_flush_sp cur s : cur <> [] ->
  ws_split_aux cur (SP :: s) = rev cur :: ws_split_aux [] s.
Proof. destruct cur; [contradiction|reflexivity]. Qed.

Lemma ws_join ts : Forall tok ts -> ws_split (join [SP] ts) = ts.
Proof.
  unfold ws_split. induction 1 as [|t ts Ht Hts IH]; [reflexivity|].
  destruct Ht as (Hne & Hws & _).
  destruct ts as [|t2 ts].
  - cbn [join]. rewrite <- (app_nil_r t) at 1. rewrite ws_walk by exact Hws.
    rewrite ws_flush_nil by now apply rev_ne. now rewrite app_nil_r, rev_involutive.
  - rewrite join_cons by discriminate.
    change ([SP] ++ join [SP] (t2 :: ts)) with (SP :: join [SP] (t2 :: ts)).
    rewrite ws_walk by exact Hws. rewrite ws_flush_sp by now apply rev_ne.
    rewrite IH. now rewrite app_nil_r, rev_involutive.
Qed.

(* what serialising a message without arguments produces *)
Lemma ws_tok_trailing_sp t : tok t -> ws_split (t ++ [SP]) = [t].
Proof.
  intros (Hne & Hws & _). unfold ws_split. rewrite ws_walk by exact Hws.
  rewrite ws_flush_sp by now apply rev_ne. now rewrite app_nil_r, rev_involutive.
Qed.

(* ---------- parsemsg, factored ---------- *)

Definition parse_args (r : list N) : list (list N) :=
  match split_spcolon [] r with
  | Some (front, trailing) => ws_split front ++ [trailing]
  | None => ws_split r
  end.

Definition finish (p : list N) (a : list (list N)) : parsed :=
  match a with [] => POk p None [] | c :: rest => POk p (Some c) rest end.

Lemma parsemsg_noprefix s : starts_colon s = false ->
  parsemsg s = finish [] (parse_args s).
Proof.
  intros H. destruct s as [|c s]; [reflexivity|].
  change (starts_colon (c :: s)) with (c =? COLON) in H.
  unfold parsemsg. rewrite H. reflexivity.
Qed.

Lemma parsemsg_prefix p r : nosp p ->
  parsemsg (COLON :: p ++ SP :: r) = finish p (parse_args r).
Proof.
  intros H. unfold parsemsg. rewrite N.eqb_refl.
  rewrite (split_sp_walk p H). reflexivity.
Qed.

Lemma parse_args_ok cmd al : tok cmd ->
  match rev al with
  | [] => True
  | l :: front_rev => last_ok l /\ Forall tok front_rev
  end ->
  parse_args (cmd ++ [SP] ++ join [SP] (mark_last al)) = cmd :: al.
Proof.
  intros Hcmd Hal. destruct (rev al) as [|l fr] eqn:E;
    apply (f_equal (@rev _)) in E; rewrite rev_involutive in E; cbn [rev] in E; subst al.
  - (* no arguments:  "CMD " *)
    cbn [mark_last join]. rewrite app_nil_r. unfold parse_args.
    rewrite spc_none_trailing_sp by now apply tok_nosp.
    now apply ws_tok_trailing_sp.
  - destruct Hal as (Hl & Hfr). apply Forall_rev in Hfr.
    set (front := rev fr) in *. clearbody front. clear fr.
    rewrite mark_last_snoc.
    assert (J : forall x, cmd ++ [SP] ++ join [SP] (front ++ [x])
                          = join [SP] ((cmd :: front) ++ [x])).
    { intros x. change ((cmd :: front) ++ [x]) with (cmd :: (front ++ [x])).
      rewrite join_cons; [reflexivity|]. destruct front; discriminate. }
    rewrite J.
    assert (Hall : Forall tok (cmd :: front)) by (constructor; assumption).
    destruct Hl as [Hl | (Hsp & Hcol)].
    + (* last argument is a token: no ' :' anywhere *)
      rewrite (nosp_mem l) by now apply tok_nosp. cbn [andb].
      assert (Hall' : Forall tok ((cmd :: front) ++ [l])).
      { apply Forall_app. split; [exact Hall|]. constructor; [exact Hl|constructor]. }
      unfold parse_args. rewrite spc_none by exact Hall'.
      now apply ws_join.
    + (* last argument with spaces: emitted as " :" ++ l *)
      rewrite Hsp, Hcol. cbn [andb negb].
      rewrite join_snoc by discriminate.
      change ([SP] ++ COLON :: l) with (SP :: COLON :: l).
      unfold parse_args. rewrite spc_found by (exact Hall || discriminate).
      cbn [rev app]. rewrite ws_join by exact Hall. reflexivity.
Qed.

(* ---------- round trip ---------- *)

Theorem roundtrip m b : to_str m = Some b -> canonical m ->
  exists body, b = body ++ [13; 10] /\
    parsemsg body = POk (match prefix m with Some p => p | None => [] end)
                        (Some (command m)) (args m).
Proof.
  unfold to_str. destruct (check_args m) eqn:C; [|discriminate].
  intros [= <-] (Hcmd & Hargs).
  set (R := command m ++ [SP] ++ join [SP] (mark_last (args m))).
  exists ((match prefix m with Some p => COLON :: p ++ [SP] | None => [] end) ++ R).
  split; [unfold R; now rewrite <- !app_assoc|].
  assert (HR : parse_args R = command m :: args m) by now apply parse_args_ok.
  unfold check_args, head_parts in C.
  destruct (prefix m) as [p|].
  - apply andb_prop in C as [C _]. apply andb_prop in C as [_ C].
    apply negb_true_iff in C. cbn [existsb] in C.
    apply orb_false_iff in C as [_ C]. apply orb_false_iff in C as [C _].
    apply mem_nosp in C.
    change ((COLON :: p ++ [SP]) ++ R) with (COLON :: (p ++ [SP]) ++ R).
    rewrite <- app_assoc. change ([SP] ++ R) with (SP :: R).
    rewrite parsemsg_prefix by exact C. rewrite HR. reflexivity.
  - change ([] ++ R) with R.
    rewrite parsemsg_noprefix.
    + rewrite HR. reflexivity.
    + unfold R. destruct Hcmd as (Hne & _ & Hc).
      rewrite starts_colon_app by exact Hne. exact Hc.
Qed.

(* the canonical hypothesis is needed: to_str accepts a final argument that
   starts with ':' and emits it unchanged; parsemsg re-reads it as a trailing
   parameter and drops the colon  (PRIVMSG a :x  ->  args ["a"; "x"]) *)
Theorem roundtrip_refuted : exists m b body,
  to_str m = Some b /\ b = body ++ [13; 10] /\
  parsemsg body <> POk (match prefix m with Some p => p | None => [] end)
                       (Some (command m)) (args m).
Proof.
  exists {| command := [80; 82; 73; 86; 77; 83; 71]; prefix := None;
            args := [[97]; [58; 120]] |}.
  exists [80; 82; 73; 86; 77; 83; 71; 32; 97; 32; 58; 120; 13; 10].
  exists [80; 82; 73; 86; 77; 83; 71; 32; 97; 32; 58; 120].
  split; [vm_compute; reflexivity|]. split; [reflexivity|].
  vm_compute. discriminate.
Qed.
