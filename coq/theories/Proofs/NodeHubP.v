(* C19: several connections on one called side are independent copies of the single-connection model
   (Model/NodeProto.v, Section Hub), and the pre-fix behaviour (every Protocol answers) is not. *)
From Coq Require Import List NArith ZArith Bool Lia.
From Circ Require Import Model.NodeProto Proofs.NodeProtoP Proofs.NodeEndToEndP.
Import ListNotations.

Section HubP.
  Variable excl : list (list N).
  Variable dumps : json -> option (list N).
  Variable loads : list N -> option (option json).
  Variable D : list N.
  Variables fw_send fw_recv : event -> bool.
  Variable handler : event -> hres.
  Variable b_chan : nat -> json.
  Variable n : nat.

  Notation hstp := (hstep excl dumps loads D fw_send fw_recv handler b_chan n).
  Notation stp c := (step excl dumps loads D fw_send fw_recv handler (b_chan c)).

  (* a step on connection c is the single-connection step on c's state ... *)
  Lemma hstep_own : forall legacy h c o, hstp legacy h (c, o) c = stp c (h c) o.
  Proof. intros. cbn [hstep]. rewrite Nat.eqb_refl. reflexivity. Qed.

  (* ... and (after the fix) leaves every other connection - state, wires, log, calls - as it was *)
  Lemma hstep_frame : forall h c o c', c' <> c -> hstp false h (c, o) c' = h c'.
  Proof.
    intros h c o c' H. cbn [hstep]. destruct (Nat.eqb c' c) eqn:E; [apply Nat.eqb_eq in E; contradiction|].
    reflexivity.
  Qed.

  Lemma ops_of_cons : forall c c0 o r,
    ops_of c ((c0, o) :: r) = if Nat.eqb c0 c then o :: ops_of c r else ops_of c r.
  Proof. intros. unfold ops_of. cbn [filter fst]. destruct (Nat.eqb c0 c); reflexivity. Qed.

  (* the hub run, seen on one connection, is the single-connection run of that connection's steps *)
  Lemma hub_proj : forall sched h c,
    fold_left (hstp false) sched h c = fold_left (stp c) (ops_of c sched) (h c).
  Proof.
    induction sched as [|[c0 o] r IH]; intros h c; [reflexivity|].
    cbn [fold_left]. rewrite IH, ops_of_cons.
    destruct (Nat.eqb c0 c) eqn:E.
    - apply Nat.eqb_eq in E. subst c0. cbn [fold_left]. rewrite hstep_own. reflexivity.
    - rewrite hstep_frame; [reflexivity|]. intros ->. rewrite Nat.eqb_refl in E. discriminate.
  Qed.

  Theorem hub_independent : forall sched c,
    hrun excl dumps loads D fw_send fw_recv handler b_chan n false sched c
    = exec excl dumps loads D fw_send fw_recv handler (b_chan c) (ops_of c sched).
  Proof. intros. unfold hrun, exec. rewrite hub_proj. reflexivity. Qed.

End HubP.

Lemma honest_ops_of : forall sched c, Forall (fun co => honest_op (snd co)) sched ->
  Forall honest_op (ops_of c sched).
Proof.
  intros sched c H. unfold ops_of. apply Forall_forall. intros o Ho.
  apply in_map_iff in Ho. destruct Ho as [co [<- Hin]]. apply filter_In in Hin.
  rewrite Forall_forall in H. apply H. tauto.
Qed.

(* C19_end_to_end on every connection of a hub *)
Theorem hub_end_to_end :
  forall excl dumps loads fw_send fw_recv handler (b_chan : nat -> json) n ser, json_laws dumps loads ser ->
  forall sched, Forall (fun co => honest_op (snd co)) sched ->
  forall c,
  let s := hrun excl dumps loads DELIM fw_send fw_recv handler b_chan n false sched c in
  let sends := sends_of (ops_of c sched) in
  wab s = [] -> wba s = [] ->
  b_log s = flat_map (logof excl fw_recv handler (b_chan c)) (filter fw_send (map fst sends))
  /\ a_calls s = map (exp1 excl fw_send fw_recv handler (b_chan c)) sends
  /\ a_buf s = [] /\ b_buf s = [] /\ bad s = false.
Proof.
  intros excl dumps loads fw_send fw_recv handler b_chan n ser L sched H c s sends. subst s sends.
  rewrite hub_independent.
  apply (end_to_end excl dumps loads fw_send fw_recv handler (b_chan c) ser L (ops_of c sched)).
  apply honest_ops_of. exact H.
Qed.

(* ------------------------------------------------------------------ concrete hubs *)
Module HubEx.
  Local Open Scope N_scope.
  Definition excl := Ex.excl.
  Definition ev (x : N) : event :=
    {| ename := [x]; eargs := []; ekwargs := []; esuccess := false; efailure := false; enotify := false;
       echannels := [JStr [42]]; eattrs := [] |}.
  Definition call_data (x : N) := event_data excl (ev x) (JInt 0%Z).
  Definition loaded (x : N) : event :=
    match load_event excl (call_data x) with Some (e, _) => e | None => ev x end.
  Definition reply_data (x : N) := value_data excl (JInt 0%Z) (JBool false) (JStr [x]) (loaded x).
  (* every connection's first call has id 0: the text of a packet depends on the event only *)
  Definition dumps (j : json) : option (list N) :=
    Some match j with
         | JObj o => match get k_name o with
                     | Some (JStr [x]) => [x]
                     | _ => match get k_value o with Some (JStr [x]) => [x + 100] | _ => [1] end
                     end
         | _ => [1]
         end.
  Definition loads (b : list N) : option (option json) :=
    match b with
    | [x] => if (97 <=? x) && (x <=? 99) then Some (Some (call_data x))
             else if (197 <=? x) && (x <=? 199) then Some (Some (reply_data (x - 100)))
             else Some None
    | _ => Some None
    end.
  Definition D : list N := [126; 126; 126].
  Definition handler (e : event) : hres := match ename e with [x] => HVal (JStr [x]) | _ => HNone end.
  Definition run (legacy : bool) (n : nat) (sched : list (nat * op)) : hub :=
    hrun excl dumps loads D (fun _ => true) (fun _ => true) handler (fun _ => JStr [110]) n legacy sched.

  (* two connections, a call with id 0 in flight on both (corpus/C19/result_to_caller_only.json) *)
  Definition two : list (nat * op) :=
    [(0, OSend (ev 97) MCall); (1, OSend (ev 98) MCall); (0, OAB 0); (1, OAB 0); (1, OBAP); (0, OBAP)]%nat.

  Lemma fixed_two : map c_val (a_calls (run false 2 two 0%nat)) = [JStr [97]]
                 /\ map c_val (a_calls (run false 2 two 1%nat)) = [JStr [98]].
  Proof. vm_compute. auto. Qed.

  (* before the fix: the answer to connection 0's call is also written on connection 1 and resumes the
     sender of connection 1's call (which asked for event 98) with the result of event 97 *)
  Lemma legacy_two : map c_val (a_calls (run true 2 two 1%nat)) = [JStr [97]]
                  /\ map c_fin (a_calls (run true 2 two 1%nat)) = [true]
                  /\ length (b_log (run true 2 two 1%nat)) = 1%nat.
  Proof. vm_compute. auto. Qed.

  Lemma legacy_refuted : exists sched c x y, x <> y
    /\ sends_of (ops_of c sched) = [(ev y, MCall)]
    /\ handler (ev y) = HVal (JStr [y])
    /\ map c_val (a_calls (run true 2 sched c)) = [JStr [x]]
    /\ map c_val (a_calls (run false 2 sched c)) = [JStr [y]].
  Proof.
    exists two, 1%nat, 97, 98.
    split; [discriminate|]. split; [reflexivity|]. split; [reflexivity|].
    split; [exact (proj1 legacy_two)|exact (proj2 fixed_two)].
  Qed.

  (* three connections, equal ids in flight, deliveries interleaved: everybody gets the own result *)
  Definition three : list (nat * op) :=
    [(2, OSend (ev 99) MCall); (0, OSend (ev 97) MCall); (1, OSend (ev 98) MCall);
     (1, OAB 1); (0, OAB 0); (2, OABP); (1, OAB 0); (0, OBA 2); (2, OBAP); (1, OBAP); (0, OBA 0)]%nat.

  Lemma fixed_three : forall c, In c [0; 1; 2]%nat ->
    map c_val (a_calls (run false 3 three c)) = [JStr [97 + N.of_nat c]]
    /\ map c_fin (a_calls (run false 3 three c)) = [true]
    /\ length (b_log (run false 3 three c)) = 1%nat
    /\ wab (run false 3 three c) = [] /\ wba (run false 3 three c) = [].
  Proof. intros c H. simpl in H. repeat (destruct H as [<-|H]; [vm_compute; auto 6|]). contradiction. Qed.
End HubEx.
