(* Proofs about Model/Auth.v: who counts as authenticated. *)
From Coq Require Import List NArith Bool.
From Circ Require Import Model.Auth.
Import ListNotations.
Open Scope N_scope.

Lemma str_eqb_eq : forall a b, str_eqb a b = true <-> a = b.
Proof.
  induction a as [|x a IH]; intros [|y b]; simpl; split; intro H; try reflexivity; try discriminate.
  - apply andb_true_iff in H. destruct H as [H1 H2]. apply N.eqb_eq in H1. apply IH in H2. subst. reflexivity.
  - injection H as H1 H2. subst. rewrite N.eqb_refl. simpl. apply IH. reflexivity.
Qed.

Lemma str_eqb_refl : forall a, str_eqb a a = true.
Proof. intro a. apply str_eqb_eq. reflexivity. Qed.

Lemma str_eqb_neq : forall a b, str_eqb a b = false <-> a <> b.
Proof.
  intros a b. split.
  - intros H E. apply str_eqb_eq in E. rewrite E in H. discriminate.
  - intro H. destruct (str_eqb a b) eqn:E; [|reflexivity]. apply str_eqb_eq in E. contradiction.
Qed.

Section P.
  Variable b64 : str -> option (list N).
  Variable utf8 : list N -> option str.
  Variable md5 : str -> option str.
  Variable keqv : str -> option params.
  Variable enc : str -> str -> option str.

  Notation check := (check_auth b64 utf8 md5 keqv enc).
  Notation parse := (parse_authorization b64 utf8 keqv).

  (* "carries Basic credentials that verify against the entry of u": the value is
     `<scheme> <b64>` with scheme = basic (any case), the decoded bytes are `user:password`,
     u has an entry and the (encoded) password equals that entry *)
  Definition basic_verifies (cred : str) (users : str -> option str) (u : str) : Prop :=
    exists scheme rest bytes ub pb p e,
      split_at SP cred = Some (scheme, rest) /\ lower scheme = s_basic /\
      b64 rest = Some bytes /\ split_at COLON bytes = Some (ub, pb) /\
      utf8 ub = Some u /\ utf8 pb = Some p /\
      users u = Some e /\ enc p u = Some e.

  (* "carries Digest credentials that verify against the entry of u for the realm":
     the parameter list has the required fields (and a coherent qop/nc/cnonce set), names u
     and the configured realm, u has an entry, and the presented response is the RFC 2617
     request-digest computed from that entry, the request method and the parameters *)
  Definition digest_verifies (cred method realm : str) (users : str -> option str) (u : str) : Prop :=
    exists scheme rest ps e resp,
      split_at SP cred = Some (scheme, rest) /\ lower scheme = s_digest /\
      keqv rest = Some ps /\ digest_valid ps = true /\ has s_auth_scheme ps = false /\
      lookup s_username ps = Some u /\ users u = Some e /\
      lookup s_realm ps = Some realm /\ lookup s_response ps = Some resp /\
      digest_response md5 ps e method = Some resp.

  Definition verifies (hdr : option str) (method realm : str) (users : str -> option str) (u : str) : Prop :=
    match hdr with
    | None => False
    | Some cred => basic_verifies cred users u \/ digest_verifies cred method realm users u
    end.

  Lemma parse_basic_inv : forall cred u p,
    parse cred = PBasic u p ->
    exists scheme rest bytes ub pb,
      split_at SP cred = Some (scheme, rest) /\ lower scheme = s_basic /\
      b64 rest = Some bytes /\ split_at COLON bytes = Some (ub, pb) /\
      utf8 ub = Some u /\ utf8 pb = Some p.
  Proof.
    intros cred u p H. unfold parse_authorization in H.
    destruct (split_at SP cred) as [[scheme rest]|] eqn:S; [|discriminate].
    destruct (str_eqb (lower scheme) s_basic) eqn:B.
    - apply str_eqb_eq in B.
      destruct (b64 rest) as [bytes|] eqn:D; [|discriminate].
      destruct (split_at COLON bytes) as [[ub pb]|] eqn:C; [|discriminate].
      destruct (utf8 ub) as [u'|] eqn:U1; [|discriminate].
      destruct (utf8 pb) as [p'|] eqn:U2; [|discriminate].
      injection H as -> ->. exists scheme, rest, bytes, ub, pb. repeat split; assumption.
    - destruct (str_eqb (lower scheme) s_digest); [|discriminate].
      destruct (keqv rest) as [ps|]; [|discriminate].
      destruct (digest_valid ps); [|discriminate].
      destruct (has s_auth_scheme ps); discriminate.
  Qed.

  Lemma parse_digest_inv : forall cred ps,
    parse cred = PDigest ps ->
    exists scheme rest,
      split_at SP cred = Some (scheme, rest) /\ lower scheme = s_digest /\
      keqv rest = Some ps /\ digest_valid ps = true /\ has s_auth_scheme ps = false.
  Proof.
    intros cred ps H. unfold parse_authorization in H.
    destruct (split_at SP cred) as [[scheme rest]|] eqn:S; [|discriminate].
    destruct (str_eqb (lower scheme) s_basic) eqn:B.
    - destruct (b64 rest) as [bytes|]; [|discriminate].
      destruct (split_at COLON bytes) as [[ub pb]|]; [|discriminate].
      destruct (utf8 ub); [|discriminate]. destruct (utf8 pb); discriminate.
    - destruct (str_eqb (lower scheme) s_digest) eqn:Dg; [|discriminate].
      apply str_eqb_eq in Dg.
      destruct (keqv rest) as [ps'|] eqn:K; [|discriminate].
      destruct (digest_valid ps') eqn:V; [|discriminate].
      destruct (has s_auth_scheme ps') eqn:A; [discriminate|].
      injection H as ->. exists scheme, rest. repeat split; assumption.
  Qed.

  Lemma parse_basic_intro : forall cred scheme rest bytes ub pb u p,
    split_at SP cred = Some (scheme, rest) -> lower scheme = s_basic ->
    b64 rest = Some bytes -> split_at COLON bytes = Some (ub, pb) ->
    utf8 ub = Some u -> utf8 pb = Some p -> parse cred = PBasic u p.
  Proof.
    intros cred scheme rest bytes ub pb u p S L D C U1 U2.
    unfold parse_authorization. rewrite S, L. simpl. rewrite D, C, U1, U2. reflexivity.
  Qed.

  Lemma parse_digest_intro : forall cred scheme rest ps,
    split_at SP cred = Some (scheme, rest) -> lower scheme = s_digest ->
    keqv rest = Some ps -> digest_valid ps = true -> has s_auth_scheme ps = false ->
    parse cred = PDigest ps.
  Proof.
    intros cred scheme rest ps S L K V A.
    unfold parse_authorization. rewrite S, L. simpl. rewrite K, V, A. reflexivity.
  Qed.

  (* the decision rule, both directions *)
  Theorem auth_sound : forall hdr method realm users u,
    check hdr method realm users = Authd u <-> verifies hdr method realm users u.
  Proof.
    intros hdr method realm users u. destruct hdr as [cred|]; simpl; [|split; [discriminate|tauto]].
    split.
    - intro H. destruct (parse cred) as [| |bu bp|ps] eqn:P; try discriminate.
      + destruct (users bu) as [entry|] eqn:L; [|discriminate].
        destruct (enc bp bu) as [e|] eqn:E; [|discriminate].
        destruct (str_eqb e entry) eqn:Q; [|discriminate].
        injection H as ->. apply str_eqb_eq in Q. subst e.
        apply parse_basic_inv in P. destruct P as (scheme & rest & bytes & ub & pb & S & Lw & D & C & U1 & U2).
        left. exists scheme, rest, bytes, ub, pb, bp, entry. repeat split; assumption.
      + destruct (lookup s_username ps) as [du|] eqn:Un; [|discriminate].
        destruct (users du) as [entry|] eqn:L; [|discriminate].
        destruct (lookup s_realm ps) as [r|] eqn:R; [|discriminate].
        destruct (lookup s_response ps) as [resp|] eqn:Rs; [|discriminate].
        destruct (str_eqb r realm) eqn:Q; simpl in H; [|discriminate].
        destruct (digest_response md5 ps entry method) as [x|] eqn:X; [|discriminate].
        destruct (str_eqb x resp) eqn:Q2; [|discriminate].
        injection H as ->. apply str_eqb_eq in Q. apply str_eqb_eq in Q2. subst.
        apply parse_digest_inv in P. destruct P as (scheme & rest & S & Lw & K & V & A).
        right. exists scheme, rest, ps, entry, resp. repeat split; assumption.
    - intros [H|H].
      + destruct H as (scheme & rest & bytes & ub & pb & p & e & S & Lw & D & C & U1 & U2 & L & E).
        rewrite (parse_basic_intro _ _ _ _ _ _ _ _ S Lw D C U1 U2). rewrite L, E, str_eqb_refl. reflexivity.
      + destruct H as (scheme & rest & ps & e & resp & S & Lw & K & V & A & Un & L & R & Rs & X).
        rewrite (parse_digest_intro _ _ _ _ S Lw K V A). rewrite Un, L, R, Rs, str_eqb_refl. simpl.
        rewrite X, str_eqb_refl. reflexivity.
  Qed.

  (* everything else is refused: the protected handler continues only for an entry of the table *)
  Corollary served_iff : forall hdr method realm users,
    protected_served (check hdr method realm users) = true <-> exists u, verifies hdr method realm users u.
  Proof.
    intros. split.
    - destruct (check hdr method realm users) as [u| |] eqn:E; simpl; try discriminate.
      intros _. exists u. apply auth_sound. exact E.
    - intros [u H]. apply auth_sound in H. rewrite H. reflexivity.
  Qed.

  Corollary authenticated_in_table : forall hdr method realm users u,
    check hdr method realm users = Authd u -> exists e, users u = Some e.
  Proof.
    intros hdr method realm users u H. apply auth_sound in H. destruct hdr as [cred|]; simpl in H; [|contradiction].
    destruct H as [H|H].
    - destruct H as (scheme & rest & bytes & ub & pb & p & e & _ & _ & _ & _ & _ & _ & L & _). exists e. exact L.
    - destruct H as (scheme & rest & ps & e & resp & _ & _ & _ & _ & _ & _ & L & _). exists e. exact L.
  Qed.

  (* a user without entry is never authenticated, whatever secret the client derives *)
  Corollary unknown_user_refused : forall hdr method realm users u,
    users u = None -> check hdr method realm users <> Authd u.
  Proof.
    intros hdr method realm users u L H. apply authenticated_in_table in H. destruct H as [e H].
    rewrite H in L. discriminate.
  Qed.

  (* a Digest parameter list that does not validate is refused, not waved through *)
  Corollary malformed_digest_refused : forall cred scheme rest ps method realm users,
    split_at SP cred = Some (scheme, rest) -> lower scheme = s_digest ->
    keqv rest = Some ps -> digest_valid ps = false ->
    check (Some cred) method realm users = Refused true.
  Proof.
    intros cred scheme rest ps method realm users S L K V. unfold check_auth, parse_authorization.
    rewrite S, L. simpl. rewrite K, V. reflexivity.
  Qed.

  (* Digest credentials naming another realm never authenticate *)
  Corollary digest_wrong_realm : forall cred scheme rest ps method realm users u,
    split_at SP cred = Some (scheme, rest) -> lower scheme = s_digest -> keqv rest = Some ps ->
    lookup s_realm ps <> Some realm ->
    check (Some cred) method realm users <> Authd u.
  Proof.
    intros cred scheme rest ps method realm users u S L K R H. apply auth_sound in H. simpl in H.
    destruct H as [H|H].
    - destruct H as (scheme' & rest' & bytes & ub & pb & p & e & S' & Lw & _).
      rewrite S in S'. injection S' as <- <-. rewrite L in Lw. discriminate.
    - destruct H as (scheme' & rest' & ps' & e & resp & S' & _ & K' & _ & _ & _ & _ & R' & _).
      rewrite S in S'. injection S' as <- <-. rewrite K in K'. injection K' as <-. contradiction.
  Qed.

  Lemma no_header : forall method realm users, check None method realm users = Refused false.
  Proof. reflexivity. Qed.

  (* unknown scheme / no space: an exception, never "authenticated" *)
  Lemma unknown_scheme : forall cred method realm users,
    (forall scheme rest, split_at SP cred = Some (scheme, rest) ->
        lower scheme <> s_basic /\ lower scheme <> s_digest) ->
    check (Some cred) method realm users = Crash.
  Proof.
    intros cred method realm users H. unfold check_auth, parse_authorization.
    destruct (split_at SP cred) as [[scheme rest]|] eqn:S; [|reflexivity].
    destruct (H scheme rest eq_refl) as [H1 H2].
    apply str_eqb_neq in H1. apply str_eqb_neq in H2. rewrite H1, H2. reflexivity.
  Qed.
  (* ---------------- the supported Digest variants, one by one ---------------- *)

  (* a header that parsed to Digest parameters ps, naming u (entry pw): authenticated iff the
     realm is the configured one and the presented response is digest_response *)
  Lemma check_digest_unfold : forall cred ps method realm users u pw prealm resp,
    parse cred = PDigest ps ->
    lookup s_username ps = Some u -> users u = Some pw ->
    lookup s_realm ps = Some prealm -> lookup s_response ps = Some resp ->
    (check (Some cred) method realm users = Authd u <->
       prealm = realm /\ digest_response md5 ps pw method = Some resp).
  Proof.
    intros cred ps method realm users u pw prealm resp P Un L R Rs.
    unfold check_auth. rewrite P, Un, L, R, Rs.
    destruct (str_eqb prealm realm) eqn:Q; simpl.
    - apply str_eqb_eq in Q. subst prealm.
      destruct (digest_response md5 ps pw method) as [x|] eqn:X.
      + destruct (str_eqb x resp) eqn:Q2.
        * apply str_eqb_eq in Q2. subst x. split; [intros _; split; reflexivity | reflexivity].
        * apply str_eqb_neq in Q2. split; [discriminate|]. intros [_ H]. injection H as H. contradiction.
      + split; [discriminate|]. intros [_ H]. discriminate.
    - apply str_eqb_neq in Q. split; [discriminate|]. intros [H _]. contradiction.
  Qed.

  Definition alg_md5 (ps : params) : Prop :=
    lookup s_algorithm ps = None \/ lookup s_algorithm ps = Some s_MD5.

  (* RFC 2069 compatible: no qop.  response = H( H(user:realm:pw) : nonce : H(method:uri) ) *)
  Lemma digest_response_legacy : forall ps pw method user prealm nonce uri,
    alg_md5 ps -> lookup s_qop ps = None ->
    lookup s_username ps = Some user -> lookup s_realm ps = Some prealm ->
    lookup s_nonce ps = Some nonce -> lookup s_uri ps = Some uri ->
    digest_response md5 ps pw method =
      match md5 (colon_join [method; uri]), md5 (colon_join [user; prealm; pw]) with
      | Some h2, Some h1 => md5 (colon_join [h1; colon_join [nonce; h2]])
      | _, _ => None
      end.
  Proof.
    intros ps pw method user prealm nonce uri A Q U R N Ur. unfold digest_response.
    rewrite Q, U, R, N, Ur. destruct A as [A|A]; rewrite A; simpl;
      destruct (md5 (colon_join [method; uri])); try reflexivity;
      destruct (md5 (colon_join [user; prealm; pw])); reflexivity.
  Qed.

  (* qop=auth, algorithm MD5:
     response = H( H(user:realm:pw) : nonce:nc:cnonce:auth : H(method:uri) ) *)
  Lemma digest_response_qop_auth : forall ps pw method user prealm nonce uri nc cn,
    alg_md5 ps -> lookup s_qop ps = Some s_auth ->
    lookup s_username ps = Some user -> lookup s_realm ps = Some prealm ->
    lookup s_nonce ps = Some nonce -> lookup s_uri ps = Some uri ->
    lookup s_nc ps = Some nc -> lookup s_cnonce ps = Some cn ->
    digest_response md5 ps pw method =
      match md5 (colon_join [method; uri]), md5 (colon_join [user; prealm; pw]) with
      | Some h2, Some h1 => md5 (colon_join [h1; colon_join [nonce; nc; cn; s_auth; h2]])
      | _, _ => None
      end.
  Proof.
    intros ps pw method user prealm nonce uri nc cn A Q U R N Ur Nc Cn. unfold digest_response.
    rewrite Q, U, R, N, Ur, Nc, Cn. destruct A as [A|A]; rewrite A; simpl;
      destruct (md5 (colon_join [method; uri])); try reflexivity;
      destruct (md5 (colon_join [user; prealm; pw])); reflexivity.
  Qed.

  (* algorithm=MD5-sess (qop=auth):  A1 = H(user:realm:pw) : nonce : cnonce,
     response = H( H(A1) : nonce:nc:cnonce:auth : H(method:uri) ) *)
  Lemma digest_response_md5_sess : forall ps pw method user prealm nonce uri nc cn,
    lookup s_algorithm ps = Some s_MD5_sess -> lookup s_qop ps = Some s_auth ->
    lookup s_username ps = Some user -> lookup s_realm ps = Some prealm ->
    lookup s_nonce ps = Some nonce -> lookup s_uri ps = Some uri ->
    lookup s_nc ps = Some nc -> lookup s_cnonce ps = Some cn ->
    digest_response md5 ps pw method =
      match md5 (colon_join [method; uri]), md5 (colon_join [user; prealm; pw]) with
      | Some h2, Some h =>
          match md5 (colon_join [h; nonce; cn]) with
          | Some h1 => md5 (colon_join [h1; colon_join [nonce; nc; cn; s_auth; h2]])
          | None => None
          end
      | _, _ => None
      end.
  Proof.
    intros ps pw method user prealm nonce uri nc cn A Q U R N Ur Nc Cn. unfold digest_response.
    rewrite A, Q, U, R, N, Ur, Nc, Cn.
    destruct (md5 (colon_join [method; uri])) as [h2|]; try reflexivity.
    destruct (md5 (colon_join [user; prealm; pw])) as [h|]; reflexivity.
  Qed.

  Theorem digest_legacy_iff : forall cred ps method realm users u pw prealm nonce uri resp,
    parse cred = PDigest ps -> alg_md5 ps -> lookup s_qop ps = None ->
    lookup s_username ps = Some u -> lookup s_realm ps = Some prealm ->
    lookup s_nonce ps = Some nonce -> lookup s_uri ps = Some uri ->
    lookup s_response ps = Some resp -> users u = Some pw ->
    (check (Some cred) method realm users = Authd u <->
       prealm = realm /\ exists h1 h2,
         md5 (colon_join [u; prealm; pw]) = Some h1 /\ md5 (colon_join [method; uri]) = Some h2 /\
         md5 (colon_join [h1; colon_join [nonce; h2]]) = Some resp).
  Proof.
    intros cred ps method realm users u pw prealm nonce uri resp P A Q U R N Ur Rs L.
    rewrite (check_digest_unfold _ _ _ _ _ _ _ _ _ P U L R Rs).
    rewrite (digest_response_legacy _ pw method _ _ _ _ A Q U R N Ur).
    split; intros [E H]; (split; [exact E|]).
    - destruct (md5 (colon_join [method; uri])) as [h2|]; [|discriminate].
      destruct (md5 (colon_join [u; prealm; pw])) as [h1|]; [|discriminate].
      exists h1, h2. repeat split. exact H.
    - destruct H as (h1 & h2 & H1 & H2 & H3). rewrite H2, H1. exact H3.
  Qed.

  Theorem digest_qop_auth_iff : forall cred ps method realm users u pw prealm nonce uri nc cn resp,
    parse cred = PDigest ps -> alg_md5 ps -> lookup s_qop ps = Some s_auth ->
    lookup s_username ps = Some u -> lookup s_realm ps = Some prealm ->
    lookup s_nonce ps = Some nonce -> lookup s_uri ps = Some uri ->
    lookup s_nc ps = Some nc -> lookup s_cnonce ps = Some cn ->
    lookup s_response ps = Some resp -> users u = Some pw ->
    (check (Some cred) method realm users = Authd u <->
       prealm = realm /\ exists h1 h2,
         md5 (colon_join [u; prealm; pw]) = Some h1 /\ md5 (colon_join [method; uri]) = Some h2 /\
         md5 (colon_join [h1; colon_join [nonce; nc; cn; s_auth; h2]]) = Some resp).
  Proof.
    intros cred ps method realm users u pw prealm nonce uri nc cn resp P A Q U R N Ur Nc Cn Rs L.
    rewrite (check_digest_unfold _ _ _ _ _ _ _ _ _ P U L R Rs).
    rewrite (digest_response_qop_auth _ pw method _ _ _ _ _ _ A Q U R N Ur Nc Cn).
    split; intros [E H]; (split; [exact E|]).
    - destruct (md5 (colon_join [method; uri])) as [h2|]; [|discriminate].
      destruct (md5 (colon_join [u; prealm; pw])) as [h1|]; [|discriminate].
      exists h1, h2. repeat split. exact H.
    - destruct H as (h1 & h2 & H1 & H2 & H3). rewrite H2, H1. exact H3.
  Qed.

  Theorem digest_md5_sess_iff : forall cred ps method realm users u pw prealm nonce uri nc cn resp,
    parse cred = PDigest ps -> lookup s_algorithm ps = Some s_MD5_sess -> lookup s_qop ps = Some s_auth ->
    lookup s_username ps = Some u -> lookup s_realm ps = Some prealm ->
    lookup s_nonce ps = Some nonce -> lookup s_uri ps = Some uri ->
    lookup s_nc ps = Some nc -> lookup s_cnonce ps = Some cn ->
    lookup s_response ps = Some resp -> users u = Some pw ->
    (check (Some cred) method realm users = Authd u <->
       prealm = realm /\ exists h h1 h2,
         md5 (colon_join [u; prealm; pw]) = Some h /\ md5 (colon_join [h; nonce; cn]) = Some h1 /\
         md5 (colon_join [method; uri]) = Some h2 /\
         md5 (colon_join [h1; colon_join [nonce; nc; cn; s_auth; h2]]) = Some resp).
  Proof.
    intros cred ps method realm users u pw prealm nonce uri nc cn resp P A Q U R N Ur Nc Cn Rs L.
    rewrite (check_digest_unfold _ _ _ _ _ _ _ _ _ P U L R Rs).
    rewrite (digest_response_md5_sess _ pw method _ _ _ _ _ _ A Q U R N Ur Nc Cn).
    split; intros [E H]; (split; [exact E|]).
    - destruct (md5 (colon_join [method; uri])) as [h2|]; [|discriminate].
      destruct (md5 (colon_join [u; prealm; pw])) as [h|]; [|discriminate].
      destruct (md5 (colon_join [h; nonce; cn])) as [h1|] eqn:E1; [|discriminate].
      exists h, h1, h2. repeat split; assumption.
    - destruct H as (h & h1 & h2 & H0 & H1 & H2 & H3). rewrite H2, H0, H1. exact H3.
  Qed.

  (* the variants _httpauth cannot compute are exceptions, never "authenticated":
     qop other than auth (auth-int needs kwargs['H']), algorithm other than MD5 / MD5-sess *)
  Lemma digest_unsupported : forall ps pw method,
    (exists q, lookup s_qop ps = Some q /\ q <> s_auth) \/
    (exists a, lookup s_algorithm ps = Some a /\ a <> s_MD5 /\ a <> s_MD5_sess) ->
    digest_response md5 ps pw method = None.
  Proof.
    intros ps pw method [[q [Q Hq]]|[a [A [H1 H2]]]]; unfold digest_response.
    - destruct (lookup s_algorithm ps) as [a|]; rewrite Q;
        try (destruct (str_eqb a s_MD5 || str_eqb a s_MD5_sess); simpl; [|reflexivity]);
        apply str_eqb_neq in Hq; rewrite Hq; reflexivity.
    - rewrite A. apply str_eqb_neq in H1. apply str_eqb_neq in H2. rewrite H1, H2. reflexivity.
  Qed.

  (* Basic against a table of pre-encrypted passwords: the presented password is passed through
     the configured encrypt and compared with the entry *)
  Theorem basic_encrypted_iff : forall cred method realm users u p,
    parse cred = PBasic u p ->
    (check (Some cred) method realm users = Authd u <-> exists e, users u = Some e /\ enc p u = Some e).
  Proof.
    intros cred method realm users u p P. unfold check_auth. rewrite P.
    destruct (users u) as [entry|].
    - destruct (enc p u) as [e|].
      + destruct (str_eqb e entry) eqn:Q.
        * apply str_eqb_eq in Q. subst. split; [intros _; exists entry; split; reflexivity | reflexivity].
        * apply str_eqb_neq in Q. split; [discriminate|].
          intros (e' & H1 & H2). injection H1 as <-. injection H2 as H2. contradiction.
      + split; [discriminate|]. intros (e' & _ & H). discriminate.
    - split; [discriminate|]. intros (e' & H & _). discriminate.
  Qed.
End P.


Lemma tools_served : forall b64 utf8 md5 keqv enc hdr method realm users,
  (protected_served (basic_auth b64 utf8 md5 keqv enc hdr method realm users) = true <->
     exists u, verifies b64 utf8 md5 keqv enc hdr method realm users u)
  /\ (protected_served (digest_auth b64 utf8 md5 keqv hdr method realm users) = true <->
     exists u, verifies b64 utf8 md5 keqv default_enc hdr method realm users u).
Proof. intros. split; apply served_iff. Qed.
