(* Proofs about Model/WaitChannels.v (C06, several awaited channels): one invariant over all step sequences. *)
From Coq Require Import List ZArith Bool Arith Lia.
From Circ Require Import Model.WaitChannels.
Import ListNotations.
Open Scope Z_scope.

Lemma chan_eqb_refl : forall c, chan_eqb c c = true.
Proof. intros [|n]; simpl; [reflexivity|apply Nat.eqb_refl]. Qed.

Lemma chans_eqb_refl : forall l, chans_eqb l l = true.
Proof.
  intro l. unfold chans_eqb. rewrite Nat.eqb_refl. simpl. induction l as [|c r IH]; simpl; [reflexivity|].
  rewrite chan_eqb_refl. exact IH.
Qed.

Lemma reached_nil : forall dcs, reached [] dcs = [].
Proof. induction dcs as [|d r IH]; simpl; [reflexivity|exact IH]. Qed.

Lemma reached_awaited : forall hs dcs, awaited hs dcs = true <-> reached hs dcs <> [].
Proof.
  intros hs dcs. unfold awaited, reached. induction dcs as [|d r IH]; simpl; [split; [discriminate|intro H; contradiction]|].
  destruct (existsb (fun c => cmatch c d) hs) eqn:E; simpl.
  - split; [|reflexivity]. intros _. apply existsb_exists in E. destruct E as [c [Hc Hm]].
    assert (In c (filter (fun h => cmatch h d) hs)) by (apply filter_In; auto).
    destruct (filter (fun h => cmatch h d) hs); [destruct H|discriminate].
  - assert (F : filter (fun h => cmatch h d) hs = []).
    { destruct (filter (fun h => cmatch h d) hs) as [|c l] eqn:F; [reflexivity|].
      assert (In c (filter (fun h => cmatch h d) hs)) by (rewrite F; left; reflexivity).
      apply filter_In in H. destruct H as [H1 H2].
      assert (existsb (fun c => cmatch c d) hs = true) by (apply existsb_exists; eauto). congruence. }
    rewrite F. simpl. exact IH.
Qed.

(* ---------------------------------------------------------------- the phases of a wait *)

Definition tmo_ok (s : wstate) : Prop :=
  (w_tmo0 s < 0 -> w_timeout s = w_tmo0 s) /\ (0 <= w_tmo0 s -> 0 <= w_timeout s).

Definition Armed (s : wstate) : Prop :=
  w_run s = false /\ w_flag s = false /\ w_event s = None /\ w_task_wait s = false /\ w_task_tmo s = false /\
  w_resumed s = O /\ w_thrown s = O /\ w_ev s = w_chans s /\ w_done s = w_chans s /\ w_tick s = (0 <=? w_tmo0 s) /\ tmo_ok s.
Definition Seen (s : wstate) : Prop :=
  w_run s = true /\ w_flag s = false /\ (exists e, w_event s = Some e) /\ w_task_wait s = false /\ w_task_tmo s = false /\
  w_resumed s = O /\ w_thrown s = O /\ w_ev s = [] /\ w_done s = w_chans s /\ w_tick s = (0 <=? w_tmo0 s) /\ tmo_ok s.
Definition Flagged (s : wstate) : Prop :=
  w_run s = true /\ w_flag s = true /\ (exists e, w_event s = Some e) /\ w_task_wait s = true /\ w_task_tmo s = false /\
  w_resumed s = O /\ w_thrown s = O /\ w_ev s = [] /\ w_done s = w_chans s /\ w_tick s = false.
Definition Expired (s : wstate) : Prop :=
  w_flag s = false /\ w_task_wait s = false /\ w_task_tmo s = true /\ (w_run s = false -> w_event s = None) /\
  w_resumed s = O /\ w_thrown s = O /\ w_ev s = [] /\ w_done s = [] /\ w_tick s = false.
Definition Resumed (s : wstate) : Prop :=
  w_run s = true /\ w_flag s = true /\ (exists e, w_event s = Some e) /\ w_task_wait s = false /\ w_task_tmo s = false /\
  w_resumed s = 1%nat /\ w_thrown s = O /\ w_ev s = [] /\ w_done s = [] /\ w_tick s = false.
Definition Thrown (s : wstate) : Prop :=
  w_flag s = false /\ w_task_wait s = false /\ w_task_tmo s = false /\ (w_run s = false -> w_event s = None) /\
  w_resumed s = O /\ w_thrown s = 1%nat /\ w_ev s = [] /\ w_done s = [] /\ w_tick s = false.

Definition Inv (s : wstate) : Prop :=
  w_crash s = false /\ (Armed s \/ Seen s \/ Flagged s \/ Expired s \/ Resumed s \/ Thrown s).

Lemma init_Inv : forall cs obj tmo, Inv (init cs obj tmo).
Proof.
  intros. split; [reflexivity|]. left. unfold Armed, tmo_ok, init. simpl. repeat split; auto; lia.
Qed.

(* folding the idempotent handlers *)
Lemma fold_id : forall (f : wstate -> wstate) (l : list chan) s, f s = s -> fold_left (fun s _ => f s) l s = s.
Proof. intros f l. induction l as [|c r IH]; intros s H; simpl; [reflexivity|]. rewrite H. apply IH. exact H. Qed.

Lemma fold_once : forall (f : wstate -> wstate) (l : list chan) s, l <> [] -> f (f s) = f s ->
  fold_left (fun s _ => f s) l s = f s.
Proof.
  intros f l s Hn Hi. destruct l as [|c r]; [contradiction|]. simpl. apply fold_id. exact Hi.
Qed.

Lemma on_event_run : forall eid s, w_run s = true -> on_event eid s = s.
Proof. intros eid s H. unfold on_event. rewrite H. reflexivity. Qed.

Lemma on_event_armed : forall eid s, Armed s -> obj_ok (w_obj s) eid = true ->
  let s' := on_event eid s in
  Seen s' /\ w_event s' = Some eid /\ w_crash s' = w_crash s /\ w_chans s' = w_chans s /\ w_obj s' = w_obj s /\ w_tmo0 s' = w_tmo0 s.
Proof.
  intros eid s [A1 [A2 [A3 [A4 [A5 [A6 [A7 [A8 [A9 [A10 A11]]]]]]]]]] Ob. unfold on_event. rewrite A1, Ob. simpl.
  rewrite A8, chans_eqb_refl. unfold Seen, tmo_ok. simpl. repeat split; auto; try (eexists; reflexivity); apply A11.
Qed.

Lemma on_event_noobj : forall eid s, obj_ok (w_obj s) eid = false -> on_event eid s = s.
Proof. intros eid s H. unfold on_event. rewrite H, andb_false_r. reflexivity. Qed.

Lemma on_done_other : forall eid s, (w_event s <> Some eid \/ w_flag s = true) -> on_done eid s = s.
Proof.
  intros eid s H. unfold on_done. destruct (w_event s) as [e|] eqn:E; [|reflexivity].
  destruct (Nat.eqb e eid) eqn:Q; [|reflexivity]. apply Nat.eqb_eq in Q. subst e.
  destruct H as [H|H]; [congruence|]. rewrite H. reflexivity.
Qed.

Lemma on_done_seen : forall eid s, Seen s -> w_event s = Some eid ->
  let s' := on_done eid s in
  Flagged s' /\ w_crash s' = w_crash s /\ w_event s' = Some eid /\ w_chans s' = w_chans s /\ w_tmo0 s' = w_tmo0 s.
Proof.
  intros eid s [A1 [A2 [A3 [A4 [A5 [A6 [A7 [A8 [A9 [A10 [T1 T2]]]]]]]]]]] Ev. unfold on_done. rewrite Ev, Nat.eqb_refl, A2. simpl.
  unfold Flagged. simpl. split.
  - repeat split; auto; try (eexists; reflexivity).
    destruct (0 <=? w_timeout s) eqn:Q; [reflexivity|]. apply Z.leb_gt in Q. rewrite A10.
    destruct (0 <=? w_tmo0 s) eqn:R; [apply Z.leb_le in R; specialize (T2 R); lia|reflexivity].
  - split; [|auto]. destruct (0 <=? w_timeout s) eqn:Q; [|apply orb_false_r].
    apply Z.leb_le in Q. rewrite A10. destruct (0 <=? w_tmo0 s) eqn:R; [simpl; apply orb_false_r|].
    apply Z.leb_gt in R. specialize (T1 R). lia.
Qed.

(* ---------------------------------------------------------------- every step keeps the invariant *)

Lemma step_frame : forall s x, w_chans (do_step s x) = w_chans s /\ w_obj (do_step s x) = w_obj s /\ w_tmo0 (do_step s x) = w_tmo0 s.
Proof.
  assert (Fe : forall eid s, w_chans (on_event eid s) = w_chans s /\ w_obj (on_event eid s) = w_obj s /\ w_tmo0 (on_event eid s) = w_tmo0 s).
  { intros. unfold on_event. destruct (negb (w_run s) && obj_ok (w_obj s) eid); [|auto]. destruct (chans_eqb _ _); simpl; auto. }
  assert (Fd : forall eid s, w_chans (on_done eid s) = w_chans s /\ w_obj (on_done eid s) = w_obj s /\ w_tmo0 (on_done eid s) = w_tmo0 s).
  { intros. unfold on_done. destruct (_ && _); simpl; auto. }
  assert (Ff : forall (f : wstate -> wstate) (l : list chan) s,
             (forall s, w_chans (f s) = w_chans s /\ w_obj (f s) = w_obj s /\ w_tmo0 (f s) = w_tmo0 s) ->
             w_chans (fold_left (fun s _ => f s) l s) = w_chans s /\ w_obj (fold_left (fun s _ => f s) l s) = w_obj s /\
             w_tmo0 (fold_left (fun s _ => f s) l s) = w_tmo0 s).
  { intros f l. induction l as [|c r IH]; intros s H; simpl; [auto|]. destruct (IH (f s) H) as [a [b c']]. destruct (H s) as [d [e g]].
    repeat split; congruence. }
  intros s x. destruct x as [eid dcs|eid dcs| |]; simpl.
  - apply Ff. intro. apply Fe.
  - apply Ff. intro. apply Fd.
  - destruct (w_tick s); [|auto]. unfold on_tick. destruct (w_timeout s =? 0); [simpl; auto|]. destruct (0 <? w_timeout s); simpl; auto.
  - unfold run_tasks. destruct (w_task_wait s); simpl; destruct (w_task_tmo s); simpl; auto.
Qed.

Lemma step_Inv : forall s x, Inv s -> Inv (do_step s x).
Proof.
  intros s x [C H]. destruct x as [eid dcs|eid dcs| |].
  - (* dispatch of an event named <name> *)
    simpl. destruct H as [A|[S|[F|[E|[R|T]]]]].
    + destruct (obj_ok (w_obj s) eid) eqn:Ob.
      * destruct (reached (w_ev s) dcs) as [|c l] eqn:Rc; [simpl; split; auto|].
        rewrite fold_once; [| discriminate |].
        -- destruct (on_event_armed eid s A Ob) as [S' [_ [C' _]]]. split; [congruence|auto].
        -- destruct (on_event_armed eid s A Ob) as [[R1 _] _]. apply on_event_run. exact R1.
      * rewrite fold_id; [split; auto|apply on_event_noobj; exact Ob].
    + destruct S as [R1 S']. rewrite fold_id; [split; [assumption|right; left; split; assumption]|apply on_event_run; exact R1].
    + destruct F as [R1 F']. rewrite fold_id; [split; [assumption|right; right; left; split; assumption]|apply on_event_run; exact R1].
    + assert (Z : w_ev s = []) by apply E. rewrite Z, reached_nil. simpl. split; auto 10.
    + assert (Z : w_ev s = []) by apply R. rewrite Z, reached_nil. simpl. split; auto 10.
    + assert (Z : w_ev s = []) by apply T. rewrite Z, reached_nil. simpl. split; auto 10.
  - (* dispatch of <name>_done *)
    simpl. destruct H as [A|[S|[F|[E|[R|T]]]]].
    + rewrite fold_id; [split; auto|]. apply on_done_other. left. destruct A as [_ [_ [A3 _]]]. rewrite A3. discriminate.
    + destruct (reached (w_done s) dcs) as [|c l] eqn:Rc; [simpl; split; auto|].
      pose proof S as SS. destruct S as [S1 [S2 [[e S3] S4]]]. destruct (Nat.eq_dec e eid) as [Q|Q].
      * subst e.
        rewrite fold_once; [| discriminate |].
        -- destruct (on_done_seen eid s SS S3) as [F' [C' _]]. split; [congruence|auto].
        -- destruct (on_done_seen eid s SS S3) as [[_ [F2 _]] _]. apply on_done_other. right. exact F2.
      * rewrite fold_id; [split; [assumption|right; left; exact SS]|].
        apply on_done_other. left. rewrite S3. congruence.
    + rewrite fold_id; [split; auto 10|]. apply on_done_other. right. apply F.
    + assert (Z : w_done s = []) by apply E. rewrite Z, reached_nil. simpl. split; auto 10.
    + assert (Z : w_done s = []) by apply R. rewrite Z, reached_nil. simpl. split; auto 10.
    + assert (Z : w_done s = []) by apply T. rewrite Z, reached_nil. simpl. split; auto 10.
  - (* generate_events *)
    simpl. destruct (w_tick s) eqn:Tk; [|split; assumption].
    destruct H as [A|[S|[F|[E|[R|T]]]]].
    + destruct A as [A1 [A2 [A3 [A4 [A5 [A6 [A7 [A8 [A9 [A10 [T1 T2]]]]]]]]]]].
      assert (P : 0 <= w_tmo0 s) by (rewrite Tk in A10; symmetry in A10; apply Z.leb_le in A10; exact A10).
      specialize (T2 P). unfold on_tick. destruct (w_timeout s =? 0) eqn:Q.
      * split; [simpl; rewrite C, A1, A8, A9, chans_eqb_refl; reflexivity|]. right. right. right. left.
        unfold Expired. simpl. rewrite A1. repeat split; auto.
      * apply Z.eqb_neq in Q. assert (L : 0 <? w_timeout s = true) by (apply Z.ltb_lt; lia). rewrite L.
        split; [exact C|]. left. unfold Armed, tmo_ok. simpl. repeat split; auto; intros; lia.
    + destruct S as [A1 [A2 [A3 [A4 [A5 [A6 [A7 [A8 [A9 [A10 [T1 T2]]]]]]]]]]].
      assert (P : 0 <= w_tmo0 s) by (rewrite Tk in A10; symmetry in A10; apply Z.leb_le in A10; exact A10).
      specialize (T2 P). unfold on_tick. destruct (w_timeout s =? 0) eqn:Q.
      * split; [simpl; rewrite C, A1, A9, chans_eqb_refl; reflexivity|]. right. right. right. left.
        unfold Expired. simpl. rewrite A1. repeat split; auto. discriminate.
      * apply Z.eqb_neq in Q. assert (L : 0 <? w_timeout s = true) by (apply Z.ltb_lt; lia). rewrite L.
        split; [exact C|]. right. left. unfold Seen, tmo_ok. simpl. repeat split; auto; intros; lia.
    + exfalso. destruct F as [_ [_ [_ [_ [_ [_ [_ [_ [_ F10]]]]]]]]]. congruence.
    + exfalso. destruct E as [_ [_ [_ [_ [_ [_ [_ [_ E9]]]]]]]]. congruence.
    + exfalso. destruct R as [_ [_ [_ [_ [_ [_ [_ [_ [_ R10]]]]]]]]]. congruence.
    + exfalso. destruct T as [_ [_ [_ [_ [_ [_ [_ [_ T9]]]]]]]]. congruence.
  - (* one pass over the task set *)
    simpl. unfold run_tasks. destruct H as [A|[S|[F|[E|[R|T]]]]].
    + destruct A as [A1 [A2 [A3 [A4 [A5 A']]]]]. rewrite A4. simpl. rewrite A5. split; [exact C|]. left. unfold Armed, tmo_ok. simpl. repeat split; auto; apply A'.
    + destruct S as [A1 [A2 [A3 [A4 [A5 A']]]]]. rewrite A4. simpl. rewrite A5. split; [exact C|]. right. left. unfold Seen, tmo_ok. simpl. repeat split; auto; apply A'.
    + destruct F as [A1 [A2 [A3 [A4 [A5 [A6 [A7 [A8 [A9 A10]]]]]]]]]. rewrite A4. simpl. rewrite A5.
      split; [simpl; rewrite C, A9, chans_eqb_refl; reflexivity|]. right. right. right. right. left.
      unfold Resumed. simpl. rewrite A6. repeat split; auto.
    + destruct E as [A1 [A2 [A3 [A4 [A5 [A6 [A7 [A8 A9]]]]]]]]. rewrite A2. simpl. rewrite A3.
      split; [exact C|]. right. right. right. right. right. unfold Thrown. simpl. rewrite A6. repeat split; auto.
    + destruct R as [A1 [A2 [A3 [A4 [A5 A']]]]]. rewrite A4. simpl. rewrite A5. split; [exact C|]. right. right. right. right. left.
      unfold Resumed. simpl. repeat split; auto; apply A'.
    + destruct T as [A1 [A2 [A3 A']]]. rewrite A2. simpl. rewrite A3. split; [exact C|]. right. right. right. right. right.
      unfold Thrown. simpl. repeat split; auto; apply A'.
Qed.

Lemma steps_Inv : forall steps s, Inv s -> Inv (fold_left do_step steps s).
Proof. induction steps as [|x r IH]; intros s H; simpl; [exact H|]. apply IH. apply step_Inv. exact H. Qed.

Lemma reach_Inv : forall cs obj tmo steps, Inv (reach cs obj tmo steps).
Proof. intros. unfold reach. apply steps_Inv. apply init_Inv. Qed.

(* ---------------------------------------------------------------- what the invariant says *)

Definition no_temporaries (s : wstate) : Prop := w_ev s = [] /\ w_done s = [] /\ w_tick s = false.
Definition armed (s : wstate) : Prop := w_run s = false /\ w_task_tmo s = false /\ w_thrown s = O.
Definition live (s : wstate) : Prop := w_flag s = false /\ w_task_tmo s = false /\ w_thrown s = O.

Lemma no_crash : forall cs obj tmo steps, w_crash (reach cs obj tmo steps) = false.
Proof. intros. apply (reach_Inv cs obj tmo steps). Qed.

Lemma armed_Armed : forall s, Inv s -> armed s -> Armed s.
Proof.
  intros s [_ H] [R [T Th]]. destruct H as [A|[S|[F|[E|[Re|Tr]]]]]; [exact A| | | | |].
  - destruct S as [S1 _]. congruence.
  - destruct F as [S1 _]. congruence.
  - destruct E as [_ [_ [E3 _]]]. congruence.
  - destruct Re as [S1 _]. congruence.
  - destruct Tr as [_ [_ [_ [_ [_ [T6 _]]]]]]. congruence.
Qed.

Lemma fold_frame : forall steps s0, w_chans (fold_left do_step steps s0) = w_chans s0 /\
  w_obj (fold_left do_step steps s0) = w_obj s0 /\ w_tmo0 (fold_left do_step steps s0) = w_tmo0 s0.
Proof.
  induction steps as [|x r IH]; intro s0; simpl; [auto|]. destruct (IH (do_step s0 x)) as [A [B C]].
  destruct (step_frame s0 x) as [F1 [F2 F3]]. repeat split; congruence.
Qed.

Lemma reach_frame : forall cs obj tmo steps, w_chans (reach cs obj tmo steps) = cs /\
  w_obj (reach cs obj tmo steps) = obj /\ w_tmo0 (reach cs obj tmo steps) = tmo.
Proof. intros. unfold reach. apply (fold_frame steps (init cs obj tmo)). Qed.

(* (1) the waiter latches onto a dispatched event iff the event is on one of the awaited channels (and is the awaited
   object, if one was given), and then onto exactly that event *)
Lemma latch_iff : forall cs obj tmo steps eid dcs, let s := reach cs obj tmo steps in armed s ->
  let s' := do_step s (Dispatch eid dcs) in
  (w_run s' = true <-> awaited cs dcs = true /\ obj_ok obj eid = true) /\
  (w_run s' = true -> w_event s' = Some eid /\ w_ev s' = []) /\
  (w_run s' = false -> s' = s).
Proof.
  intros cs obj tmo steps eid dcs s Ha s'. pose proof (reach_Inv cs obj tmo steps) as HI. fold s in HI.
  pose proof (armed_Armed s HI Ha) as A. pose proof A as [A1 [_ [_ [_ [_ [_ [_ [A8 _]]]]]]]].
  assert (Fr : w_chans s = cs /\ w_obj s = obj) by (destruct (reach_frame cs obj tmo steps) as [X [Y _]]; auto).
  destruct Fr as [Fc Fo]. unfold s'. simpl. rewrite A8, Fc.
  destruct (obj_ok obj eid) eqn:Ob.
  - destruct (reached cs dcs) as [|c l] eqn:Rc.
    + simpl. assert (Na : awaited cs dcs = false).
      { destruct (awaited cs dcs) eqn:Q; [|reflexivity]. apply reached_awaited in Q. congruence. }
      rewrite A1, Na. repeat split; try discriminate; try tauto; try (intros [X _]; discriminate).
    + assert (Ya : awaited cs dcs = true) by (apply reached_awaited; rewrite Rc; discriminate).
      rewrite <- Fo in Ob. destruct (on_event_armed eid s A Ob) as [[S1 [_ [_ [_ [_ [_ [_ [S8 _]]]]]]]] [Ev _]].
      rewrite fold_once; [|discriminate|apply on_event_run; exact S1].
      rewrite S1, Ya. repeat split; auto. discriminate.
  - rewrite fold_id; [|apply on_event_noobj; rewrite Fo; exact Ob]. rewrite A1.
    repeat split; try discriminate; try tauto; try (intros [_ X]; discriminate).
Qed.

Lemma latch_once : forall cs obj tmo steps e x, let s := reach cs obj tmo steps in
  w_event s = Some e -> w_event (do_step s x) = Some e.
Proof.
  intros cs obj tmo steps e x s Ev. pose proof (reach_Inv cs obj tmo steps) as [_ H]. fold s in H.
  assert (Rn : w_run s = true).
  { destruct H as [A|[S|[F|[E|[R|T]]]]]; try (apply S); try (apply F); try (apply R).
    - destruct A as [_ [_ [A3 _]]]. congruence.
    - destruct (w_run s) eqn:Q; [reflexivity|]. destruct E as [_ [_ [_ [E4 _]]]]. rewrite (E4 Q) in Ev. discriminate.
    - destruct (w_run s) eqn:Q; [reflexivity|]. destruct T as [_ [_ [_ [E4 _]]]]. rewrite (E4 Q) in Ev. discriminate. }
  destruct x as [eid dcs|eid dcs| |]; simpl.
  - rewrite fold_id; [exact Ev|apply on_event_run; exact Rn].
  - assert (G : forall (l : list chan) s0, w_event s0 = Some e -> w_event (fold_left (fun s (_ : chan) => on_done eid s) l s0) = Some e).
    { induction l as [|c r IH]; intros s0 H0; simpl; [exact H0|]. apply IH. unfold on_done. destruct (_ && _); simpl; exact H0. }
    apply G. exact Ev.
  - destruct (w_tick s); [|exact Ev]. unfold on_tick. destruct (w_timeout s =? 0); [simpl; exact Ev|]. destruct (0 <? w_timeout s); simpl; exact Ev.
  - unfold run_tasks. destruct (w_task_wait s); simpl; destruct (w_task_tmo s); simpl; exact Ev.
Qed.

(* (2) resumed at most once, result and TimeoutError together *)
Lemma at_most_once : forall cs obj tmo steps, let s := reach cs obj tmo steps in
  (w_resumed s + w_thrown s <= 1)%nat /\ ((w_resumed s + w_thrown s)%nat = 1%nat -> no_temporaries s /\ w_task_wait s = false /\ w_task_tmo s = false).
Proof.
  intros cs obj tmo steps s. pose proof (reach_Inv cs obj tmo steps) as [_ H]. fold s in H. unfold no_temporaries.
  destruct H as [A|[S|[F|[E|[R|T]]]]].
  - destruct A as [_ [_ [_ [_ [_ [A6 [A7 _]]]]]]]. rewrite A6, A7. split; [lia|]. intro X. discriminate.
  - destruct S as [_ [_ [_ [_ [_ [A6 [A7 _]]]]]]]. rewrite A6, A7. split; [lia|]. intro X. discriminate.
  - destruct F as [_ [_ [_ [_ [_ [A6 [A7 _]]]]]]]. rewrite A6, A7. split; [lia|]. intro X. discriminate.
  - destruct E as [_ [_ [_ [_ [A6 [A7 _]]]]]]. rewrite A6, A7. split; [lia|]. intro X. discriminate.
  - destruct R as [_ [_ [_ [A4 [A5 [A6 [A7 [A8 [A9 A10]]]]]]]]]. rewrite A6, A7. split; [lia|]. auto 10.
  - destruct T as [_ [A2 [A3 [_ [A6 [A7 [A8 [A9 A10]]]]]]]]. rewrite A6, A7. split; [lia|]. auto 10.
Qed.

(* ... exactly once when the latched event finishes: its <name>_done is dispatched on the event's channels (one of
   which is awaited), and the next pass over the tasks resumes the caller and removes every temporary *)
Lemma result_exactly_once : forall cs obj tmo steps e dcs, let s := reach cs obj tmo steps in
  w_event s = Some e -> live s -> w_resumed s = O -> awaited cs dcs = true ->
  let s' := do_step (do_step s (DispatchDone e dcs)) RunTasks in
  w_resumed s' = 1%nat /\ w_thrown s' = O /\ no_temporaries s' /\ w_crash s' = false.
Proof.
  intros cs obj tmo steps e dcs s Ev [L1 [L2 L3]] R0 Aw s'.
  assert (HI' : Inv s') by (unfold s'; apply step_Inv; apply step_Inv; apply reach_Inv).
  pose proof (reach_Inv cs obj tmo steps) as [C H]. fold s in C, H.
  assert (Fc : w_chans s = cs) by (destruct (reach_frame cs obj tmo steps) as [X _]; exact X).
  destruct H as [A|[S|[F|[E|[R|T]]]]].
  - destruct A as [_ [_ [A3 _]]]. congruence.
  - pose proof S as SS. destruct S as [S1 [S2 [_ [S4 [S5 [S6 [S7 [S8 [S9 _]]]]]]]]].
    assert (Rc : reached (w_done s) dcs <> []) by (rewrite S9, Fc; apply reached_awaited; exact Aw).
    destruct (on_done_seen e s SS Ev) as [F' [C' _]].
    assert (E1 : do_step s (DispatchDone e dcs) = on_done e s).
    { simpl. apply fold_once; [exact Rc|apply on_done_other; right; apply F']. }
    unfold s'. rewrite E1.
    assert (Ch : w_chans (on_done e s) = w_chans s) by (unfold on_done; destruct (_ && _); reflexivity).
    destruct F' as [F1 [F2 [F3 [F4 [F5 [F6 [F7 [F8 [F9 F10]]]]]]]]].
    simpl. unfold run_tasks. rewrite F4. simpl. rewrite F5. unfold no_temporaries. simpl.
    rewrite F6, F7, F8, F10, F9, Ch, chans_eqb_refl, C', C. auto 10.
  - destruct F as [_ [F2 _]]. congruence.
  - destruct E as [_ [_ [E3 _]]]. congruence.
  - destruct R as [_ [_ [_ [_ [_ [R6 _]]]]]]. congruence.
  - destruct T as [_ [_ [_ [_ [_ [T6 _]]]]]]. congruence.
Qed.

(* ... and exactly once when the timeout expires: after timeout+1 generate_events dispatches the next pass over the
   tasks throws TimeoutError into the caller, and every temporary is gone - whether or not an event had been latched *)
Lemma ticks_expire : forall k s, Inv s -> (Armed s \/ Seen s) -> w_timeout s = Z.of_nat k ->
  let s' := fold_left do_step (repeat Tick (S k)) s in Expired s' /\ w_crash s' = false.
Proof.
  induction k as [|k IH]; intros s HI Ph Tm; simpl.
  - assert (Tk : w_tick s = true).
    { destruct Ph as [A|S]; [destruct A as [_ [_ [_ [_ [_ [_ [_ [_ [_ [A10 [T1 T2]]]]]]]]]]]|destruct S as [_ [_ [_ [_ [_ [_ [_ [_ [_ [A10 [T1 T2]]]]]]]]]]]];
        rewrite A10; apply Z.leb_le; destruct (Z_lt_ge_dec (w_tmo0 s) 0) as [L|L]; try lia; specialize (T1 L); simpl in Tm; lia. }
    rewrite Tk. destruct HI as [C _]. unfold on_tick. simpl in Tm. rewrite Tm. simpl.
    destruct Ph as [A|S].
    + destruct A as [A1 [A2 [A3 [A4 [A5 [A6 [A7 [A8 [A9 _]]]]]]]]]. unfold Expired. simpl. rewrite A1, A8, A9, chans_eqb_refl, C. repeat split; auto.
    + destruct S as [A1 [A2 [A3 [A4 [A5 [A6 [A7 [A8 [A9 _]]]]]]]]]. unfold Expired. simpl. rewrite A1, A9, chans_eqb_refl, C. repeat split; auto. discriminate.
  - assert (Tk : w_tick s = true).
    { destruct Ph as [A|S]; [destruct A as [_ [_ [_ [_ [_ [_ [_ [_ [_ [A10 [T1 T2]]]]]]]]]]]|destruct S as [_ [_ [_ [_ [_ [_ [_ [_ [_ [A10 [T1 T2]]]]]]]]]]]];
        rewrite A10; apply Z.leb_le; destruct (Z_lt_ge_dec (w_tmo0 s) 0) as [L|L]; try lia; specialize (T1 L); lia. }
    rewrite Tk.
    assert (Q0 : w_timeout s =? 0 = false) by (apply Z.eqb_neq; lia).
    assert (Q1 : 0 <? w_timeout s = true) by (apply Z.ltb_lt; lia).
    pose proof (step_Inv s Tick HI) as HI1. simpl in HI1. rewrite Tk in HI1.
    apply (IH (on_tick s) HI1).
    + unfold on_tick. rewrite Q0, Q1. destruct Ph as [A|S]; [left|right].
      * destruct A as [A1 [A2 [A3 [A4 [A5 [A6 [A7 [A8 [A9 [A10 [T1 T2]]]]]]]]]]]. unfold Armed, tmo_ok. simpl. repeat split; auto; intros; lia.
      * destruct S as [A1 [A2 [A3 [A4 [A5 [A6 [A7 [A8 [A9 [A10 [T1 T2]]]]]]]]]]]. unfold Seen, tmo_ok. simpl. repeat split; auto; intros; lia.
    + unfold on_tick. rewrite Q0, Q1. simpl. lia.
Qed.

Lemma timeout_exactly_once : forall cs obj tmo steps k, let s := reach cs obj tmo steps in
  live s -> w_resumed s = O -> w_timeout s = Z.of_nat k ->
  let s' := do_step (fold_left do_step (repeat Tick (S k)) s) RunTasks in
  w_thrown s' = 1%nat /\ w_resumed s' = O /\ no_temporaries s' /\ w_crash s' = false.
Proof.
  intros cs obj tmo steps k s [L1 [L2 L3]] R0 Tm s'. pose proof (reach_Inv cs obj tmo steps) as HI. fold s in HI.
  assert (Ph : Armed s \/ Seen s).
  { destruct HI as [_ H]. destruct H as [A|[S|[F|[E|[R|T]]]]]; auto.
    - destruct F as [_ [F2 _]]. congruence.
    - destruct E as [_ [_ [E3 _]]]. congruence.
    - destruct R as [_ [_ [_ [_ [_ [R6 _]]]]]]. congruence.
    - destruct T as [_ [_ [_ [_ [_ [T6 _]]]]]]. congruence. }
  destruct (ticks_expire k s HI Ph Tm) as [E C]. unfold s'. set (s1 := fold_left do_step (repeat Tick (S k)) s) in *.
  destruct E as [A1 [A2 [A3 [A4 [A5 [A6 [A7 [A8 A9]]]]]]]]. simpl. unfold run_tasks. rewrite A2. simpl. rewrite A3.
  unfold no_temporaries. simpl. rewrite A5, A6. auto 10.
Qed.

(* (3) residue: which temporaries are installed is a function of the phase: all of them on every awaited channel while
   the wait is armed, none at all once the caller has been resumed or the timeout has expired *)
Lemma residue : forall cs obj tmo steps, let s := reach cs obj tmo steps in
  (armed s -> w_ev s = cs /\ w_done s = cs /\ w_tick s = (0 <=? tmo)) /\
  (w_resumed s = 1%nat \/ w_thrown s = 1%nat \/ w_task_tmo s = true -> no_temporaries s) /\
  (w_run s = true -> w_ev s = []).
Proof.
  intros cs obj tmo steps s. pose proof (reach_Inv cs obj tmo steps) as HI. fold s in HI.
  assert (Fr : w_chans s = cs /\ w_tmo0 s = tmo) by (destruct (reach_frame cs obj tmo steps) as [X [_ Z]]; auto).
  destruct Fr as [Fc Ft]. split; [|split].
  - intro Ha. destruct (armed_Armed s HI Ha) as [_ [_ [_ [_ [_ [_ [_ [A8 [A9 [A10 _]]]]]]]]]]. rewrite A8, A9, A10, Fc, Ft. auto.
  - intro X. unfold no_temporaries. destruct HI as [_ H]. destruct H as [A|[S|[F|[E|[R|T]]]]].
    + destruct A as [_ [_ [_ [_ [A5 [A6 [A7 _]]]]]]]. destruct X as [X|[X|X]]; congruence.
    + destruct S as [_ [_ [_ [_ [A5 [A6 [A7 _]]]]]]]. destruct X as [X|[X|X]]; congruence.
    + destruct F as [_ [_ [_ [_ [A5 [A6 [A7 _]]]]]]]. destruct X as [X|[X|X]]; congruence.
    + destruct E as [_ [_ [_ [_ [_ [_ [A7 [A8 A9]]]]]]]]. auto.
    + destruct R as [_ [_ [_ [_ [_ [_ [_ [A8 [A9 A10]]]]]]]]]. auto.
    + destruct T as [_ [_ [_ [_ [_ [_ [A7 [A8 A9]]]]]]]]. auto.
  - intro Rn. destruct HI as [_ H]. destruct H as [A|[S|[F|[E|[R|T]]]]]; try (apply S); try (apply F); try (apply E); try (apply R); try (apply T).
    destruct A as [A1 _]. congruence.
Qed.
