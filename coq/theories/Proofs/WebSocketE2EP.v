(* C17 end to end: the frames one endpoint writes for a sequence of messages,
   concatenated and cut into reads in any way, are delivered by the other
   endpoint's codec as exactly those messages, in order; the receiver writes
   nothing and draws no key. *)
From Coq Require Import List NArith Arith Bool Lia.
From Circ Require Import Model.WebSocket Proofs.WebSocketP.
Import ListNotations.
Open Scope N_scope.

(* the sender: a sequence of write() calls threaded through the codec state *)
Fixpoint send_all (keyfn : nat -> list N) (client : bool) (s : st) (ms : list msg)
  : R (st * list (list N)) :=
  match ms with
  | [] => ROk (s, [])
  | (t, p) :: r =>
      match send keyfn client s t p with
      | ROk (s1, x) =>
          match send_all keyfn client s1 r with
          | ROk (s2, w) => ROk (s2, written x ++ w)
          | RCrash => RCrash
          | RFuel => RFuel
          end
      | RCrash => RCrash
      | RFuel => RFuel
      end
  end.

Definition msg_item (k4 : nat -> key4) (client : bool) (n : nat) (m : msg) : item :=
  IMsg (fst m) (okey k4 client n, snd m, []) [].

(* the items written from key index n on *)
Fixpoint sent_items (k4 : nat -> key4) (client : bool) (n : nat) (ms : list msg) : list item :=
  match ms with
  | [] => []
  | m :: r => msg_item k4 client n m :: sent_items k4 client (bump client n) r
  end.

Lemma item_bytes_msg k4 client n t p :
  item_bytes (msg_item k4 client n (t, p)) = rfc_frame true (if t then 1 else 2) (okey k4 client n) p.
Proof. unfold msg_item, item_bytes. cbn [fst snd ctls_bytes map concat conts_bytes]. now rewrite !app_nil_r. Qed.

Lemma send_all_spec k4 client ms : forall s, csent s = false ->
  exists s', send_all (keyf k4) client s ms = ROk (s', map item_bytes (sent_items k4 client (nk (ps s)) ms))
             /\ csent s' = false /\ buf s' = buf s /\ crecv s' = crecv s.
Proof.
  induction ms as [|[t p] r IH]; intros s Hs.
  - exists s. cbn. repeat split; assumption.
  - cbn [send_all]. rewrite (send_rfc k4 client s t p Hs).
    set (s1 := mkS (buf s) (mkP (pend (ps s)) (ptype (ps s)) (bump client (nk (ps s)))) (crecv s) false).
    destruct (IH s1 eq_refl) as (s' & E & H1 & H2 & H3).
    rewrite E. exists s'. cbn [written sent_items map nk ps s1 app] in *.
    rewrite item_bytes_msg. repeat split; assumption.
Qed.

Lemma sent_items_wf k4 client ms : forall n, Forall (fun m => wf_len (snd m)) ms ->
  Forall wf_item (sent_items k4 client n ms).
Proof.
  induction ms as [|m r IH]; intros n H; [constructor|].
  inversion H as [|? ? Hm Hr]; subst. cbn [sent_items]. constructor; [|now apply IH].
  unfold msg_item, wf_item, wf_frag, frag_payload, frag_ctls. cbn [fst snd].
  split; [split; [exact Hm|constructor]|constructor].
Qed.

Lemma sent_items_msgs k4 client ms : forall n, expected_msgs (sent_items k4 client n ms) = ms.
Proof.
  unfold expected_msgs. induction ms as [|[t p] r IH]; intros n; [reflexivity|].
  cbn [sent_items map concat item_msgs msg_item fst snd frag_payload app]. rewrite IH.
  now rewrite app_nil_r.
Qed.

Lemma sent_items_pings k4 client ms : forall n, expected_pings (sent_items k4 client n ms) = [].
Proof.
  unfold expected_pings. induction ms as [|m r IH]; intros n; [reflexivity|].
  cbn [sent_items map concat item_pings msg_item frag_ctls snd app]. now rewrite IH.
Qed.

(* sender A (client or server, any key source, any state that has not sent close);
   receiver B (client or server, any key source, clean state with any key index) *)
Theorem end_to_end (ka kb : nat -> key4) (ca cb : bool) (sa : st) (nb : nat)
        (ms : list msg) (chunks : list (list N)) :
  csent sa = false -> Forall (fun m => wf_len (snd m)) ms ->
  exists sa' frames,
    send_all (keyf ka) ca sa ms = ROk (sa', frames) /\
    length frames = length ms /\
    (concat chunks = concat frames ->
     recv_all (keyf kb) cb (clean nb) chunks = ROk (clean nb, mkO ms [] 0)).
Proof.
  intros Hs Hw.
  destruct (send_all_spec ka ca ms sa Hs) as (sa' & E & _).
  exists sa', (map item_bytes (sent_items ka ca (nk (ps sa)) ms)).
  split; [exact E|split].
  - rewrite map_length. clear. generalize (nk (ps sa)). induction ms as [|m r IH]; intros n; [reflexivity|].
    cbn [sent_items length]. now rewrite IH.
  - intros Hc.
    pose proof (recv_items_any_cut kb cb (sent_items ka ca (nk (ps sa)) ms) nb chunks
                  (sent_items_wf ka ca ms _ Hw) Hc) as Hr.
    rewrite sent_items_msgs, sent_items_pings in Hr. exact Hr.
Qed.

(* ... and with A's close after the messages: B delivers the messages, then
   sees the close: one close frame in reply (masked iff B is a client), one
   close event, nothing after it (junk) is delivered *)
Theorem end_to_end_close (ka kb : nat -> key4) (ca cb : bool) (sa : st) (nb : nat)
        (ms : list msg) (junk : list N) (chunks : list (list N)) :
  csent sa = false -> Forall (fun m => wf_len (snd m)) ms ->
  exists sa' frames sa'' cf,
    send_all (keyf ka) ca sa ms = ROk (sa', frames) /\
    on_close (keyf ka) ca sa' = ROk (sa'', mkO [] [cf] (if crecv sa then 1 else 0)%nat) /\
    csent sa'' = true /\
    (concat chunks = concat frames ++ cf ++ junk ->
     recv_all (keyf kb) cb (clean nb) chunks =
     ROk (mkS [] (mkP [] None (bump cb nb)) true true,
          mkO ms [rfc_frame true 8 (okey kb cb nb) []] 1)).
Proof.
  intros Hs Hw.
  destruct (send_all_spec ka ca ms sa Hs) as (sa' & E & Hcs & _ & Hcr).
  eexists sa', _, _, _.
  split; [exact E|]. rewrite (on_close_rfc ka ca sa' Hcs), Hcr.
  split; [reflexivity|]. split; [reflexivity|].
  intros Hc.
  assert (Wq : wf_len []) by reflexivity.
  pose proof (recv_items_close_any_cut kb cb (sent_items ka ca (nk (ps sa)) ms) nb
                (okey ka ca (nk (ps sa'))) [] junk chunks
                (sent_items_wf ka ca ms _ Hw) Wq Hc) as Hr.
  rewrite sent_items_msgs, sent_items_pings in Hr. exact Hr.
Qed.
