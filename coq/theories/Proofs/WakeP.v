(* C03 — theorems about the wake-up protocol model (Model/Wake.v), from the invariant of WakeInvP.v. *)
From Coq Require Import List Arith Bool Lia.
From Circ Require Import Model.Wake Proofs.WakeInvP.
Import ListNotations.

(* ------------------------------------------------------------------ the property *)
Lemma blocked_region s : Inv s -> blocked s = true -> signalled s = false /\ bl (lp s) = true.
Proof.
  intros HI Hb. destruct (imd s HI) as [Hw Hp]. unfold blocked, signalled in *.
  destruct (lp s) eqn:E; try discriminate; simpl in *.
  - destruct x; try discriminate. rewrite (Hw eq_refl). split; [|reflexivity].
    destruct (flag s); [discriminate|reflexivity].
  - rewrite (Hw eq_refl). split; [|reflexivity]. destruct (flag s); [discriminate|reflexivity].
  - rewrite (Hp eq_refl). destruct x; try discriminate;
      (split; [|reflexivity]); apply negb_true_iff in Hb; exact Hb.
Qed.

(* In every reachable state in which the loop thread sits in its idle wait with the wake object not
   signalled, every foreign event still queued belongs to a fire() call that has NOT returned: its
   thread is inside the critical section of _fire, holds the lock, and is on its way to resume(). *)
Theorem no_lost_wakeup : forall m s, reachable m s -> blocked s = true ->
  forall e, In e (pending s) -> returned s e = false.
Proof.
  intros m s Hr Hb e He. pose proof (Inv_reachable _ _ Hr) as HI.
  destruct (blocked_region _ HI Hb) as [Hs Hbl].
  destruct e as [g|i k|n]; try reflexivity. simpl.
  destruct (j2 s HI Hs (or_introl Hbl) i k He) as [Hk Hpc].
  pose proof (ir s HI i) as Hir. apply Nat.ltb_ge.
  destruct (fp (fts s i)) as [| | | |? []| |]; try contradiction; lia.
Qed.

(* ... more precisely: that thread owns the lock and is inside reduce_time_left(0) on the generate_events
   the loop is waiting in, before its resume() *)
Theorem blocked_wake_in_flight : forall m s, reachable m s -> blocked s = true ->
  forall i k, In (EvF i k) (pending s) ->
  S k = fapp (fts s i) /\
  (exists d, lock s = Some (S i, d)) /\
  exists r, fp (fts s i) = FRed (cur s) r /\ r <> RRel.
Proof.
  intros m s Hr Hb i k He. pose proof (Inv_reachable _ _ Hr) as HI.
  destruct (blocked_region _ HI Hb) as [Hs Hbl].
  destruct (j2 s HI Hs (or_introl Hbl) i k He) as [Hk Hpc].
  split; [exact Hk|].
  pose proof (i0 s HI (S i)) as HL. unfold held, lockd in HL.
  pose proof (if1 s HI i) as H1.
  destruct (fp (fts s i)) as [| | | |g r| |] eqn:E; try contradiction.
  simpl in H1. specialize (H1 g eq_refl). subst g. split.
  - destruct (lock s) as [[o d]|]; [|simpl in HL; lia].
    destruct (Nat.eqb_spec (S i) o); [subst; eauto| simpl in HL; lia].
  - exists r. split; [reflexivity|].
    destruct r; try contradiction; discriminate.
Qed.

Theorem mutual_exclusion : forall m s, reachable m s -> forall t u,
  0 < held s t -> 0 < held s u -> t = u.
Proof.
  intros m s Hr t u Ht Hu. pose proof (i0 _ (Inv_reachable _ _ Hr)) as HI.
  rewrite (HI t) in Ht. rewrite (HI u) in Hu. unfold lockd in *.
  destruct (lock s) as [[o d]|]; [|lia].
  destruct (Nat.eqb_spec t o); destruct (Nat.eqb_spec u o); subst; try lia.
Qed.

(* the invariant behind the poller case: descriptor maintenance never drops the control descriptor *)
Theorem control_watched : forall m s, reachable m s -> watched s = true.
Proof. intros m s Hr. exact (proj2 (iw s (Inv_reachable _ _ Hr))). Qed.
