From Coq Require Import String List NArith Bool Lia ZifyBool.
From Circ Require Import Model.HttpResponse.
Import ListNotations.
Open Scope N_scope.

(* ------------------------------------------------------------------ number codecs *)
Section Digits.
Variable b : N.
Hypothesis Hb : 2 <= b.

Definition stepd (a d : N) := a * b + d.

Lemma to_digits_S : forall f n acc,
  to_digits b (S f) n acc =
  if n / b =? 0 then (n mod b) :: acc else to_digits b f (n / b) ((n mod b) :: acc).
Proof. reflexivity. Qed.

Lemma to_digits_val : forall f n acc,
  n < 2 ^ N.of_nat f ->
  fold_left stepd (to_digits b (S f) n acc) 0 = fold_left stepd acc n.
Proof.
  induction f as [|f IH]; intros n acc Hn.
  - simpl in Hn. assert (n = 0) by lia. subst n. rewrite to_digits_S.
    rewrite N.div_0_l, N.mod_0_l by lia. reflexivity.
  - rewrite to_digits_S. destruct (n / b =? 0) eqn:E.
    + apply N.eqb_eq in E. apply N.div_small_iff in E; [|lia].
      cbn [fold_left]. unfold stepd at 2. rewrite N.mod_small by exact E. reflexivity.
    + rewrite IH.
      * cbn [fold_left]. unfold stepd at 2. f_equal.
        rewrite N.mul_comm. symmetry. apply N.div_mod. lia.
      * apply N.div_lt_upper_bound; [lia|].
        rewrite Nat2N.inj_succ, N.pow_succ_r' in Hn.
        assert (0 < 2 ^ N.of_nat f) by (apply N.neq_0_lt_0, N.pow_nonzero; lia).
        nia.
Qed.

Lemma to_digits_lt : forall f n acc,
  Forall (fun d => d < b) acc -> Forall (fun d => d < b) (to_digits b f n acc).
Proof.
  induction f as [|f IH]; intros n acc Ha; cbn [to_digits]; [exact Ha|].
  assert (Forall (fun d => d < b) (n mod b :: acc)).
  { constructor; [apply N.mod_lt; lia | exact Ha]. }
  destruct (n / b =? 0); [assumption | apply IH; assumption].
Qed.

Lemma to_digits_nonempty : forall f n acc, to_digits b (S f) n acc <> [].
Proof.
  induction f as [|f IH]; intros n acc; rewrite to_digits_S.
  - destruct (n / b =? 0); [discriminate|]. cbn [to_digits]. discriminate.
  - destruct (n / b =? 0); [discriminate|]. apply IH.
Qed.

Lemma digits_val : forall n, fold_left stepd (digits b n) 0 = n.
Proof.
  intro n. unfold digits. rewrite to_digits_val; [reflexivity|].
  rewrite N2Nat.id. apply N.size_gt.
Qed.
Lemma digits_lt : forall n, Forall (fun d => d < b) (digits b n).
Proof. intro n. apply to_digits_lt. constructor. Qed.
Lemma digits_nonempty : forall n, digits b n <> [].
Proof. intro n. apply to_digits_nonempty. Qed.

Lemma read_num_map : forall (ch : N -> N) (val : N -> option N),
  (forall d, d < b -> val (ch d) = Some d) ->
  forall ds, Forall (fun d => d < b) ds -> ds <> [] ->
  read_num b val (map ch ds) = Some (fold_left stepd ds 0).
Proof.
  intros ch val Hv ds Hds Hne. unfold read_num.
  destruct ds as [|d0 ds0]; [congruence|]. cbn [map].
  change (ch d0 :: map ch ds0) with (map ch (d0 :: ds0)).
  generalize dependent 0. clear Hne. generalize dependent (d0 :: ds0). clear d0 ds0.
  induction l as [|d l IH]; intros Hl a; [reflexivity|].
  inversion Hl; subst. cbn [map fold_left]. rewrite Hv by assumption. apply IH. assumption.
Qed.
End Digits.

Lemma undec_dec : forall n, undec (dec n) = Some n.
Proof.
  intro n. unfold undec, dec.
  rewrite read_num_map.
  - f_equal. apply digits_val. lia.
  - intros d Hd. unfold dval, dchar.
    destruct ((48 <=? 48 + d) && (48 + d <=? 57)) eqn:E; [f_equal; lia | lia].
  - apply digits_lt. lia.
  - apply digits_nonempty.
Qed.

Lemma unhex_hex : forall n, unhex (hex n) = Some n.
Proof.
  intro n. unfold unhex, hex.
  rewrite read_num_map.
  - f_equal. apply digits_val. lia.
  - intros d Hd. unfold hval, hchar.
    destruct (d <? 10) eqn:E1.
    + destruct ((48 <=? 48 + d) && (48 + d <=? 57)) eqn:E; [f_equal; lia | lia].
    + destruct ((48 <=? 87 + d) && (87 + d <=? 57)) eqn:E; [lia|].
      destruct ((97 <=? 87 + d) && (87 + d <=? 102)) eqn:E2; [f_equal; lia | lia].
  - apply digits_lt. lia.
  - apply digits_nonempty.
Qed.

(* ------------------------------------------------------------------ well-formedness of the inputs *)
Definition no (c : N) (l : bytes) : bool := forallb (fun x => negb (x =? c)) l.
Definition nocr := no 13.

Definition hdr_ok (h : header) : bool :=
  no 58 (fst h) && nocr (fst h) && nocr (snd h) && beq (lstrip (snd h)) (snd h).
(* headers the application must leave to the server: Connection is passed through verbatim while the
   close decision ignores it, Transfer-Encoding: chunked switches the writer to chunked regardless of
   Content-Length -- with either the application can make the message lie about itself *)
Definition is_framing (n : bytes) : bool := ci_is k_te n || ci_is k_conn n.

(* an application that sets Content-Length itself on an iterator body (generator, file) is believed by
   prepare(): the header must then be the number of bytes the iterator produces (irrelevant for HEAD) *)
Definition cl_truthful (c : cfg) : bool :=
  match app_cl c with
  | None => true
  | Some v => eff_sized c || head c ||
              match undec v with Some n => n =? total_len (eff_chunks c) | None => false end
  end.

(* what the theorems assume about one response configuration *)
Definition wf (c : cfg) : bool :=
  forallb hdr_ok (pre c) && forallb (fun h => negb (is_framing (fst h))) (pre c)
  && nocr (reason c) && (100 <=? status c) && (status c <=? 999)
  && forallb (fun v => hdr_ok (str "Set-Cookie", v)) (cookies c)
  && cl_truthful c.

(* the body can only be delimited by closing the connection *)
Definition until_close (c : cfg) : bool :=
  negb (head c) && negb (has_cl c) && negb (chunked c).

(* ------------------------------------------------------------------ list helpers *)
Lemma beq_refl : forall a, beq a a = true.
Proof. induction a; simpl; [reflexivity|]. rewrite N.eqb_refl. assumption. Qed.
Lemma beq_eq : forall a b, beq a b = true -> a = b.
Proof.
  induction a; destruct b; simpl; intros H; try discriminate; [reflexivity|].
  apply andb_true_iff in H. destruct H as [H1 H2]. apply N.eqb_eq in H1. f_equal; auto.
Qed.

Lemma no_app : forall c a b, no c (a ++ b) = no c a && no c b.
Proof. intros. unfold no. apply forallb_app. Qed.

Lemma split_crlf_app : forall l rest, nocr l = true ->
  split_crlf (l ++ 13 :: 10 :: rest) = Some (l, rest).
Proof.
  induction l as [|x l IH]; intros rest H.
  - reflexivity.
  - simpl in H. apply andb_true_iff in H. destruct H as [Hx Hl].
    change ((x :: l) ++ 13 :: 10 :: rest) with (x :: (l ++ 13 :: 10 :: rest)).
    cbn [split_crlf]. destruct (l ++ 13 :: 10 :: rest) eqn:E.
    + destruct l; discriminate.
    + apply negb_true_iff in Hx. rewrite Hx. cbn [andb].
      rewrite <- E. rewrite IH by assumption. reflexivity.
Qed.

Lemma split_at_app : forall c a b, no c a = true -> split_at c (a ++ c :: b) = Some (a, b).
Proof.
  induction a as [|x a IH]; intros b H.
  - simpl. rewrite N.eqb_refl. reflexivity.
  - simpl in H. apply andb_true_iff in H. destruct H as [Hx Ha].
    apply negb_true_iff in Hx. simpl. rewrite Hx. rewrite IH by assumption. reflexivity.
Qed.

Lemma split_at_none : forall c a, no c a = true -> split_at c a = None.
Proof.
  induction a as [|x a IH]; intros H; [reflexivity|].
  simpl in H. apply andb_true_iff in H. destruct H as [Hx Ha].
  apply negb_true_iff in Hx. simpl. rewrite Hx. rewrite IH by assumption. reflexivity.
Qed.

Lemma strip_prefix_app : forall p l, strip_prefix p (p ++ l) = Some l.
Proof.
  induction p; intros l; simpl; [destruct l; reflexivity|]. rewrite N.eqb_refl. apply IHp.
Qed.

Lemma take_app : forall a b, take (length a) (a ++ b) = Some (a, b).
Proof. induction a; intros b; simpl; [reflexivity|]. rewrite IHa. reflexivity. Qed.

Lemma lstrip_id : forall l, no 32 l = true -> no 9 l = true -> lstrip l = l.
Proof.
  destruct l as [|x l]; intros H1 H2; [reflexivity|]. simpl in *.
  apply andb_true_iff in H1. apply andb_true_iff in H2. destruct H1 as [H1 _]. destruct H2 as [H2 _].
  apply negb_true_iff in H1. apply negb_true_iff in H2. rewrite H1, H2. reflexivity.
Qed.

Lemma total_len_concat : forall l, total_len l = N.of_nat (length (concat l)).
Proof.
  induction l as [|a l IH]; [reflexivity|]. simpl. rewrite app_length, IH. lia.
Qed.

Lemma concat_filter_nonempty : forall l, concat (filter nonempty l) = concat l.
Proof.
  induction l as [|a l IH]; [reflexivity|]. simpl. destruct a; simpl; [assumption|]. rewrite IH. reflexivity.
Qed.

(* digit strings contain neither CR, space, tab nor colon *)
Lemma map_no : forall (ch : N -> N) c ds, (forall d, ch d <> c) -> no c (map ch ds) = true.
Proof.
  intros ch c ds H. induction ds; simpl; [reflexivity|]. rewrite IHds.
  destruct (ch a =? c) eqn:E; [apply N.eqb_eq in E; destruct (H _ E)| reflexivity].
Qed.
Lemma dec_no : forall c n, c < 48 -> no c (dec n) = true.
Proof. intros c n H. unfold dec. apply map_no. intro d. unfold dchar. lia. Qed.
Lemma hex_no : forall c n, c < 48 -> no c (hex n) = true.
Proof. intros c n H. unfold hex. apply map_no. intro d. unfold hchar. destruct (d <? 10); lia. Qed.

(* ------------------------------------------------------------------ status line *)
Definition status_text (c : cfg) : bytes :=
  str "HTTP/1." ++ [if v11 c then 49 else 48] ++ [32] ++ dec (status c) ++ [32] ++ reason c.

Lemma status_line_eq : forall c, status_line c = status_text c ++ crlf.
Proof. intro c. unfold status_line, status_text. repeat rewrite <- app_assoc. reflexivity. Qed.

Lemma status_text_nocr : forall c, nocr (reason c) = true -> nocr (status_text c) = true.
Proof.
  intros c H. unfold status_text, nocr. repeat rewrite no_app.
  rewrite (dec_no 13) by lia. fold nocr. rewrite H. destruct (v11 c); reflexivity.
Qed.

Lemma parse_status_line_ok : forall c,
  (100 <=? status c) && (status c <=? 999) = true ->
  parse_status_line (status_text c) = Some (v11 c, status c, reason c).
Proof.
  intros c Hs. unfold parse_status_line, status_text.
  rewrite strip_prefix_app.
  cbn [app].
  assert (Hd : ((if v11 c then 49 else 48) =? 48) || ((if v11 c then 49 else 48) =? 49) = true)
    by (destruct (v11 c); reflexivity).
  rewrite Hd. rewrite N.eqb_refl. cbn [andb].
  rewrite split_at_app by (apply dec_no; lia).
  rewrite undec_dec. rewrite Hs.
  destruct (v11 c); reflexivity.
Qed.

(* ------------------------------------------------------------------ header block *)
Lemma hline_eq : forall h, hline h = (fst h ++ 58 :: 32 :: snd h) ++ crlf.
Proof. intro h. unfold hline. repeat rewrite <- app_assoc. reflexivity. Qed.

Lemma parse_headers_ok : forall hs fuel rest,
  forallb hdr_ok hs = true -> (length hs < fuel)%nat ->
  parse_headers fuel (concat (map hline hs) ++ crlf ++ rest) = Some (hs, rest).
Proof.
  induction hs as [|h hs IH]; intros fuel rest Hok Hf.
  - destruct fuel; [inversion Hf|]. reflexivity.
  - destruct fuel; [inversion Hf|].
    cbn [forallb] in Hok. apply andb_true_iff in Hok. destruct Hok as [Hh Hhs].
    unfold hdr_ok in Hh. repeat (apply andb_true_iff in Hh; destruct Hh as [Hh ?]).
    cbn [map concat]. rewrite hline_eq. repeat rewrite <- app_assoc.
    cbn [parse_headers].
    change (crlf ++ concat (map hline hs) ++ crlf ++ rest)
      with (13 :: 10 :: (concat (map hline hs) ++ crlf ++ rest)).
    rewrite app_assoc.
    rewrite split_crlf_app.
    2:{ unfold nocr. rewrite no_app. cbn [no forallb]. fold (no 13 (snd h)). fold (no 13 (fst h)).
        unfold nocr in *. rewrite H1, H0. reflexivity. }
    destruct (fst h ++ 58 :: 32 :: snd h) eqn:E; [destruct (fst h); discriminate|]. rewrite <- E.
    rewrite split_at_app by assumption.
    rewrite IH by (assumption || (simpl in Hf; lia)).
    cbn [lstrip]. cbn [N.eqb Pos.eqb orb].
    apply beq_eq in H. rewrite H. destruct h; reflexivity.
Qed.

Lemma concat_hlines_length : forall hs, (length hs <= length (concat (map hline hs)))%nat.
Proof.
  induction hs as [|h hs IH]; [simpl; lia|].
  cbn [map concat]. rewrite app_length. rewrite hline_eq. rewrite app_length. simpl. lia.
Qed.

Lemma wf_parts : forall c, wf c = true ->
  forallb hdr_ok (pre c) = true /\ forallb (fun h => negb (is_framing (fst h))) (pre c) = true
  /\ nocr (reason c) = true /\ (100 <=? status c) && (status c <=? 999) = true
  /\ True
  /\ forallb (fun v => hdr_ok (str "Set-Cookie", v)) (cookies c) = true
  /\ cl_truthful c = true.
Proof.
  intros c H. unfold wf in H.
  repeat (apply andb_true_iff in H; destruct H as [H ?]).
  repeat split; try assumption. apply andb_true_iff; split; assumption.
Qed.

Lemma dec_hdr_ok : forall name n, no 58 name = true -> nocr name = true -> hdr_ok (name, dec n) = true.
Proof.
  intros name n H1 H2. unfold hdr_ok. cbn [fst snd]. rewrite H1, H2.
  unfold nocr. rewrite (dec_no 13) by lia.
  rewrite lstrip_id by (apply dec_no; lia). rewrite beq_refl. reflexivity.
Qed.

Lemma set_hdr_ok : forall k n hs, forallb hdr_ok hs = true -> forallb hdr_ok (set_hdr k (dec n) hs) = true.
Proof.
  intros k n hs. unfold set_hdr. induction hs as [|h hs IH]; intros H; [reflexivity|].
  cbn [forallb map] in *. apply andb_true_iff in H. destruct H as [Hh Hhs].
  rewrite IH by assumption. rewrite andb_true_r.
  destruct (ci_is k (fst h)); [|assumption].
  unfold hdr_ok in Hh. repeat (apply andb_true_iff in Hh; destruct Hh as [Hh ?]).
  apply dec_hdr_ok; assumption.
Qed.

Lemma forallb_map : forall (A B : Type) (f : B -> bool) (g : A -> B) l,
  forallb f (map g l) = forallb (fun x => f (g x)) l.
Proof. intros. induction l; simpl; [reflexivity|]. rewrite IHl. reflexivity. Qed.

Lemma out_headers_ok : forall c, wf c = true -> forallb hdr_ok (out_headers c) = true.
Proof.
  intros c H. apply wf_parts in H. destruct H as [Hpre [_ [_ [_ [_ [Hck _]]]]]].
  unfold out_headers. repeat rewrite forallb_app.
  repeat (apply andb_true_iff; split).
  - destruct (eff_sized c); [apply set_hdr_ok|]; assumption.
  - destruct (lookup k_ct (pre c)); reflexivity.
  - destruct (app_cl c); [reflexivity|]. destruct (eff_sized c); [|reflexivity].
    cbn [forallb]. rewrite dec_hdr_ok; reflexivity.
  - rewrite forallb_map. exact Hck.
  - destruct (chunked c); reflexivity.
  - destruct (v11 c), (close1 c); reflexivity.
Qed.

Lemma lookup_app : forall k a b,
  lookup k (a ++ b) = match lookup k a with Some v => Some v | None => lookup k b end.
Proof.
  intros k a b. unfold lookup. induction a as [|h a IH]; [reflexivity|].
  cbn [app find]. destruct (ci_is k (fst h)); [reflexivity | exact IH].
Qed.

Definition absent (k : bytes) (hs : list header) : bool := forallb (fun h => negb (ci_is k (fst h))) hs.

Lemma lookup_none : forall k hs, absent k hs = true -> lookup k hs = None.
Proof.
  intros k hs H. unfold lookup, absent in *. induction hs as [|h hs IH]; [reflexivity|].
  cbn [forallb] in H. apply andb_true_iff in H. destruct H as [H1 H2].
  apply negb_true_iff in H1. cbn [find]. rewrite H1. apply IH. assumption.
Qed.

Lemma absent_set_hdr : forall k k' v hs, absent k (set_hdr k' v hs) = absent k hs.
Proof.
  intros. unfold absent, set_hdr. induction hs as [|h hs IH]; [reflexivity|].
  cbn [map forallb]. rewrite IH. destruct (ci_is k' (fst h)); reflexivity.
Qed.

Lemma lookup_set_hdr : forall k v hs,
  lookup k (set_hdr k v hs) = match lookup k hs with Some _ => Some v | None => None end.
Proof.
  intros. unfold lookup, set_hdr. induction hs as [|h hs IH]; [reflexivity|].
  cbn [map find]. destruct (ci_is k (fst h)) eqn:E; cbn [fst]; rewrite E; [reflexivity | exact IH].
Qed.

Lemma lookup_cookies : forall k l, ci_is k (str "Set-Cookie") = false ->
  lookup k (map (fun v => (str "Set-Cookie", v)) l) = None.
Proof.
  intros k l H. apply lookup_none. unfold absent. rewrite forallb_map. cbn [fst]. rewrite H.
  induction l; simpl; auto.
Qed.

Lemma pre_no_framing : forall c, wf c = true -> absent k_te (pre c) = true /\ absent k_conn (pre c) = true.
Proof.
  intros c H. apply wf_parts in H. destruct H as [_ [H _]].
  split; (eapply forallb_forall; intros h Hin;
    eapply forallb_forall in H; [|exact Hin]); unfold is_framing in H;
    apply negb_true_iff in H; apply orb_false_iff in H; destruct H as [H1 H2];
    apply negb_true_iff; assumption.
Qed.

Lemma pre_part_none : forall c k v, absent k (pre c) = true ->
  lookup k (if eff_sized c then set_hdr k_cl v (pre c) else pre c) = None.
Proof.
  intros c k v H. apply lookup_none. destruct (eff_sized c); [rewrite absent_set_hdr|]; assumption.
Qed.

Lemma lookup_cl_out : forall c, lookup k_cl (out_headers c) = cl_hdr c.
Proof.
  intros c. unfold out_headers, cl_hdr, app_cl. repeat rewrite lookup_app.
  rewrite lookup_cookies by reflexivity.
  destruct (eff_sized c).
  - rewrite lookup_set_hdr. destruct (lookup k_cl (pre c)); [reflexivity|].
    destruct (lookup k_ct (pre c)); reflexivity.
  - destruct (lookup k_cl (pre c)); [reflexivity|].
    destruct (lookup k_ct (pre c)), (chunked c), (v11 c), (close1 c); reflexivity.
Qed.

Lemma lookup_te_out : forall c, wf c = true ->
  lookup k_te (out_headers c) = if chunked c then Some (str "chunked") else None.
Proof.
  intros c H. destruct (pre_no_framing c H) as [H1 _].
  unfold out_headers. repeat rewrite lookup_app. rewrite pre_part_none by assumption.
  rewrite lookup_cookies by reflexivity.
  destruct (lookup k_ct (pre c)), (app_cl c), (eff_sized c), (chunked c), (v11 c), (close1 c); reflexivity.
Qed.

Lemma lookup_conn_out : forall c, wf c = true ->
  lookup k_conn (out_headers c) =
  if v11 c then (if close1 c then Some (str "close") else None)
  else (if close1 c then None else Some (str "Keep-Alive")).
Proof.
  intros c H. destruct (pre_no_framing c H) as [_ H1].
  unfold out_headers. repeat rewrite lookup_app. rewrite pre_part_none by assumption.
  rewrite lookup_cookies by reflexivity.
  destruct (lookup k_ct (pre c)), (app_cl c), (eff_sized c), (chunked c), (v11 c), (close1 c); reflexivity.
Qed.

(* ------------------------------------------------------------------ chunked bodies *)
Lemma frame_eq : forall d, frame d = hex (N.of_nat (length d)) ++ 13 :: 10 :: (d ++ crlf).
Proof. reflexivity. Qed.

Lemma parse_chunks_ok : forall L fuel rest,
  forallb nonempty L = true -> (length L < fuel)%nat ->
  parse_chunks fuel (concat (map frame L) ++ term ++ rest) = Some (concat L, rest).
Proof.
  induction L as [|d L IH]; intros fuel rest Hne Hf.
  - destruct fuel; [inversion Hf|]. reflexivity.
  - destruct fuel; [inversion Hf|].
    cbn [forallb] in Hne. apply andb_true_iff in Hne. destruct Hne as [Hd HL].
    cbn [map concat]. rewrite frame_eq. repeat rewrite <- app_assoc.
    cbn [parse_chunks].
    change ((13 :: 10 :: d ++ crlf) ++ concat (map frame L) ++ term ++ rest)
      with (13 :: 10 :: ((d ++ crlf) ++ concat (map frame L) ++ term ++ rest)).
    rewrite split_crlf_app by (apply hex_no; lia).
    rewrite unhex_hex.
    destruct (N.of_nat (length d)) as [|p] eqn:En.
    + destruct d; [discriminate Hd | simpl in En; lia].
    + rewrite <- En. rewrite Nat2N.id. rewrite <- app_assoc. rewrite take_app.
      rewrite strip_prefix_app. rewrite IH by (assumption || (simpl in Hf; lia)).
      reflexivity.
Qed.

Lemma filter_nonempty_all : forall l, forallb nonempty (filter nonempty l) = true.
Proof.
  induction l as [|a l IH]; [reflexivity|]. simpl. destruct (nonempty a) eqn:E; [|assumption].
  simpl. rewrite E. assumption.
Qed.

(* ------------------------------------------------------------------ status line + header block *)
Definition mkresp (c : cfg) (body : bytes) (cl : bool) : presp :=
  {| p_v11 := v11 c; p_status := status c; p_reason := reason c;
     p_headers := out_headers c; p_body := body; p_close := cl |}.

Definition nobody_client (s : N) : bool := ((100 <=? s) && (s <? 200)) || (s =? 204) || (s =? 304).

Lemma parse_head_ok : forall c B, wf c = true ->
  parse (head c) (head_bytes c ++ B) =
  if head c || nobody_client (status c) then Some (mkresp c [] (close1 c), B)
  else if chunked c then
    match parse_chunks (S (length B)) B with
    | Some (b, r2) => Some (mkresp c b (close1 c), r2)
    | None => None
    end
  else match cl_hdr c with
       | Some v =>
           match undec v with
           | None => None
           | Some n => match take (N.to_nat n) B with
                       | Some (b, r2) => Some (mkresp c b (close1 c), r2)
                       | None => None
                       end
           end
       | None => Some (mkresp c B true, [])
       end.
Proof.
  intros c B H. pose proof (wf_parts c H) as [_ [_ [Hr [Hs _]]]].
  unfold parse, head_bytes. rewrite status_line_eq. repeat rewrite <- app_assoc.
  change (crlf ++ concat (map hline (out_headers c)) ++ crlf ++ B)
    with (13 :: 10 :: (concat (map hline (out_headers c)) ++ crlf ++ B)).
  rewrite split_crlf_app by (apply status_text_nocr; assumption).
  rewrite parse_status_line_ok by assumption.
  rewrite parse_headers_ok.
  2:{ apply out_headers_ok; assumption. }
  2:{ rewrite app_length. pose proof (concat_hlines_length (out_headers c)). lia. }
  rewrite lookup_conn_out, lookup_te_out by assumption. rewrite lookup_cl_out.
  unfold nobody_client, mkresp.
  destruct (head c || ((100 <=? status c) && (status c <? 200) || (status c =? 204) || (status c =? 304))) eqn:E1.
  - replace (head c || (100 <=? status c) && (status c <? 200) || (status c =? 204) || (status c =? 304))
      with true by (rewrite <- E1; repeat rewrite orb_assoc; reflexivity).
    destruct (v11 c), (close1 c); reflexivity.
  - replace (head c || (100 <=? status c) && (status c <? 200) || (status c =? 204) || (status c =? 304))
      with false by (rewrite <- E1; repeat rewrite orb_assoc; reflexivity).
    destruct (chunked c).
    + destruct (parse_chunks (S (length B)) B) as [[b r2]|]; [|destruct (v11 c), (close1 c); reflexivity].
      destruct (v11 c), (close1 c); reflexivity.
    + destruct (cl_hdr c) as [v|].
      * destruct (undec v) as [n|]; [|reflexivity].
        destruct (take (N.to_nat n) B) as [[b r2]|]; destruct (v11 c), (close1 c); reflexivity.
      * destruct (v11 c), (close1 c); reflexivity.
Qed.

(* ------------------------------------------------------------------ the bytes of one response *)
Definition body_pieces (c : cfg) : list bytes :=
  if streamed c then eff_chunks c else [concat (eff_chunks c)].
Definition body_wire (c : cfg) : bytes :=
  if chunked c then concat (map frame (filter nonempty (body_pieces c))) ++ term
  else concat (eff_chunks c).

Lemma map_id_ext : forall (l : list bytes), map (fun d => d) l = l.
Proof. induction l; simpl; congruence. Qed.

Lemma respond_form : forall c, head c = false ->
  wire c = head_bytes c ++ body_wire c /\ closed c = close1 c.
Proof.
  intros c Hh. unfold wire, closed, respond, body_wire, body_pieces. rewrite Hh.
  destruct (streamed c) eqn:Est.
  - split; [|reflexivity].
    destruct (chunked c).
    + cbn [app concat]. rewrite concat_app. cbn [concat]. rewrite app_nil_r. reflexivity.
    + cbn [app concat]. rewrite app_nil_r. rewrite map_id_ext, concat_filter_nonempty. reflexivity.
  - split; [|reflexivity].
    destruct (chunked c); destruct (concat (eff_chunks c)) eqn:Eb; cbn [nonempty app concat filter map];
      repeat rewrite app_nil_r; reflexivity.
Qed.

Lemma respond_head : forall c, head c = true ->
  respond c = Out [head_bytes c] (close1 c).
Proof. intros c Hh. unfold respond. rewrite Hh. reflexivity. Qed.

Lemma nobody_client_status : forall s, nobody_client s = true -> nobody_status s = true.
Proof. intros s. unfold nobody_client, nobody_status. lia. Qed.

Lemma close1_until : forall c, has_cl c = false -> chunked c = false -> head c = false -> close1 c = true.
Proof.
  intros c H1 H2 Hh. unfold close1, chunked in *. rewrite H1 in *. rewrite Hh in *.
  destruct (status c =? 413); [reflexivity|]. destruct (v11 c); simpl in *; congruence.
Qed.

Lemma frames_length : forall L, (length L <= length (concat (map frame L)))%nat.
Proof.
  induction L as [|d L IH]; [simpl; lia|].
  cbn [map concat]. rewrite app_length. rewrite frame_eq. rewrite app_length. simpl. lia.
Qed.

Lemma cl_nobody : forall c, nobody_status (status c) = true ->
  cl_hdr c = Some (dec 0) /\ eff_chunks c = [] /\ chunked c = false.
Proof.
  intros c H. unfold chunked, has_cl, cl_hdr, eff_sized, eff_chunks. rewrite H. repeat split; reflexivity.
Qed.

(* whatever Content-Length header ends up on a non-HEAD response states the number of body bytes *)
Lemma cl_len : forall c v, wf c = true -> head c = false -> cl_hdr c = Some v ->
  undec v = Some (N.of_nat (length (concat (eff_chunks c)))) /\ chunked c = false.
Proof.
  intros c v H Hh Hv. split.
  - rewrite <- total_len_concat. unfold cl_hdr in Hv. destruct (eff_sized c) eqn:Es.
    + inversion Hv. apply undec_dec.
    + apply wf_parts in H. destruct H as [_ [_ [_ [_ [_ [_ H]]]]]].
      unfold cl_truthful in H. rewrite Hv, Es, Hh in H. cbn [orb] in H.
      destruct (undec v) as [n|]; [|discriminate]. apply N.eqb_eq in H. congruence.
  - unfold chunked, has_cl. rewrite Hv. reflexivity.
Qed.

(* the central statement: the independent client recovers status, headers, body and close announcement,
   and stops reading exactly at the end of the response *)
Lemma roundtrip : forall c rest, wf c = true -> (until_close c = true -> rest = []) ->
  parse (head c) (wire c ++ rest) = Some (expected c, rest).
Proof.
  intros c rest H Hu. destruct (head c) eqn:Hh.
  - unfold wire. rewrite respond_head by assumption. cbn [concat]. rewrite app_nil_r.
    rewrite <- Hh at 1. rewrite parse_head_ok by assumption. rewrite Hh. cbn [orb].
    unfold mkresp, expected. rewrite Hh. reflexivity.
  - destruct (respond_form c Hh) as [Hw _]. rewrite Hw. rewrite <- app_assoc.
    rewrite <- Hh at 1. rewrite parse_head_ok by assumption. rewrite Hh. cbn [orb].
    assert (Hexp : mkresp c (concat (eff_chunks c)) (close1 c) = expected c)
      by (unfold mkresp, expected; rewrite Hh; reflexivity).
    destruct (nobody_client (status c)) eqn:En.
    + apply nobody_client_status in En. destruct (cl_nobody c En) as [_ [Hch Hck]].
      unfold body_wire. rewrite Hck, Hch. cbn [concat app].
      rewrite <- Hexp, Hch. reflexivity.
    + unfold body_wire. destruct (chunked c) eqn:Ech.
      * rewrite <- app_assoc. rewrite parse_chunks_ok.
        -- rewrite concat_filter_nonempty. unfold body_pieces.
           destruct (streamed c); cbn [concat]; repeat rewrite app_nil_r; rewrite Hexp; reflexivity.
        -- apply filter_nonempty_all.
        -- repeat rewrite app_length.
           pose proof (frames_length (filter nonempty (body_pieces c))). lia.
      * destruct (cl_hdr c) as [v|] eqn:Ecl.
        -- destruct (cl_len c v H Hh Ecl) as [Hn _]. rewrite Hn, Nat2N.id, take_app. rewrite Hexp. reflexivity.
        -- assert (Hcl : has_cl c = false) by (unfold has_cl; rewrite Ecl; reflexivity).
           rewrite Hu by (unfold until_close; rewrite Hh, Hcl, Ech; reflexivity).
           rewrite app_nil_r. rewrite <- Hexp. rewrite (close1_until c Hcl Ech Hh). reflexivity.
Qed.

(* ------------------------------------------------------------------ consequences *)
Lemma closed_close1 : forall c, wf c = true -> closed c = close1 c.
Proof.
  intros c H. destruct (head c) eqn:Hh.
  - unfold closed. rewrite respond_head by assumption. reflexivity.
  - apply (respond_form c Hh).
Qed.

(* the connection is closed iff the response, as read by the client, announces it *)
Lemma close_iff_announced : forall c rest r rest', wf c = true -> (until_close c = true -> rest = []) ->
  parse (head c) (wire c ++ rest) = Some (r, rest') -> p_close r = closed c.
Proof.
  intros c rest r rest' H Hu Hp. rewrite roundtrip in Hp by assumption. inversion Hp; subst.
  rewrite closed_close1 by assumption. reflexivity.
Qed.

(* HEAD, 1xx, 204, 205, 304: nothing but the status line and the header block is written *)
Lemma no_body_bytes : forall c, wf c = true ->
  head c = true \/ nobody_status (status c) = true -> wire c = head_bytes c.
Proof.
  intros c H [Hh|Hn].
  - unfold wire. rewrite respond_head by assumption. cbn [concat]. apply app_nil_r.
  - destruct (head c) eqn:Hh.
    + unfold wire. rewrite respond_head by assumption. cbn [concat]. apply app_nil_r.
    + destruct (respond_form c Hh) as [Hw _]. rewrite Hw.
      destruct (cl_nobody c Hn) as [_ [Hch Hck]].
      unfold body_wire. rewrite Hck, Hch. apply app_nil_r.
Qed.

Lemma close_wish_honoured : forall c, wf c = true -> close0 c = true -> closed c = true.
Proof.
  intros c H H0. rewrite closed_close1 by assumption. unfold close1. rewrite H0.
  destruct (status c =? 413); [reflexivity|]. destruct (has_cl c); [reflexivity|].
  destruct (v11 c && negb (head c)); reflexivity.
Qed.

Lemma keep_alive_kept : forall c, wf c = true -> close0 c = false -> status c <> 413 ->
  has_cl c = true \/ (v11 c = true /\ head c = false) -> closed c = false.
Proof.
  intros c H H0 Hs Hd. rewrite closed_close1 by assumption. unfold close1. rewrite H0.
  apply N.eqb_neq in Hs. rewrite Hs.
  destruct Hd as [Hd|[Hv Hh]]; [rewrite Hd; reflexivity|].
  rewrite Hv, Hh. destruct (has_cl c); reflexivity.
Qed.

Lemma sized_has_cl : forall c, eff_sized c = true -> has_cl c = true.
Proof. intros c H. unfold has_cl, cl_hdr. rewrite H. reflexivity. Qed.

(* requests on one connection: every response but the last leaves the connection open *)
Fixpoint conn_ok (cs : list cfg) : bool :=
  match cs with
  | [] => true
  | c :: r => wf c && match r with [] => true | _ => negb (closed c) && conn_ok r end
  end.

Lemma open_not_until_close : forall c, wf c = true -> closed c = false -> until_close c = false.
Proof.
  intros c H Hc. rewrite closed_close1 in Hc by assumption.
  unfold until_close. destruct (head c) eqn:Hh; [reflexivity|]. cbn [negb andb].
  destruct (has_cl c) eqn:Ecl; [reflexivity|]. destruct (chunked c) eqn:Ech; [reflexivity|].
  rewrite (close1_until c Ecl Ech Hh) in Hc. discriminate.
Qed.

Lemma keepalive_sequence : forall cs, conn_ok cs = true ->
  parse_many (map head cs) (concat (map wire cs)) = Some (map expected cs).
Proof.
  induction cs as [|c r IH]; intros H; [reflexivity|].
  cbn [conn_ok] in H. apply andb_true_iff in H. destruct H as [Hwf Hr].
  cbn [map concat parse_many].
  destruct r as [|c' r'].
  - cbn [map concat]. rewrite roundtrip by (assumption || reflexivity). reflexivity.
  - apply andb_true_iff in Hr. destruct Hr as [Hopen Hr]. apply negb_true_iff in Hopen.
    rewrite roundtrip; [| assumption |].
    + rewrite IH by assumption. reflexivity.
    + intro Hu. rewrite open_not_until_close in Hu by assumption. discriminate.
Qed.

(* a connection stays usable whatever is interleaved: HEAD and body-less statuses never end it by themselves *)
Lemma bodiless_keeps_open : forall c, wf c = true -> close0 c = false -> status c <> 413 ->
  nobody_status (status c) = true \/ (head c = true /\ has_cl c = true) -> closed c = false.
Proof.
  intros c H H0 Hs [Hn|[_ Hcl]]; apply keep_alive_kept; try assumption; left; [|assumption].
  apply sized_has_cl. unfold eff_sized. rewrite Hn. reflexivity.
Qed.

Lemma chunked_only_11 : forall c, chunked c = true -> v11 c = true /\ head c = false /\ cl_hdr c = None.
Proof.
  intros c H. unfold chunked, has_cl in H. destruct (cl_hdr c); [discriminate|].
  destruct (status c =? 413); [discriminate|]. destruct (v11 c), (head c); simpl in H; try discriminate.
  repeat split.
Qed.

Lemma content_length_exact : forall c v, wf c = true -> head c = false -> cl_hdr c = Some v ->
  lookup k_cl (p_headers (expected c)) = Some v /\
  undec v = Some (N.of_nat (length (concat (eff_chunks c)))).
Proof.
  intros c v H Hh Hv. split.
  - unfold expected. cbn [p_headers]. rewrite lookup_cl_out. assumption.
  - apply (cl_len c v H Hh Hv).
Qed.

(* sized bodies: the server's own count replaces whatever Content-Length the application set *)
Lemma sized_overrides_app_cl : forall c, eff_sized c = true ->
  cl_hdr c = Some (dec (N.of_nat (length (concat (eff_chunks c))))).
Proof. intros c H. unfold cl_hdr. rewrite H. rewrite total_len_concat. reflexivity. Qed.

Lemma set_hdr_in : forall k v h hs, In h hs -> ci_is k (fst h) = false -> In h (set_hdr k v hs).
Proof.
  intros k v h hs Hin Hk. unfold set_hdr. apply in_map_iff. exists h. rewrite Hk. split; [reflexivity|assumption].
Qed.

Lemma expected_app_data : forall c,
  (forall h, In h (pre c) -> ci_is k_cl (fst h) = false -> In h (p_headers (expected c))) /\
  (forall v, In v (cookies c) -> In (str "Set-Cookie", v) (p_headers (expected c))) /\
  p_status (expected c) = status c /\
  p_body (expected c) = if head c || nobody_status (status c) then [] else concat (chunks c).
Proof.
  intro c. unfold expected. cbn [p_headers p_status p_body]. repeat split.
  - intros h Hin Hk. unfold out_headers. apply in_or_app. left.
    destruct (eff_sized c); [apply set_hdr_in|]; assumption.
  - intros v Hin. unfold out_headers. apply in_or_app. right. apply in_or_app. right.
    apply in_or_app. right. apply in_or_app. left. apply in_map_iff. exists v. split; [reflexivity|assumption].
  - unfold eff_chunks. destruct (head c), (nobody_status (status c)); reflexivity.
Qed.

(* ------------------------------------------------------------------ bodies read from a stream (file_generator) *)
Lemma file_gen_all : forall reads, forallb nonempty reads = true -> file_gen reads = reads.
Proof.
  induction reads as [|r t IH]; intros H; [reflexivity|].
  cbn [forallb] in H. apply andb_true_iff in H. destruct H as [Hr Ht].
  cbn [file_gen]. rewrite Hr, IH by assumption. reflexivity.
Qed.

(* everything read() returned before its first empty result, nothing else, whatever the sizes of the reads *)
Lemma file_gen_until_empty : forall a b, forallb nonempty a = true -> file_gen (a ++ [] :: b) = a.
Proof.
  induction a as [|r t IH]; intros b H; [reflexivity|].
  cbn [forallb] in H. apply andb_true_iff in H. destruct H as [Hr Ht].
  cbn [app file_gen]. rewrite Hr, IH by assumption. reflexivity.
Qed.

Lemma file_gen_nonempty : forall reads, forallb nonempty (file_gen reads) = true.
Proof.
  induction reads as [|r t IH]; [reflexivity|]. cbn [file_gen].
  destruct (nonempty r) eqn:E; [|reflexivity]. cbn [forallb]. rewrite E. exact IH.
Qed.

(* a source that hands out its data in reads of arbitrary (positive) sizes is delivered completely *)
Lemma file_gen_src_reads : forall fuel n caps data, (0 < n)%nat -> (length data < fuel)%nat ->
  concat (file_gen (src_reads fuel n caps data)) = data.
Proof.
  induction fuel as [|f IH]; intros n caps data Hn Hf; [inversion Hf|].
  cbn [src_reads]. destruct data as [|x d]; [reflexivity|].
  set (cap := match caps with c :: _ => if Nat.eqb c 0 then n else Nat.min c n | [] => n end).
  assert (Hcap : (0 < cap)%nat).
  { unfold cap. destruct caps as [|c ?]; [assumption|]. destruct (Nat.eqb c 0) eqn:E; [assumption|].
    apply PeanoNat.Nat.eqb_neq in E. lia. }
  destruct cap as [|k] eqn:Ek; [lia|].
  cbn [firstn skipn file_gen nonempty concat].
  rewrite IH.
  - rewrite <- app_comm_cons. rewrite firstn_skipn. reflexivity.
  - assumption.
  - simpl in Hf. pose proof (skipn_length k d). lia.
Qed.

(* the stream flag does not matter for a complete body: header block, then the body in one piece *)
Lemma sized_written_at_once : forall c, eff_sized c = true -> head c = false ->
  streamed c = false /\ wire c = head_bytes c ++ concat (eff_chunks c).
Proof.
  intros c Hs Hh. split.
  - unfold streamed. rewrite Hs. apply andb_false_r.
  - destruct (respond_form c Hh) as [Hw _]. rewrite Hw. unfold body_wire, chunked.
    rewrite (sized_has_cl c Hs). reflexivity.
Qed.
