(* Proofs about Model/KTasks.v (C06).

   Main result: an inductive invariant [IC] of every run of the model (all programs, schedules, root fires,
   tick counts) that ties the table of temporary handlers and the task set to the phase of every wait state:
     - which of <name>, <name>_done, generate_events handlers of a wait are installed is a function of its phase;
     - accounting: (#times the waiting handler was resumed) + (1 if the wait is still live) +
       (1 if its TimeoutError is pending as a task) = 1, always;
     - a timeout fires exactly after tmo0+1 generate_events dispatches seen by the wait.
   The invariant is proved for runs in which the machinery itself does not crash ([bad] stays false);
   [bad] is part of the observable compared with the implementation on every case. *)
From Coq Require Import List ZArith Bool Arith Lia.
From Circ Require Import Model.KTasks.
Import ListNotations.
Open Scope Z_scope.

(* ------------------------------------------------------------------ lists *)

Lemma nth_error_upd_nth : forall {A} (f : A -> A) l i j,
  nth_error (upd_nth i f l) j = if Nat.eqb i j then option_map f (nth_error l j) else nth_error l j.
Proof.
  intros A f l. induction l as [|x r IH]; intros i j.
  - destruct i, j; simpl; try reflexivity. destruct (Nat.eqb i j); reflexivity.
  - destruct i, j; simpl; try reflexivity. apply IH.
Qed.

Lemma length_upd_nth : forall {A} (f : A -> A) l i, length (upd_nth i f l) = length l.
Proof. intros A f l. induction l; intros [|i]; simpl; auto. Qed.

Lemma nth_error_snoc : forall {A} (l : list A) x i y,
  nth_error (l ++ [x]) i = Some y ->
  (nth_error l i = Some y /\ (i < length l)%nat) \/ (i = length l /\ y = x).
Proof.
  intros A l x i y H. destruct (Nat.lt_ge_cases i (length l)) as [Hl|Hl].
  - left. rewrite nth_error_app1 in H by assumption. auto.
  - right. rewrite nth_error_app2 in H by assumption.
    destruct (i - length l)%nat eqn:E.
    + simpl in H. inversion H. split; [lia|reflexivity].
    + simpl in H. destruct n; discriminate.
Qed.

Lemma th_eqb_eq : forall a b, th_eqb a b = true <-> a = b.
Proof.
  intros [x|x|x] [y|y|y]; simpl; split; intro H; try discriminate; try congruence;
    try (apply Nat.eqb_eq in H; congruence); try (inversion H; apply Nat.eqb_refl).
Qed.

Lemma tref_eqb_eq : forall a b, tref_eqb a b = true <-> a = b.
Proof.
  intros [x|x|x] [y|y|y]; simpl; split; intro H; try discriminate; try congruence;
    try (apply Nat.eqb_eq in H; congruence); try (inversion H; apply Nat.eqb_refl).
Qed.

Lemma onat_eqb_eq : forall a b, onat_eqb a b = true <-> a = b.
Proof.
  intros [x|] [y|]; simpl; split; intro H; try discriminate; try congruence.
  - apply Nat.eqb_eq in H. congruence.
  - inversion H. apply Nat.eqb_refl.
Qed.

Lemma task_eqb_eq : forall a b, task_eqb a b = true <-> a = b.
Proof.
  intros [e1 r1 p1] [e2 r2 p2]. unfold task_eqb. simpl. split.
  - intro H. apply andb_prop in H. destruct H as [H H3]. apply andb_prop in H. destruct H as [H1 H2].
    apply Nat.eqb_eq in H1. apply tref_eqb_eq in H2. apply onat_eqb_eq in H3. congruence.
  - intro H. inversion H. subst. rewrite Nat.eqb_refl.
    assert (tref_eqb r2 r2 = true) by (apply tref_eqb_eq; reflexivity).
    assert (onat_eqb p2 p2 = true) by (apply onat_eqb_eq; reflexivity).
    rewrite H0, H1. reflexivity.
Qed.

Lemma existsb_task : forall t l, existsb (task_eqb t) l = true <-> In t l.
Proof.
  intros t l. rewrite existsb_exists. split.
  - intros [x [Hx He]]. apply task_eqb_eq in He. subst. assumption.
  - intro H. exists t. split; [assumption|apply task_eqb_eq; reflexivity].
Qed.

Lemma has_th_In : forall h w, has_th h w = true <-> In h (ths w).
Proof.
  intros h w. unfold has_th. rewrite existsb_exists. split.
  - intros [x [Hx He]]. apply th_eqb_eq in He. subst. assumption.
  - intro H. exists h. split; [assumption|apply th_eqb_eq; reflexivity].
Qed.

Lemma In_del : forall h x l, In x (filter (fun u => negb (th_eqb h u)) l) <-> In x l /\ x <> h.
Proof.
  intros h x l. rewrite filter_In. split; intros [H1 H2]; split; auto.
  - intro E. subst. assert (th_eqb h h = true) by (apply th_eqb_eq; reflexivity). rewrite H in H2. discriminate.
  - destruct (th_eqb h x) eqn:E; [|reflexivity]. apply th_eqb_eq in E. congruence.
Qed.

Lemma In_unreg : forall t x l, In x (filter (fun u => negb (task_eqb t u)) l) <-> In x l /\ x <> t.
Proof.
  intros t x l. rewrite filter_In. split; intros [H1 H2]; split; auto.
  - intro E. subst. assert (task_eqb t t = true) by (apply task_eqb_eq; reflexivity). rewrite H in H2. discriminate.
  - destruct (task_eqb t x) eqn:E; [|reflexivity]. apply task_eqb_eq in E. congruence.
Qed.

(* ------------------------------------------------------------------ frames: what an operation leaves alone *)

Definition triple (w : world) := (ths w, wsts w, tasks w).

(* operations that touch neither handlers, wait states nor tasks, and never clear [bad] *)
Definition quiet (f : world -> world) : Prop :=
  forall w, triple (f w) = triple w /\ (bad w = true -> bad (f w) = true).

Lemma quiet_id : quiet (fun w => w).
Proof. intro w. auto. Qed.
Lemma quiet_comp : forall f g, quiet f -> quiet g -> quiet (fun w => g (f w)).
Proof.
  intros f g Hf Hg w. destruct (Hf w) as [A B]. destruct (Hg (f w)) as [C D]. split; [congruence|auto].
Qed.
Lemma quiet_add_log : forall x, quiet (add_log x). Proof. intros x w. split; auto. Qed.
Lemma quiet_set_bad : quiet set_bad. Proof. intro w. split; auto. Qed.
Lemma quiet_push : forall q, quiet (push q). Proof. intros q w. split; auto. Qed.
Lemma quiet_mod_evt : forall tok f, quiet (mod_evt tok f). Proof. intros tok f w. split; auto. Qed.
Lemma quiet_mod_gen : forall g f, quiet (mod_gen g f). Proof. intros g f w. split; auto. Qed.
Lemma quiet_set_gens : forall l, quiet (fun w => set_gens w l). Proof. intros l w. split; auto. Qed.
Lemma quiet_set_queue : forall l, quiet (fun w => set_queue w l). Proof. intros l w. split; auto. Qed.

Lemma fire_user_quiet : forall nm b h, quiet (fun w => fst (fire_user nm b h w)).
Proof. intros nm b h w. split; auto. Qed.

Lemma event_done_quiet : forall tok err, quiet (event_done tok err).
Proof.
  intros tok err w. unfold event_done.
  destruct (nth_error (evs w) tok) as [e|]; [|split; auto].
  destruct (e_waiting e =? 0); [|split; auto].
  destruct (e_alert e); destruct (err || e_errors e); split; auto.
Qed.

Lemma run_steps_quiet : forall sts tok hi k w,
  triple (fst (fst (fst (run_steps tok hi k sts w)))) = triple w /\
  (bad w = true -> bad (fst (fst (fst (run_steps tok hi k sts w)))) = true).
Proof.
  induction sts as [|s r IH]; intros tok hi k w; simpl.
  - split; auto.
  - destruct s; simpl; try (split; auto; fail).
    + destruct fire; simpl; split; auto.
    + specialize (IH tok hi (S k) (fst (fire_user nm tok 0 (add_log (LStep tok hi k) w)))).
      destruct IH as [A B]. split.
      * exact (eq_trans A eq_refl).
      * intro Hb. apply B. exact Hb.
Qed.

Lemma gen_resume_quiet : forall gid how, quiet (fun w => fst (gen_resume gid how w)).
Proof.
  intros gid how w. unfold gen_resume.
  destruct (nth_error (gens w) gid) as [g|]; [|split; auto].
  destruct (g_rest g) as [sts|]; [|split; auto].
  set (w1 := match how with
             | RNext => if g_atcall g then set_bad w else w
             | RSend _ => if g_atcall g then w else set_bad w
             | RThrow => if g_atcall g then w else set_bad w end).
  assert (Q1 : triple w1 = triple w /\ (bad w = true -> bad w1 = true)).
  { unfold w1. destruct how; destruct (g_atcall g); split; auto. }
  replace (match how with
           | RNext => if g_atcall g then set_bad w else w
           | RSend _ => if g_atcall g then w else set_bad w
           | RThrow => if g_atcall g then w else set_bad w end) with w1 by reflexivity.
  destruct Q1 as [T1 B1].
  destruct how as [|e|].
  - destruct (run_steps (g_tok g) (g_hi g) (g_k g) sts w1) as [[[w2 r] k'] rest] eqn:E.
    pose proof (run_steps_quiet sts (g_tok g) (g_hi g) (g_k g) w1) as [A B]. rewrite E in A, B. simpl in A, B.
    simpl. split; [unfold triple in *; simpl; congruence | intro Hb; simpl; auto].
  - destruct (nth_error (evs w1) e) as [ev|].
    + set (w2 := add_log _ w1).
      destruct (run_steps (g_tok g) (g_hi g) (g_k g) sts w2) as [[[w3 r] k'] rest] eqn:E.
      pose proof (run_steps_quiet sts (g_tok g) (g_hi g) (g_k g) w2) as [A B]. rewrite E in A, B. simpl in A, B.
      simpl. split; [unfold triple in *; simpl in *; congruence | intro Hb; simpl; apply B; simpl; auto].
    + set (w2 := set_bad w1).
      destruct (run_steps (g_tok g) (g_hi g) (g_k g) sts w2) as [[[w3 r] k'] rest] eqn:E.
      pose proof (run_steps_quiet sts (g_tok g) (g_hi g) (g_k g) w2) as [A B]. rewrite E in A, B. simpl in A, B.
      simpl. split; [unfold triple in *; simpl in *; congruence | intro Hb; simpl; apply B; simpl; auto].
  - destruct (g_catch g).
    + set (w2 := add_log _ w1).
      destruct (run_steps (g_tok g) (g_hi g) (g_k g) sts w2) as [[[w3 r] k'] rest] eqn:E.
      pose proof (run_steps_quiet sts (g_tok g) (g_hi g) (g_k g) w2) as [A B]. rewrite E in A, B. simpl in A, B.
      simpl. split; [unfold triple in *; simpl in *; congruence | intro Hb; simpl; apply B; simpl; auto].
    + simpl. split; [unfold triple in *; simpl in *; congruence | intro Hb; simpl; auto].
Qed.

(* ------------------------------------------------------------------ the invariant *)

Definition sid_of (h : th) : nat := match h with THEv s | THDone s | THTick s => s end.
Definition is_rt (sid : nat) (t : task) : bool := tref_eqb (t_ref t) (RTimeout sid).
Definition count_rt (sid : nat) (ts : list task) : nat := length (filter (is_rt sid) ts).
Definition alive (ph : phase) : nat := match ph with Dead => 0 | _ => 1 end.

Definition wst_time_ok (st : wst) : Prop :=
  if s_timedout st then Z.of_nat (s_ticks st) = s_tmo0 st + 1
  else (s_tmo0 st < 0 -> s_timeout st = s_tmo0 st) /\
       (0 <= s_tmo0 st -> 0 <= s_timeout st /\ s_timeout st + Z.of_nat (s_ticks st) = s_tmo0 st).

Record sid_ok (hs : list th) (ts : list task) (sid : nat) (st : wst) : Prop := {
  so_ev : In (THEv sid) hs <-> s_ph st = Armed;
  so_done : In (THDone sid) hs <-> s_ph st <> Dead;
  so_tick : In (THTick sid) hs <-> (s_ph st = Armed \/ s_ph st = Seen) /\ 0 <= s_timeout st;
  so_armed : s_ph st = Armed -> s_run st = false /\ s_event st = None;
  so_tmo : s_timedout st = true -> s_ph st = Dead /\ s_timeout st = 0;
  so_time : wst_time_ok st;
  so_credit : (s_resumes st + alive (s_ph st) + count_rt sid ts = 1)%nat;
  so_rt : (0 < count_rt sid ts)%nat -> s_timedout st = true }.

Definition task_ok (ss : list wst) (t : task) : Prop :=
  match t_ref t with
  | RGen _ => t_parent t = None
  | RWait sid => exists st, nth_error ss sid = Some st /\ s_ph st = Flagged /\
                            t = mk_task (s_tevent st) (RWait sid) (Some (s_parent st))
  | RTimeout sid => exists st, nth_error ss sid = Some st /\
                               t = mk_task (s_tevent st) (RTimeout sid) (Some (s_parent st))
  end.

Definition IC3 (hs : list th) (ss : list wst) (ts : list task) : Prop :=
  NoDup hs /\ (forall h, In h hs -> (sid_of h < length ss)%nat) /\
  (forall sid st, nth_error ss sid = Some st -> sid_ok hs ts sid st) /\
  NoDup ts /\ (forall t, In t ts -> task_ok ss t).

Definition IC (w : world) : Prop := IC3 (ths w) (wsts w) (tasks w).
Definition Inv (w : world) : Prop := bad w = true \/ IC w.

Lemma quiet_Inv : forall f, quiet f -> forall w, Inv w -> Inv (f w).
Proof.
  intros f Q w [Hb|Hi]; destruct (Q w) as [T B].
  - left. auto.
  - right. unfold IC in *. unfold triple in T. inversion T. rewrite H0, H1, H2. assumption.
Qed.

(* count_rt *)
Lemma count_rt_app : forall sid a b, count_rt sid (a ++ b) = (count_rt sid a + count_rt sid b)%nat.
Proof. intros. unfold count_rt. rewrite filter_app, app_length. reflexivity. Qed.

Lemma count_rt_unreg_other : forall sid t l, is_rt sid t = false ->
  count_rt sid (filter (fun u => negb (task_eqb t u)) l) = count_rt sid l.
Proof.
  intros sid t l H. unfold count_rt. induction l as [|x r IH]; simpl; [reflexivity|].
  destruct (task_eqb t x) eqn:E; simpl.
  - apply task_eqb_eq in E. subst x. rewrite H. assumption.
  - destruct (is_rt sid x); simpl; congruence.
Qed.

Lemma count_rt_zero : forall sid l, (forall t, In t l -> is_rt sid t = false) -> count_rt sid l = O.
Proof.
  intros sid l H. unfold count_rt. induction l as [|x r IH]; simpl; [reflexivity|].
  rewrite (H x) by (left; reflexivity). apply IH. intros t Ht. apply H. right. assumption.
Qed.

Lemma count_rt_pos_In : forall sid l, (0 < count_rt sid l)%nat -> exists t, In t l /\ is_rt sid t = true.
Proof.
  intros sid l. unfold count_rt. induction l as [|x r IH]; simpl; [lia|].
  destruct (is_rt sid x) eqn:E.
  - intros _. exists x. auto.
  - intro H. destruct (IH H) as [t [A B]]. exists t. auto.
Qed.

(* removing the one canonical RTimeout task of sid from a duplicate-free set *)
Lemma count_rt_unreg_self : forall sid t l, NoDup l -> In t l -> is_rt sid t = true ->
  (forall u, In u l -> is_rt sid u = true -> u = t) ->
  count_rt sid (filter (fun u => negb (task_eqb t u)) l) = O.
Proof.
  intros sid t l ND Hin Hrt Hu. apply count_rt_zero. intros u Hu'. apply In_unreg in Hu'. destruct Hu' as [A B].
  destruct (is_rt sid u) eqn:E; [|reflexivity]. exfalso. apply B. apply Hu; assumption.
Qed.

Lemma is_rt_other : forall sid sid' t, is_rt sid t = true -> sid <> sid' -> is_rt sid' t = false.
Proof.
  intros sid sid' t H Hn. unfold is_rt in *. apply tref_eqb_eq in H.
  destruct (tref_eqb (t_ref t) (RTimeout sid')) eqn:E; [|reflexivity].
  apply tref_eqb_eq in E. rewrite H in E. inversion E. contradiction.
Qed.

Lemma sid_ok_ext : forall hs ts hs' ts' sid st,
  sid_ok hs ts sid st ->
  (forall h, sid_of h = sid -> (In h hs' <-> In h hs)) ->
  count_rt sid ts' = count_rt sid ts ->
  sid_ok hs' ts' sid st.
Proof.
  intros hs ts hs' ts' sid st [A B C D E F G G2] Hh Hc.
  constructor; auto.
  - rewrite (Hh (THEv sid)) by reflexivity. assumption.
  - rewrite (Hh (THDone sid)) by reflexivity. assumption.
  - rewrite (Hh (THTick sid)) by reflexivity. assumption.
  - rewrite Hc. assumption.
  - rewrite Hc. assumption.
Qed.

Lemma NoDup_snoc : forall {A} (l : list A) a, NoDup l -> ~ In a l -> NoDup (l ++ [a]).
Proof.
  intros A l a ND Hn. induction l as [|x r IH]; simpl.
  - constructor; [intros []|constructor].
  - inversion ND; subst. constructor.
    + rewrite in_app_iff. intros [H|[H|[]]]; [contradiction|]. subst. apply Hn. left. reflexivity.
    + apply IH; [assumption|]. intro H. apply Hn. right. assumption.
Qed.

Lemma task_ok_app : forall ss x t, task_ok ss t -> task_ok (ss ++ [x]) t.
Proof.
  intros ss x t H. unfold task_ok in *. destruct (t_ref t) as [g|sid|sid]; [assumption| |].
  - destruct H as [st [A B]]. exists st. split; [|assumption].
    rewrite nth_error_app1; [assumption|]. apply nth_error_Some. congruence.
  - destruct H as [st [A B]]. exists st. split; [|assumption].
    rewrite nth_error_app1; [assumption|]. apply nth_error_Some. congruence.
Qed.

(* updating wait state sid with f that keeps the task-identifying fields; tasks RWait sid must stay Flagged *)
Lemma task_ok_upd : forall ss sid f t, task_ok ss t ->
  (forall st, s_tevent (f st) = s_tevent st /\ s_parent (f st) = s_parent st) ->
  (t_ref t = RWait sid -> forall st, nth_error ss sid = Some st -> s_ph st = Flagged -> s_ph (f st) = Flagged) ->
  task_ok (upd_nth sid f ss) t.
Proof.
  intros ss sid f t H Hf Hw. unfold task_ok in *. destruct (t_ref t) as [g|s|s] eqn:R; [assumption| |].
  - destruct H as [st [A [B C]]]. rewrite nth_error_upd_nth. destruct (Nat.eqb sid s) eqn:E.
    + apply Nat.eqb_eq in E. subst s. rewrite A. simpl. exists (f st). split; [reflexivity|].
      destruct (Hf st) as [F1 F2]. rewrite F1, F2. split; [|assumption]. apply (Hw eq_refl st A B).
    + exists st. auto.
  - destruct H as [st [A C]]. rewrite nth_error_upd_nth. destruct (Nat.eqb sid s) eqn:E.
    + apply Nat.eqb_eq in E. subst s. rewrite A. simpl. exists (f st). split; [reflexivity|].
      destruct (Hf st) as [F1 F2]. rewrite F1, F2. assumption.
    + exists st. auto.
Qed.

(* ------------------------------------------------------------------ task-set operations *)

Lemma IC_reg_gen : forall w t g, IC w -> t_ref t = RGen g -> t_parent t = None -> IC (reg_task t w).
Proof.
  intros w t g [A [B [C [D E]]]] R P. unfold reg_task. destruct (existsb (task_eqb t) (tasks w)) eqn:X.
  - exact (conj A (conj B (conj C (conj D E)))).
  - assert (Hn : ~ In t (tasks w)). { intro H. apply existsb_task in H. congruence. }
    unfold IC, IC3. simpl. split; [assumption|]. split; [assumption|]. split; [|split].
    + intros sid st Hs. apply (sid_ok_ext (ths w) (tasks w)); [auto|tauto|].
      rewrite count_rt_app. unfold count_rt at 2. simpl. unfold is_rt. rewrite R. simpl. lia.
    + apply NoDup_snoc; assumption.
    + intros u Hu. apply in_app_iff in Hu. destruct Hu as [Hu|[Hu|[]]]; [auto|]. subst u.
      unfold task_ok. rewrite R. assumption.
Qed.

Lemma IC_unreg_gen : forall w t g, IC w -> t_ref t = RGen g -> IC (unreg_task t w).
Proof.
  intros w t g [A [B [C [D E]]]] R. unfold IC, IC3, unreg_task. simpl.
  split; [assumption|]. split; [assumption|]. split; [|split].
  - intros sid st Hs. apply (sid_ok_ext (ths w) (tasks w)); [auto|tauto|].
    apply count_rt_unreg_other. unfold is_rt. rewrite R. reflexivity.
  - apply NoDup_filter. assumption.
  - intros u Hu. apply In_unreg in Hu. apply E. tauto.
Qed.

(* ------------------------------------------------------------------ install *)

Lemma In_install : forall nm obj tmo cv tev par w h,
  In h (ths (install nm obj tmo cv tev par w)) <->
  In h (ths w) \/ h = THEv (length (wsts w)) \/ h = THDone (length (wsts w)) \/ (h = THTick (length (wsts w)) /\ 0 <= tmo).
Proof.
  intros. unfold install. destruct (0 <=? tmo) eqn:E; simpl.
  - apply Z.leb_le in E. rewrite !in_app_iff. simpl. intuition (subst; auto).
  - apply Z.leb_gt in E. rewrite !in_app_iff. simpl. intuition (subst; auto). lia.
Qed.

Lemma install_wsts : forall nm obj tmo cv tev par w,
  wsts (install nm obj tmo cv tev par w) = wsts w ++ [new_wst nm obj tmo cv tev par].
Proof. intros. unfold install. destruct (0 <=? tmo); reflexivity. Qed.
Lemma install_tasks : forall nm obj tmo cv tev par w, tasks (install nm obj tmo cv tev par w) = tasks w.
Proof. intros. unfold install. destruct (0 <=? tmo); reflexivity. Qed.
Lemma install_bad : forall nm obj tmo cv tev par w, bad (install nm obj tmo cv tev par w) = bad w.
Proof. intros. unfold install. destruct (0 <=? tmo); reflexivity. Qed.

Lemma install_NoDup : forall nm obj tmo cv tev par w,
  NoDup (ths w) -> (forall h, In h (ths w) -> (sid_of h < length (wsts w))%nat) ->
  NoDup (ths (install nm obj tmo cv tev par w)).
Proof.
  intros nm obj tmo cv tev par w ND R. unfold install.
  assert (F : forall h, sid_of h = length (wsts w) -> ~ In h (ths w)).
  { intros h Hs Hin. apply R in Hin. lia. }
  assert (N2 : NoDup ((ths w ++ [THEv (length (wsts w))]) ++ [THDone (length (wsts w))])).
  { apply NoDup_snoc; [apply NoDup_snoc; [assumption|apply F; reflexivity]|].
    rewrite in_app_iff. intros [H|[H|[]]]; [revert H; apply F; reflexivity|discriminate]. }
  destruct (0 <=? tmo); simpl; [|exact N2].
  apply NoDup_snoc; [exact N2|].
  rewrite !in_app_iff. intros [[H|[H|[]]]|[H|[]]]; try discriminate. revert H. apply F. reflexivity.
Qed.

Lemma IC_install : forall nm obj tmo cv tev par w, IC w -> IC (install nm obj tmo cv tev par w).
Proof.
  intros nm obj tmo cv tev par w [A [B [C [D E]]]]. unfold IC, IC3.
  rewrite install_wsts, install_tasks.
  split; [apply install_NoDup; assumption|].
  split.
  { intros h Hh. apply In_install in Hh. rewrite app_length. simpl.
    destruct Hh as [Hh|[Hh|[Hh|[Hh _]]]]; [apply B in Hh; lia|subst; simpl; lia..]. }
  split.
  { intros sid st Hs. apply nth_error_snoc in Hs. destruct Hs as [[Hs Hl]|[Hl Hs]].
    - apply (sid_ok_ext (ths w) (tasks w)); [auto| |reflexivity].
      intros h Hh. rewrite In_install. split; [|auto].
      intros [H|[H|[H|[H _]]]]; [assumption|subst h; simpl in Hh; lia..].
    - subst sid st.
      assert (F : forall h, sid_of h = length (wsts w) -> ~ In h (ths w)).
      { intros h Hs Hin. apply B in Hin. lia. }
      assert (Z0 : count_rt (length (wsts w)) (tasks w) = O).
      { apply count_rt_zero. intros t Ht. destruct (is_rt (length (wsts w)) t) eqn:X; [|reflexivity].
        exfalso. unfold is_rt in X. apply tref_eqb_eq in X. specialize (E t Ht). unfold task_ok in E.
        rewrite X in E. destruct E as [st [E1 _]].
        assert (nth_error (wsts w) (length (wsts w)) <> None) by congruence.
        apply nth_error_Some in H. lia. }
      constructor; simpl.
      + rewrite In_install. tauto.
      + rewrite In_install. split; [discriminate|tauto].
      + rewrite In_install. split.
        * intros [H|[H|[H|[H H']]]]; [exfalso; revert H; apply F; reflexivity|discriminate..|tauto].
        * tauto.
      + auto.
      + discriminate.
      + unfold wst_time_ok. simpl. split; [auto|]. intros. lia.
      + rewrite Z0. reflexivity.
      + rewrite Z0. lia. }
  split; [assumption|].
  intros t Ht. apply task_ok_app. auto.
Qed.

(* ------------------------------------------------------------------ a step that concerns one wait state *)

Lemma IC_local : forall hs ss ts hs' ts' sid f st,
  IC3 hs ss ts -> nth_error ss sid = Some st ->
  NoDup hs' -> (forall h, In h hs' -> In h hs) -> (forall h, sid_of h <> sid -> In h hs -> In h hs') ->
  sid_ok hs' ts' sid (f st) ->
  (forall sid', sid' <> sid -> count_rt sid' ts' = count_rt sid' ts) ->
  NoDup ts' -> (forall t, In t ts' -> task_ok (upd_nth sid f ss) t) ->
  IC3 hs' (upd_nth sid f ss) ts'.
Proof.
  intros hs ss ts hs' ts' sid f st [A [B [C [D E]]]] Hs ND Hsub Hoth Hok Hcnt NDt Htok.
  split; [assumption|]. split.
  { intros h Hh. rewrite length_upd_nth. auto. }
  split.
  { intros s2 st2 H2. rewrite nth_error_upd_nth in H2. destruct (Nat.eqb sid s2) eqn:X.
    - apply Nat.eqb_eq in X. subst s2. rewrite Hs in H2. simpl in H2. inversion H2. subst. assumption.
    - apply Nat.eqb_neq in X. apply (sid_ok_ext hs ts); [auto| |auto].
      intros h Hh. split; [auto|]. intro. apply Hoth; [congruence|assumption]. }
  split; assumption.
Qed.

Lemma NoDup_del : forall h l, NoDup l -> NoDup (filter (fun u => negb (th_eqb h u)) l).
Proof. intros. apply NoDup_filter. assumption. Qed.

(* _on_event *)
Lemma on_event_Inv : forall tok w sid, IC w -> Inv (on_event tok w sid).
Proof.
  intros tok w sid H. unfold on_event. destruct (bad w) eqn:Bw; [left; assumption|].
  destruct (nth_error (wsts w) sid) as [st|] eqn:Hs; [|left; reflexivity].
  destruct (negb (s_run st) && obj_ok (s_obj st) tok); [|right; assumption].
  unfold rem_th_k. destruct (has_th (THEv sid) w) eqn:Hh; [|left; reflexivity].
  apply has_th_In in Hh. right.
  change (IC3 (filter (fun u => negb (th_eqb (THEv sid) u)) (ths w)) (upd_nth sid (wst_seen tok) (wsts w)) (tasks w)).
  pose proof H as [A [B [C [D E]]]]. pose proof (C sid st Hs) as [O1 O2 O3 O4 O5 O6 O7 O8].
  assert (Ph : s_ph st = Armed) by (apply O1; assumption).
  apply (IC_local (ths w) (wsts w) (tasks w) _ _ sid (wst_seen tok) st); auto.
  - apply NoDup_del. assumption.
  - intros h Hin. apply In_del in Hin. tauto.
  - intros h Hn Hin. apply In_del. split; [assumption|]. intro. subst h. simpl in Hn. congruence.
  - constructor; unfold wst_time_ok, wst_seen; cbn [s_ph s_run s_event s_timeout s_timedout s_resumes s_ticks s_tmo0].
    + rewrite In_del. split; [intros [_ X]; congruence|discriminate].
    + rewrite In_del. split; [discriminate|]. intros _. split; [|discriminate]. apply O2. rewrite Ph. discriminate.
    + rewrite In_del. rewrite O3. rewrite Ph. split.
      * intros [[_ X] _]. split; [right; reflexivity|assumption].
      * intros [_ X]. split; [split; [left; reflexivity|assumption]|discriminate].
    + discriminate.
    + intro X. apply O5 in X. destruct X as [X _]. congruence.
    + exact O6.
    + rewrite Ph in O7. exact O7.
    + exact O8.
  - intros t Ht. apply task_ok_upd; [auto|intro; split; reflexivity|].
    intros _ st0 Hs0 F. rewrite Hs in Hs0. inversion Hs0. subst. congruence.
Qed.

Ltac wcbn := unfold wst_time_ok, wst_seen, wst_phase, wst_resumed, wst_tick, wst_timeout, wst_thrown;
             cbn [s_ph s_run s_event s_timeout s_timedout s_resumes s_ticks s_tmo0 s_tevent s_parent].

Lemma count_rt_snoc_other : forall sid t l, is_rt sid t = false -> count_rt sid (l ++ [t]) = count_rt sid l.
Proof. intros. rewrite count_rt_app. unfold count_rt at 2. simpl. rewrite H. simpl. lia. Qed.

(* _on_done, for a wait whose <name>_done handler is installed *)
Lemma on_done_Inv : forall tok w sid, IC w -> In (THDone sid) (ths w) -> Inv (on_done tok w sid).
Proof.
  intros tok w sid H Hd. unfold on_done. destruct (bad w) eqn:Bw; [left; assumption|].
  destruct (nth_error (wsts w) sid) as [st|] eqn:Hs; [|left; reflexivity].
  destruct (onat_eqb (s_event st) (Some tok)) eqn:Ev; [|right; assumption].
  apply onat_eqb_eq in Ev.
  pose proof H as [A [B [C [D E]]]]. pose proof (C sid st Hs) as [O1 O2 O3 O4 O5 O6 O7 O8].
  assert (Pd : s_ph st <> Dead) by (apply O2; assumption).
  assert (Pa : s_ph st <> Armed). { intro X. apply O4 in X. destruct X as [_ X]. congruence. }
  set (t := mk_task (s_tevent st) (RWait sid) (Some (s_parent st))).
  assert (Rt : forall s, is_rt s t = false) by reflexivity.
  (* the world after registerTask and flag *)
  set (ts' := tasks (reg_task t w)).
  assert (Hts : NoDup ts' /\ (forall u, In u ts' <-> In u (tasks w) \/ u = t) /\ (forall s, count_rt s ts' = count_rt s (tasks w))).
  { unfold ts', reg_task. destruct (existsb (task_eqb t) (tasks w)) eqn:X.
    - apply existsb_task in X. split; [assumption|]. split; [|reflexivity]. intro u. split; [auto|]. intros [U|U]; [assumption|subst; assumption].
    - simpl. split; [apply NoDup_snoc; [assumption|intro Y; apply existsb_task in Y; congruence]|].
      split; [|intro s; apply count_rt_snoc_other; apply Rt].
      intro u. rewrite in_app_iff. simpl. intuition. }
  destruct Hts as [T1 [T2 T3]].
  assert (Tok : forall u, In u ts' -> task_ok (upd_nth sid (wst_phase Flagged) (wsts w)) u).
  { intros u Hu. apply T2 in Hu. destruct Hu as [Hu|Hu].
    - apply task_ok_upd; [auto|intro; split; reflexivity|]. intros _ st0 _ _. reflexivity.
    - subst u. unfold task_ok. simpl. exists (wst_phase Flagged st). rewrite nth_error_upd_nth, Nat.eqb_refl, Hs. simpl. auto. }
  destruct (0 <=? s_timeout st) eqn:Tm.
  - apply Z.leb_le in Tm. unfold rem_th_k.
    destruct (has_th (THTick sid) (mod_wst sid (wst_phase Flagged) (reg_task t w))) eqn:Hh; [|left; reflexivity].
    apply has_th_In in Hh. right.
    replace (ths (mod_wst sid (wst_phase Flagged) (reg_task t w))) with (ths w) in Hh
      by (unfold reg_task; destruct (existsb (task_eqb t) (tasks w)); reflexivity).
    change (IC3 (filter (fun u => negb (th_eqb (THTick sid) u)) (ths (reg_task t w)))
                (upd_nth sid (wst_phase Flagged) (wsts (reg_task t w))) ts').
    replace (ths (reg_task t w)) with (ths w) by (unfold reg_task; destruct (existsb (task_eqb t) (tasks w)); reflexivity).
    replace (wsts (reg_task t w)) with (wsts w) by (unfold reg_task; destruct (existsb (task_eqb t) (tasks w)); reflexivity).
    apply (IC_local (ths w) (wsts w) (tasks w) _ _ sid (wst_phase Flagged) st); auto.
    + apply NoDup_del. assumption.
    + intros h Hin. apply In_del in Hin. tauto.
    + intros h Hn Hin. apply In_del. split; [assumption|]. intro. subst h. simpl in Hn. congruence.
    + constructor; wcbn.
      * rewrite In_del. split; [intros [X _]; apply O1 in X; contradiction|discriminate].
      * rewrite In_del. split; [discriminate|]. intros _. split; [assumption|discriminate].
      * rewrite In_del. split; [intros [_ X]; congruence|]. intros [[X|X] _]; discriminate.
      * discriminate.
      * intro X. apply O5 in X. tauto.
      * exact O6.
      * rewrite T3. destruct (s_ph st); try contradiction; exact O7.
      * rewrite T3. exact O8.
  - apply Z.leb_gt in Tm. right.
    change (IC3 (ths (reg_task t w)) (upd_nth sid (wst_phase Flagged) (wsts (reg_task t w))) ts').
    replace (ths (reg_task t w)) with (ths w) by (unfold reg_task; destruct (existsb (task_eqb t) (tasks w)); reflexivity).
    replace (wsts (reg_task t w)) with (wsts w) by (unfold reg_task; destruct (existsb (task_eqb t) (tasks w)); reflexivity).
    apply (IC_local (ths w) (wsts w) (tasks w) _ _ sid (wst_phase Flagged) st); auto.
    constructor; wcbn.
    * split; [intro X; apply O1 in X; contradiction|discriminate].
    * split; [discriminate|]. intros _. assumption.
    * split; [intro X; apply O3 in X; lia|]. intros [[X|X] _]; discriminate.
    * discriminate.
    * intro X. apply O5 in X. tauto.
    * exact O6.
    * rewrite T3. destruct (s_ph st); try contradiction; exact O7.
    * rewrite T3. exact O8.
Qed.

Lemma on_done_keeps_done : forall tok w sid s, In (THDone s) (ths w) -> In (THDone s) (ths (on_done tok w sid)).
Proof.
  intros tok w sid s H. unfold on_done. destruct (bad w); [assumption|].
  destruct (nth_error (wsts w) sid) as [st|]; [|assumption].
  destruct (onat_eqb (s_event st) (Some tok)); [|assumption].
  cbv zeta. set (t := mk_task _ _ _).
  assert (X : ths (reg_task t w) = ths w)
    by (unfold reg_task; destruct (existsb (task_eqb t) (tasks w)); reflexivity).
  destruct (0 <=? s_timeout st).
  - unfold rem_th_k. destruct (has_th _ _).
    + change (In (THDone s) (filter (fun u => negb (th_eqb (THTick sid) u)) (ths (reg_task t w)))).
      rewrite X. apply In_del. split; [assumption|discriminate].
    + change (In (THDone s) (ths (reg_task t w))). rewrite X. assumption.
  - change (In (THDone s) (ths (reg_task t w))). rewrite X. assumption.
Qed.

(* _on_tick *)
Lemma on_tick_fire : forall w sid st hs1,
  IC w -> nth_error (wsts w) sid = Some st -> s_timeout st = 0 ->
  NoDup hs1 -> (forall h, In h hs1 -> In h (ths w)) -> (forall h, sid_of h <> sid -> In h (ths w) -> In h hs1) ->
  ~ In (THEv sid) hs1 -> In (THDone sid) hs1 -> In (THTick sid) hs1 ->
  IC3 (filter (fun u => negb (th_eqb (THTick sid) u)) (filter (fun u => negb (th_eqb (THDone sid) u)) hs1))
      (upd_nth sid wst_timeout (wsts w))
      (tasks (reg_task (mk_task (s_tevent st) (RTimeout sid) (Some (s_parent st))) w)).
Proof.
  intros w sid st hs1 H Hs T0 ND Hsub Hoth Nev Hd Ht.
  pose proof H as [A [B [C [D E]]]]. pose proof (C sid st Hs) as [O1 O2 O3 O4 O5 O6 O7 O8].
  set (t := mk_task (s_tevent st) (RTimeout sid) (Some (s_parent st))).
  assert (Ph : s_ph st = Armed \/ s_ph st = Seen). { apply Hsub in Ht. apply O3 in Ht. tauto. }
  assert (Al : alive (s_ph st) = 1%nat) by (destruct Ph as [X|X]; rewrite X; reflexivity).
  assert (R0 : s_resumes st = O /\ count_rt sid (tasks w) = O) by lia. destruct R0 as [R0 C0].
  assert (Rt : is_rt sid t = true). { unfold is_rt, t. simpl. apply Nat.eqb_refl. }
  assert (Hn : ~ In t (tasks w)).
  { intro X. assert (0 < count_rt sid (tasks w))%nat; [|lia].
    unfold count_rt. clear -X Rt. induction (tasks w) as [|x r IH]; [destruct X|]. simpl.
    destruct X as [X|X]; [subst; rewrite Rt; simpl; lia|]. destruct (is_rt sid x); simpl; [lia|auto]. }
  assert (Tk : tasks (reg_task t w) = tasks w ++ [t]).
  { unfold reg_task. destruct (existsb (task_eqb t) (tasks w)) eqn:X; [|reflexivity].
    apply existsb_task in X. contradiction. }
  rewrite Tk.
  apply (IC_local (ths w) (wsts w) (tasks w) _ _ sid wst_timeout st); auto.
  - apply NoDup_del. apply NoDup_del. assumption.
  - intros h Hin. apply In_del in Hin. destruct Hin as [Hin _]. apply In_del in Hin. apply Hsub. tauto.
  - intros h Hn' Hin. apply In_del. split; [apply In_del; split; [auto|]|]; intro; subst h; simpl in Hn'; congruence.
  - constructor; wcbn.
    + rewrite !In_del. split; [tauto|discriminate].
    + rewrite !In_del. split; [tauto|]. intro X. exfalso. apply X. reflexivity.
    + rewrite !In_del. split; [tauto|]. intros [[X|X] _]; discriminate.
    + discriminate.
    + auto.
    + unfold wst_time_ok in O6. destruct (s_timedout st) eqn:TO.
      * destruct (O5 eq_refl) as [X _]. destruct Ph; congruence.
      * destruct O6 as [P1 P2]. destruct (Z_lt_ge_dec (s_tmo0 st) 0) as [L|L]; [specialize (P1 L); lia|].
        assert (0 <= s_tmo0 st) by lia. specialize (P2 H0). lia.
    + rewrite count_rt_app. unfold count_rt at 2. simpl. rewrite Rt. simpl. lia.
    + reflexivity.
  - intros s' Hne. apply count_rt_snoc_other. apply (is_rt_other sid); [assumption|congruence].
  - apply NoDup_snoc; assumption.
  - intros u Hu. apply in_app_iff in Hu. destruct Hu as [Hu|[Hu|[]]].
    + apply task_ok_upd; [auto|intro; split; reflexivity|].
      intros _ st0 Hs0 F. rewrite Hs in Hs0. inversion Hs0. subst. destruct Ph; congruence.
    + subst u. unfold task_ok. simpl. exists (wst_timeout st).
      rewrite nth_error_upd_nth, Nat.eqb_refl, Hs. simpl. auto.
Qed.

Lemma reg_task_ths : forall t w, ths (reg_task t w) = ths w.
Proof. intros. unfold reg_task. destruct (existsb _ _); reflexivity. Qed.
Lemma reg_task_wsts : forall t w, wsts (reg_task t w) = wsts w.
Proof. intros. unfold reg_task. destruct (existsb _ _); reflexivity. Qed.
Lemma reg_task_bad : forall t w, bad (reg_task t w) = bad w.
Proof. intros. unfold reg_task. destruct (existsb _ _); reflexivity. Qed.

Lemma on_tick_Inv : forall w sid, IC w -> Inv (on_tick w sid).
Proof.
  intros w sid H. unfold on_tick. destruct (bad w) eqn:Bw; [left; assumption|].
  destruct (nth_error (wsts w) sid) as [st|] eqn:Hs; [|left; reflexivity].
  pose proof H as [A [B [C [D E]]]]. pose proof (C sid st Hs) as [O1 O2 O3 O4 O5 O6 O7 O8].
  destruct (s_timeout st =? 0) eqn:T0.
  - apply Z.eqb_eq in T0. cbv zeta. set (t := mk_task (s_tevent st) (RTimeout sid) (Some (s_parent st))).
    destruct (s_run st) eqn:Rn.
    + unfold rem_th_k.
      destruct (has_th (THDone sid) (reg_task t w)) eqn:H1; [|left; reflexivity].
      destruct (has_th (THTick sid) (del_th (THDone sid) (reg_task t w))) eqn:H2; [|left; reflexivity].
      apply has_th_In in H1. apply has_th_In in H2. rewrite reg_task_ths in H1.
      change (In (THTick sid) (filter (fun u => negb (th_eqb (THDone sid) u)) (ths (reg_task t w)))) in H2.
      rewrite reg_task_ths in H2. apply In_del in H2. destruct H2 as [H2 _].
      right.
      change (IC3 (filter (fun u => negb (th_eqb (THTick sid) u)) (filter (fun u => negb (th_eqb (THDone sid) u)) (ths (reg_task t w))))
                  (upd_nth sid wst_timeout (wsts (reg_task t w))) (tasks (reg_task t w))).
      rewrite reg_task_ths, reg_task_wsts. apply on_tick_fire; auto.
      intro X. apply O1 in X. apply O4 in X. destruct X. congruence.
    + unfold rem_th_k.
      destruct (has_th (THEv sid) (reg_task t w)) eqn:H0; [|left; reflexivity].
      destruct (has_th (THDone sid) (del_th (THEv sid) (reg_task t w))) eqn:H1; [|left; reflexivity].
      destruct (has_th (THTick sid) (del_th (THDone sid) (del_th (THEv sid) (reg_task t w)))) eqn:H2; [|left; reflexivity].
      apply has_th_In in H0. apply has_th_In in H1. apply has_th_In in H2. rewrite reg_task_ths in H0.
      change (In (THDone sid) (filter (fun u => negb (th_eqb (THEv sid) u)) (ths (reg_task t w)))) in H1.
      change (In (THTick sid) (filter (fun u => negb (th_eqb (THDone sid) u))
                 (filter (fun u => negb (th_eqb (THEv sid) u)) (ths (reg_task t w))))) in H2.
      rewrite reg_task_ths in H1, H2. apply In_del in H2. destruct H2 as [H2 _].
      right.
      change (IC3 (filter (fun u => negb (th_eqb (THTick sid) u)) (filter (fun u => negb (th_eqb (THDone sid) u))
                     (filter (fun u => negb (th_eqb (THEv sid) u)) (ths (reg_task t w)))))
                  (upd_nth sid wst_timeout (wsts (reg_task t w))) (tasks (reg_task t w))).
      rewrite reg_task_ths, reg_task_wsts. apply on_tick_fire; auto.
      * apply NoDup_del. assumption.
      * intros h X. apply In_del in X. tauto.
      * intros h Hn X. apply In_del. split; [assumption|]. intro. subst h. simpl in Hn. congruence.
      * rewrite In_del. intros [_ X]. apply X. reflexivity.
  - apply Z.eqb_neq in T0. destruct (0 <? s_timeout st) eqn:T1; [|right; assumption].
    apply Z.ltb_lt in T1. right.
    change (IC3 (ths w) (upd_nth sid wst_tick (wsts w)) (tasks w)).
    apply (IC_local (ths w) (wsts w) (tasks w) _ _ sid wst_tick st); auto.
    + constructor; wcbn; auto.
      * rewrite O3. intuition lia.
      * intro X. apply O5 in X. lia.
      * unfold wst_time_ok in O6. destruct (s_timedout st) eqn:TO; [destruct (O5 eq_refl); lia|].
        destruct O6 as [P1 P2]. split; intro L; [specialize (P1 L); lia|specialize (P2 L); lia].
    + intros u Hu. apply task_ok_upd; [auto|intro; split; reflexivity|]. intros _ st0 _ F. exact F.
Qed.

(* ------------------------------------------------------------------ processTask *)

Lemma IC_quiet : forall f, quiet f -> forall w, IC w -> IC (f w).
Proof.
  intros f Q w H. destruct (Q w) as [T _]. unfold IC in *. unfold triple in T. inversion T. rewrite H1, H2, H3. assumption.
Qed.

Lemma IC_mod_evt : forall tok f w, IC w -> IC (mod_evt tok f w).
Proof. intros tok f w H. exact H. Qed.
Lemma IC_event_done : forall tok err w, IC w -> IC (event_done tok err w).
Proof. intros tok err w H. exact (IC_quiet _ (event_done_quiet tok err) w H). Qed.

Lemma continue_parent_IC : forall tev p how w, IC w -> IC (continue_parent tev p how w).
Proof.
  intros tev p how w H. unfold continue_parent.
  pose proof (IC_quiet _ (gen_resume_quiet p how) w H) as H1. cbv beta in H1.
  destruct (gen_resume p how w) as [w1 r]. simpl in H1.
  destruct r.
  - apply (IC_reg_gen _ _ p); [|reflexivity|reflexivity]. apply IC_mod_evt. assumption.
  - apply IC_install. assumption.
  - apply (IC_reg_gen _ _ p); [|reflexivity|reflexivity]. apply IC_mod_evt. assumption.
  - apply IC_event_done. apply IC_mod_evt. assumption.
Qed.

Lemma unreg_task_ths : forall t w, ths (unreg_task t w) = ths w. Proof. reflexivity. Qed.

Lemma ptask_body_Inv : forall t w, IC w -> In t (tasks w) -> Inv (ptask_body t w).
Proof.
  intros t w H Hin. unfold ptask_body.
  pose proof H as [A [B [C [D E]]]]. pose proof (E t Hin) as Tok. unfold task_ok in Tok.
  destruct (t_ref t) as [g|sid|sid] eqn:R.
  - (* the handler generator itself *)
    pose proof (IC_quiet _ (gen_resume_quiet g RNext) w H) as H1. cbv beta in H1.
    destruct (gen_resume g RNext w) as [w1 r]. simpl in H1. right.
    destruct r.
    + apply IC_mod_evt. assumption.
    + apply IC_install. apply (IC_unreg_gen _ _ g); [|reflexivity]. apply IC_mod_evt. assumption.
    + assert (IC (unreg_task t (mod_evt (t_ev t) (add_wait (-1)) w1))).
      { apply (IC_unreg_gen _ _ g); [|assumption]. apply IC_mod_evt. assumption. }
      destruct (t_parent t).
      * apply (IC_reg_gen _ _ n); [assumption|reflexivity|reflexivity].
      * apply IC_event_done. assumption.
    + apply IC_event_done. apply IC_mod_evt. apply (IC_unreg_gen _ _ g); assumption.
  - (* the wait generator, registered by _on_done *)
    destruct Tok as [st [Hs [Ph Tq]]]. rewrite Hs.
    pose proof (C sid st Hs) as [O1 O2 O3 O4 O5 O6 O7 O8].
    assert (Hd : In (THDone sid) (ths w)). { apply O2. rewrite Ph. discriminate. }
    apply has_th_In in Hd. rewrite Hd.
    destruct (match s_event st with Some e => Some e | None => s_callval st end) as [e|]; [|left; reflexivity].
    rewrite Tq at 1. simpl t_parent. right.
    apply continue_parent_IC.
    change (IC3 (filter (fun u => negb (th_eqb (THDone sid) u)) (ths w)) (upd_nth sid wst_resumed (wsts w))
                (filter (fun u => negb (task_eqb t u)) (tasks w))).
    assert (Rt : forall s, is_rt s t = false). { intro s. unfold is_rt. rewrite R. reflexivity. }
    rewrite Ph in O7. simpl in O7.
    apply (IC_local (ths w) (wsts w) (tasks w) _ _ sid wst_resumed st); auto.
    + apply NoDup_del. assumption.
    + intros h X. apply In_del in X. tauto.
    + intros h Hn X. apply In_del. split; [assumption|]. intro. subst h. simpl in Hn. congruence.
    + constructor; wcbn.
      * rewrite In_del. split; [intros [X _]; apply O1 in X; congruence|discriminate].
      * rewrite In_del. split; [intros [_ X] _; apply X; reflexivity|]. intro X. exfalso. apply X. reflexivity.
      * rewrite In_del. split; [intros [X _]; apply O3 in X; destruct X as [[X|X] _]; congruence|]. intros [[X|X] _]; discriminate.
      * discriminate.
      * intro X. apply O5 in X. destruct X. congruence.
      * exact O6.
      * rewrite count_rt_unreg_other by apply Rt. unfold alive. lia.
      * rewrite count_rt_unreg_other by apply Rt. exact O8.
    + intros s' _. apply count_rt_unreg_other. apply Rt.
    + apply NoDup_filter. assumption.
    + intros u Hu. apply In_unreg in Hu. destruct Hu as [Hu Hne].
      pose proof (E u Hu) as Uok. unfold task_ok in *.
      destruct (t_ref u) as [g'|s'|s'] eqn:Ru; [assumption| |].
      * destruct Uok as [st' [Hs' [Ph' Uq]]]. destruct (Nat.eq_dec s' sid) as [X|X].
        -- subst s'. rewrite Hs in Hs'. inversion Hs'. subst st'. exfalso. apply Hne. congruence.
        -- exists st'. rewrite nth_error_upd_nth. apply Nat.eqb_neq in X. rewrite Nat.eqb_sym, X. auto.
      * destruct Uok as [st' [Hs' Uq]]. rewrite nth_error_upd_nth. destruct (Nat.eqb sid s') eqn:X.
        -- apply Nat.eqb_eq in X. subst s'. rewrite Hs'. simpl. exists (wst_resumed st'). auto.
        -- exists st'. auto.
  - (* the pending TimeoutError *)
    destruct Tok as [st [Hs Tq]].
    rewrite Tq at 1. simpl t_parent. right. apply continue_parent_IC.
    change (IC3 (ths w) (upd_nth sid wst_thrown (wsts w)) (filter (fun u => negb (task_eqb t u)) (tasks w))).
    pose proof (C sid st Hs) as [O1 O2 O3 O4 O5 O6 O7 O8].
    assert (Rt : is_rt sid t = true). { unfold is_rt. rewrite R. simpl. apply Nat.eqb_refl. }
    assert (Uq : forall u, In u (tasks w) -> is_rt sid u = true -> u = t).
    { intros u Hu Ru. unfold is_rt in Ru. apply tref_eqb_eq in Ru. pose proof (E u Hu) as Uok. unfold task_ok in Uok.
      rewrite Ru in Uok. destruct Uok as [st' [Hs' Uq]]. rewrite Hs in Hs'. inversion Hs'. subst st'. congruence. }
    assert (C1 : (1 <= count_rt sid (tasks w))%nat).
    { unfold count_rt. clear -Hin Rt. induction (tasks w) as [|x r IH]; [destruct Hin|]. simpl.
      destruct Hin as [X|X]; [subst; rewrite Rt; simpl; lia|]. destruct (is_rt sid x); simpl; [lia|auto]. }
    apply (IC_local (ths w) (wsts w) (tasks w) _ _ sid wst_thrown st); auto.
    + constructor; wcbn; auto.
      * rewrite (count_rt_unreg_self sid t) by assumption. lia.
    + intros s' Hne. apply count_rt_unreg_other. apply (is_rt_other sid); [assumption|congruence].
    + apply NoDup_filter. assumption.
    + intros u Hu. apply In_unreg in Hu. destruct Hu as [Hu Hne].
      apply task_ok_upd; [auto|intro; split; reflexivity|]. intros _ st0 _ F. exact F.
Qed.

(* processing one task removes no other task from the set *)
Lemma quiet_tasks : forall f, quiet f -> forall w, tasks (f w) = tasks w.
Proof. intros f Q w. destruct (Q w) as [T _]. unfold triple in T. inversion T. reflexivity. Qed.

Lemma In_reg_task : forall t u w, In u (tasks w) -> In u (tasks (reg_task t w)).
Proof. intros t u w H. unfold reg_task. destruct (existsb _ _); [assumption|]. simpl. apply in_app_iff. auto. Qed.

Lemma continue_parent_tasks : forall tev p how w u, In u (tasks w) -> In u (tasks (continue_parent tev p how w)).
Proof.
  intros tev p how w u H. unfold continue_parent.
  pose proof (quiet_tasks _ (gen_resume_quiet p how) w) as T. cbv beta in T.
  destruct (gen_resume p how w) as [w1 r]. simpl in T. rewrite <- T in H.
  destruct r; try (apply In_reg_task; exact H); [rewrite install_tasks|rewrite (quiet_tasks _ (event_done_quiet _ _))]; exact H.
Qed.

Lemma ptask_keeps : forall t u w, In u (tasks w) -> u <> t ->
  (forall g, t_ref t = RGen g -> t_parent t = None) -> In u (tasks (ptask t w)).
Proof.
  intros t u w H Hne Hp. unfold ptask. destruct (bad w); [assumption|]. unfold ptask_body.
  destruct (t_ref t) as [g|sid|sid] eqn:R.
  - pose proof (quiet_tasks _ (gen_resume_quiet g RNext) w) as T. cbv beta in T.
    destruct (gen_resume g RNext w) as [w1 r]. simpl in T. rewrite <- T in H.
    assert (Tq : mk_task (t_ev t) (RGen g) None = t).
    { pose proof (Hp g eq_refl) as Pn. destruct t as [e r' p']. simpl in *. subst. reflexivity. }
    destruct r.
    + exact H.
    + rewrite install_tasks. rewrite Tq. simpl. apply In_unreg. auto.
    + assert (X : In u (tasks (unreg_task t (mod_evt (t_ev t) (add_wait (-1)) w1)))) by (simpl; apply In_unreg; auto).
      destruct (t_parent t); [apply In_reg_task; exact X|].
      rewrite (quiet_tasks _ (event_done_quiet _ _)). exact X.
    + rewrite (quiet_tasks _ (event_done_quiet _ _)). simpl. apply In_unreg. auto.
  - destruct (nth_error (wsts w) sid) as [st|]; [|exact H].
    destruct (has_th (THDone sid) w).
    + destruct (match s_event st with Some e => Some e | None => s_callval st end) as [e|]; [|exact H].
      destruct (t_parent t); [|exact H].
      apply continue_parent_tasks. simpl. apply In_unreg. auto.
    + simpl. apply In_unreg. auto.
  - destruct (t_parent t).
    + apply continue_parent_tasks. simpl. apply In_unreg. auto.
    + simpl. apply In_unreg. auto.
Qed.

Lemma ptask_Inv : forall t w, Inv w -> (bad w = false -> In t (tasks w)) -> Inv (ptask t w).
Proof.
  intros t w [Hb|Hi] Hin; unfold ptask.
  - rewrite Hb. left. assumption.
  - destruct (bad w) eqn:Bw; [left; assumption|]. apply ptask_body_Inv; auto.
Qed.

Lemma fold_ptask_Inv : forall l w, Inv w -> NoDup l -> (bad w = false -> forall u, In u l -> In u (tasks w)) ->
  Inv (fold_left (fun w t => ptask t w) l w).
Proof.
  induction l as [|t r IH]; intros w Hi ND Hin; simpl; [assumption|].
  inversion ND as [|? ? Hnt NDr]; subst.
  apply IH; [apply ptask_Inv; [assumption|intro Bw; apply Hin; [assumption|left; reflexivity]]|assumption|].
  intros Bw' u Hu.
  destruct (bad w) eqn:Bw.
  - unfold ptask in Bw'. rewrite Bw in Bw'. congruence.
  - destruct Hi as [Hb|Hi]; [congruence|].
    apply ptask_keeps; [apply Hin; [reflexivity|right; assumption]|intro; subst; contradiction|].
    intros g R. destruct Hi as [_ [_ [_ [_ E]]]].
    assert (In t (tasks w)) by (apply Hin; [reflexivity|left; reflexivity]).
    specialize (E t H). unfold task_ok in E. rewrite R in E. exact E.
Qed.

(* the schedule only permutes *)
Lemma pick_spec : forall w k l t r, pick w k l = Some (t, r) ->
  In t l /\ (forall u, In u r -> In u l) /\ (NoDup l -> NoDup r /\ ~ In t r).
Proof.
  intros w k l. induction l as [|x l' IH]; intros t r H; simpl in H; [discriminate|].
  destruct (key_eqb (tkey w x) k).
  - inversion H; subst. split; [left; reflexivity|]. split; [intros; right; assumption|].
    intro ND. inversion ND; subst. auto.
  - destruct (pick w k l') as [[u r']|] eqn:P; [|discriminate]. inversion H; subst.
    destruct (IH t r' eq_refl) as [A [B C]]. split; [right; assumption|]. split.
    + intros u [Hu|Hu]; [left; assumption|right; apply B; assumption].
    + intro ND. inversion ND; subst. destruct (C H3) as [C1 C2]. split.
      * constructor; [intro X; apply H2; apply B; assumption|assumption].
      * intros [X|X]; [subst; contradiction|contradiction].
Qed.

Lemma order_by_spec : forall w s l, NoDup l -> NoDup (order_by w s l) /\ (forall u, In u (order_by w s l) -> In u l).
Proof.
  intros w s. induction s as [|k s' IH]; intros l ND; simpl; [auto|].
  destruct (pick w k l) as [[t r]|] eqn:P; [|apply IH; assumption].
  destruct (pick_spec _ _ _ _ _ P) as [A [B C]]. destruct (C ND) as [C1 C2].
  destruct (IH r C1) as [I1 I2]. split.
  - constructor; [intro X; apply C2; apply I2; assumption|assumption].
  - intros u [Hu|Hu]; [subst; assumption|apply B; apply I2; assumption].
Qed.

(* ------------------------------------------------------------------ _dispatcher, tick, run *)

Lemma run_handlers_IC : forall hs tok hi w err, IC w -> IC (fst (run_handlers tok hi hs (w, err))).
Proof.
  induction hs as [|h r IH]; intros tok hi w err H; simpl; [assumption|].
  destruct h as [v raises|c sts].
  - destruct raises; apply IH; apply IC_mod_evt; exact H.
  - apply IH. apply (IC_reg_gen _ _ (length (gens w))); [|reflexivity|reflexivity].
    apply IC_mod_evt. exact H.
Qed.

Lemma fold_Inv : forall {A} (f : world -> A -> world) l w,
  (forall w a, IC w -> Inv (f w a)) -> (forall w a, bad w = true -> f w a = w) ->
  Inv w -> Inv (fold_left f l w).
Proof.
  intros A f l. induction l as [|a r IH]; intros w Hs Hb Hi; simpl; [assumption|].
  apply IH; [assumption|assumption|]. destruct Hi as [B|I]; [rewrite Hb by assumption; left; assumption|auto].
Qed.

Lemma on_event_bad : forall tok w sid, bad w = true -> on_event tok w sid = w.
Proof. intros. unfold on_event. rewrite H. reflexivity. Qed.
Lemma on_done_bad : forall tok w sid, bad w = true -> on_done tok w sid = w.
Proof. intros. unfold on_done. rewrite H. reflexivity. Qed.
Lemma on_tick_bad : forall w sid, bad w = true -> on_tick w sid = w.
Proof. intros. unfold on_tick. rewrite H. reflexivity. Qed.

Lemma fold_on_done_Inv : forall tok l w, Inv w -> (forall s, In s l -> In (THDone s) (ths w)) ->
  Inv (fold_left (on_done tok) l w).
Proof.
  intros tok l. induction l as [|a r IH]; intros w Hi Hd; simpl; [assumption|].
  apply IH.
  - destruct Hi as [B|I]; [rewrite on_done_bad by assumption; left; assumption|].
    apply on_done_Inv; [assumption|apply Hd; left; reflexivity].
  - intros s Hs. apply on_done_keeps_done. apply Hd. right. assumption.
Qed.

Lemma done_sids_In : forall w nm s, In s (done_sids w nm) -> In (THDone s) (ths w).
Proof.
  intros w nm s. unfold done_sids. rewrite in_flat_map. intros [h [Hh Hs]].
  destruct h as [x|x|x]; try destruct Hs.
  destruct (onat_eqb (name_of_sid w x) (Some nm)); [|destruct Hs].
  destruct Hs as [Hs|[]]. subst. assumption.
Qed.

Lemma dispatch_Inv : forall p w q, Inv w -> Inv (dispatch p w q).
Proof.
  intros p w q Hi. unfold dispatch. destruct (bad w) eqn:Bw; [left; assumption|].
  destruct Hi as [B|I]; [congruence|].
  destruct q as [tok|tok|tok|].
  - destruct (nth_error (evs w) tok) as [e|]; [|left; reflexivity].
    pose proof (run_handlers_IC (handlers_of p (e_name e)) tok O (add_log (LDisp tok) (mod_evt tok set_dispatched w)) false) as R.
    destruct (run_handlers tok O (handlers_of p (e_name e)) (add_log (LDisp tok) (mod_evt tok set_dispatched w), false)) as [w1 err].
    simpl in R. apply (quiet_Inv _ (event_done_quiet tok err)).
    apply fold_Inv; [intros; apply on_event_Inv; assumption|intros; apply on_event_bad; assumption|].
    right. apply R. exact I.
  - destruct (nth_error (evs w) tok) as [e|]; [|left; reflexivity].
    apply fold_on_done_Inv; [right; assumption|]. intros s Hs. apply (done_sids_In _ _ _ Hs).
  - destruct (nth_error (evs w) tok) as [e|]; [|left; reflexivity]. right. exact I.
  - apply fold_Inv; [intros; apply on_tick_Inv; assumption|intros; apply on_tick_bad; assumption|right; assumption].
Qed.

Lemma dispatch_bad : forall p w q, bad w = true -> dispatch p w q = w.
Proof. intros. unfold dispatch. rewrite H. reflexivity. Qed.

Lemma fold_ptask_bad : forall l w, bad w = true -> fold_left (fun w t => ptask t w) l w = w.
Proof.
  induction l as [|t r IH]; intros w B; simpl; [reflexivity|].
  unfold ptask at 2. rewrite B. apply IH. assumption.
Qed.

Lemma tick_Inv : forall p g sch t w, Inv w -> Inv (tick p g sch t w).
Proof.
  intros p g sch t w Hi. unfold tick.
  set (w0 := add_log (LTick t) w).
  assert (I0 : Inv w0) by (apply (quiet_Inv _ (quiet_add_log _)); assumption).
  assert (I1 : Inv (fold_left (fun w t => ptask t w) (order_by w0 sch (tasks w0)) w0)).
  { destruct I0 as [B|I].
    - rewrite fold_ptask_bad by assumption. left. assumption.
    - destruct (order_by_spec w0 sch (tasks w0)) as [N1 N2]; [destruct I as [_ [_ [_ [D _]]]]; exact D|].
      apply fold_ptask_Inv; [right; assumption|assumption|]. intros _ u Hu. apply N2. assumption. }
  set (w1 := fold_left (fun w t => ptask t w) (order_by w0 sch (tasks w0)) w0) in *.
  assert (I2 : Inv (if g then push QGenEv w1 else w1)).
  { destruct g; [apply (quiet_Inv _ (quiet_push _)); assumption|assumption]. }
  set (w2 := if g then push QGenEv w1 else w1) in *.
  apply fold_Inv; [intros; apply dispatch_Inv; right; assumption|intros; apply dispatch_bad; assumption|].
  apply (quiet_Inv _ (quiet_set_queue [])). assumption.
Qed.

Lemma fire_roots_Inv : forall roots t w, Inv w -> Inv (fire_roots roots t w).
Proof.
  intros roots t. unfold fire_roots. induction roots as [|r rs IH]; intros w Hi; simpl; [assumption|].
  apply IH. destruct (Nat.eqb (fst r) t); [|assumption].
  apply (quiet_Inv _ (fire_user_quiet (snd r) O O)). assumption.
Qed.

Lemma run_from_Inv : forall p g scheds roots n t w, Inv w -> Inv (run_from p g scheds roots t n w).
Proof.
  intros p g scheds roots n. induction n as [|n IH]; intros t w Hi; simpl; [assumption|].
  apply IH. apply tick_Inv. apply fire_roots_Inv. assumption.
Qed.

Lemma IC_init : IC init.
Proof.
  unfold IC, IC3, init. simpl. split; [constructor|]. split; [intros h []|]. split.
  - intros sid st H. destruct sid; discriminate.
  - split; [constructor|intros t []].
Qed.

Theorem run_Inv : forall p g scheds roots n, Inv (run p g scheds roots n).
Proof. intros. unfold run. apply run_from_Inv. right. apply IC_init. Qed.

(* ------------------------------------------------------------------ what the invariant says about a run *)

Definition wants (h : th) (st : wst) : Prop :=
  match h with
  | THEv _ => s_ph st = Armed
  | THDone _ => s_ph st <> Dead
  | THTick _ => (s_ph st = Armed \/ s_ph st = Seen) /\ 0 <= s_timeout st
  end.

Lemma run_IC : forall p g scheds roots n, bad (run p g scheds roots n) = false -> IC (run p g scheds roots n).
Proof. intros p g scheds roots n B. destruct (run_Inv p g scheds roots n) as [X|X]; [congruence|assumption]. Qed.

Lemma residue_spec : forall p g scheds roots n, let w := run p g scheds roots n in bad w = false ->
  NoDup (ths w) /\
  forall h, In h (ths w) <-> exists st, nth_error (wsts w) (sid_of h) = Some st /\ wants h st.
Proof.
  intros p g scheds roots n w B. destruct (run_IC _ _ _ _ _ B) as [A [R [C _]]]. fold w in A, R, C.
  split; [assumption|]. intro h. split.
  - intro Hin. pose proof (R h Hin) as L. apply nth_error_Some in L.
    destruct (nth_error (wsts w) (sid_of h)) as [st|] eqn:E; [|congruence]. exists st. split; [reflexivity|].
    destruct (C _ _ E) as [O1 O2 O3 _ _ _ _ _]. destruct h; simpl in *; [apply O1|apply O2|apply O3]; assumption.
  - intros [st [E W]]. destruct (C _ _ E) as [O1 O2 O3 _ _ _ _ _]. destruct h; simpl in *; [apply O1|apply O2|apply O3]; assumption.
Qed.

Lemma no_residue_all_dead : forall p g scheds roots n, let w := run p g scheds roots n in bad w = false ->
  (forall sid st, nth_error (wsts w) sid = Some st -> s_ph st = Dead) ->
  ths w = [] /\ forall t, In t (tasks w) -> forall sid, t_ref t <> RWait sid.
Proof.
  intros p g scheds roots n w B Hd. split.
  - destruct (residue_spec p g scheds roots n B) as [_ S]. fold w in S.
    destruct (ths w) as [|h r] eqn:E; [reflexivity|]. exfalso.
    destruct (proj1 (S h) (or_introl eq_refl)) as [st [Hs W]]. pose proof (Hd _ _ Hs) as D.
    destruct h; simpl in W; [congruence|congruence|destruct W as [[X|X] _]; congruence].
  - intros t Ht sid R. destruct (run_IC _ _ _ _ _ B) as [_ [_ [_ [_ E]]]]. fold w in E.
    specialize (E t Ht). unfold task_ok in E. rewrite R in E. destruct E as [st [Hs [Ph _]]].
    rewrite (Hd _ _ Hs) in Ph. discriminate.
Qed.

Lemma resume_accounting : forall p g scheds roots n sid st, let w := run p g scheds roots n in bad w = false ->
  nth_error (wsts w) sid = Some st ->
  (s_resumes st + alive (s_ph st) + count_rt sid (tasks w) = 1)%nat.
Proof.
  intros p g scheds roots n sid st w B Hs. destruct (run_IC _ _ _ _ _ B) as [_ [_ [C _]]].
  destruct (C _ _ Hs). assumption.
Qed.

Lemma resume_at_most_once : forall p g scheds roots n sid st, let w := run p g scheds roots n in bad w = false ->
  nth_error (wsts w) sid = Some st ->
  (s_resumes st <= 1)%nat /\ (s_resumes st = 1%nat -> s_ph st = Dead /\ count_rt sid (tasks w) = O).
Proof.
  intros p g scheds roots n sid st w B Hs. pose proof (resume_accounting p g scheds roots n sid st B Hs) as A.
  fold w in A. split; [lia|]. intro R. split; [|lia]. destruct (s_ph st); simpl in A; try lia. reflexivity.
Qed.

Lemma timeout_not_early : forall p g scheds roots n sid st, let w := run p g scheds roots n in bad w = false ->
  nth_error (wsts w) sid = Some st ->
  (s_timedout st = true \/ (0 < count_rt sid (tasks w))%nat) ->
  Z.of_nat (s_ticks st) = s_tmo0 st + 1 /\ s_ph st = Dead.
Proof.
  intros p g scheds roots n sid st w B Hs H. destruct (run_IC _ _ _ _ _ B) as [_ [_ [C _]]].
  destruct (C _ _ Hs) as [_ _ _ _ O5 O6 _ O8].
  assert (T : s_timedout st = true) by (destruct H; auto).
  unfold wst_time_ok in O6. rewrite T in O6. split; [assumption|apply O5; assumption].
Qed.

Lemma live_countdown : forall p g scheds roots n sid st, let w := run p g scheds roots n in bad w = false ->
  nth_error (wsts w) sid = Some st -> s_timedout st = false -> 0 <= s_tmo0 st ->
  0 <= s_timeout st /\ s_timeout st + Z.of_nat (s_ticks st) = s_tmo0 st.
Proof.
  intros p g scheds roots n sid st w B Hs T L. destruct (run_IC _ _ _ _ _ B) as [_ [_ [C _]]].
  destruct (C _ _ Hs) as [_ _ _ _ _ O6 _ _]. unfold wst_time_ok in O6. rewrite T in O6. apply O6. assumption.
Qed.

Lemma wait_task_flagged : forall p g scheds roots n t sid, let w := run p g scheds roots n in bad w = false ->
  In t (tasks w) -> t_ref t = RWait sid ->
  exists st, nth_error (wsts w) sid = Some st /\ s_ph st = Flagged /\ In (THDone sid) (ths w) /\
             ~ In (THEv sid) (ths w) /\ ~ In (THTick sid) (ths w).
Proof.
  intros p g scheds roots n t sid w B Ht R. destruct (run_IC _ _ _ _ _ B) as [_ [_ [C [_ E]]]]. fold w in C, E.
  specialize (E t Ht). unfold task_ok in E. rewrite R in E. destruct E as [st [Hs [Ph _]]].
  exists st. destruct (C _ _ Hs) as [O1 O2 O3 _ _ _ _ _]. repeat split; try assumption.
  - apply O2. rewrite Ph. discriminate.
  - intro X. apply O1 in X. congruence.
  - intro X. apply O3 in X. destruct X as [[X|X] _]; congruence.
Qed.

(* ------------------------------------------------------------------ witnesses *)

(* non-vacuity: a call that returns, a call that times out, a callee whose generator handler raises after its
   first yield (the caller is resumed with the error), and a handler that raises right after being resumed *)
Definition prog_ok : program :=
  [ [HGen true [SCall 1%nat (-1); SYield (Some 7)]]; [HPlain (Some 5) false; HGen true [SYield (Some 9)]] ].
Definition prog_tmo : program :=
  [ [HGen true [SCall 1%nat 1; SYield (Some 7)]]; [HGen true [SYield None; SYield None; SYield None; SYield None]] ].
Definition prog_genraise : program :=
  [ [HGen true [SCall 1%nat (-1); SYield (Some 7)]]; [HGen true [SYield (Some 9); SRaise]] ].
Definition prog_raise_resumed : program :=
  [ [HGen true [SCall 1%nat (-1); SYield (Some 7)]]; [HGen true [SCall 2%nat (-1); SRaise]]; [HPlain (Some 5) false] ].
